(* Base/Bytes.v -- byte strings.  A Coq [string] is a list of 8-bit [ascii], i.e. exactly a Go
   []byte / string.  [bs] builds one from byte codes (used by the harness's Gallina printer for
   bytes outside printable ASCII). *)
From Coq Require Import List String Ascii NArith Bool.
Import ListNotations.
Open Scope string_scope.

Definition bytes := string.

Definition bs (l : list N) : string :=
  string_of_list_ascii (map ascii_of_N l).

(* same from [nat] byte codes: needs no N scope in the generated case files *)
Definition bsn (l : list nat) : string := bs (map N.of_nat l).

Definition codes (s : string) : list N := map N_of_ascii (list_ascii_of_string s).

(* bytes.Compare: byte-wise lexicographic, a proper prefix is smaller *)
Fixpoint bcompare (a b : string) : comparison :=
  match a, b with
  | EmptyString, EmptyString => Eq
  | EmptyString, String _ _ => Lt
  | String _ _, EmptyString => Gt
  | String x a', String y b' =>
      match N.compare (N_of_ascii x) (N_of_ascii y) with
      | Eq => bcompare a' b'
      | c => c
      end
  end.

Definition bleb (a b : string) : bool := match bcompare a b with Gt => false | _ => true end.
Definition bltb (a b : string) : bool := match bcompare a b with Lt => true | _ => false end.
Definition beqb (a b : string) : bool := String.eqb a b.

(* bytes.HasPrefix k p *)
Fixpoint has_prefix (p k : string) : bool :=
  match p, k with
  | EmptyString, _ => true
  | String _ _, EmptyString => false
  | String x p', String y k' => Ascii.eqb x y && has_prefix p' k'
  end.

Definition blen (s : string) : nat := String.length s.

(* s[i:j] with Go's bounds discipline made explicit by the caller *)
Definition bslice (s : string) (i j : nat) : string := String.substring i (j - i) s.

Fixpoint option_list_eqb {A} (eqb : A -> A -> bool) (a b : list A) : bool :=
  match a, b with
  | [], [] => true
  | x :: a', y :: b' => eqb x y && option_list_eqb eqb a' b'
  | _, _ => false
  end.
Definition list_eqb {A} := @option_list_eqb A.
