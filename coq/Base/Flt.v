(* Base/Flt.v -- the float interface [fops] instantiated with Coq's primitive binary64 floats
   (evaluated by the kernel VM on the host FPU: the same IEEE-754 arithmetic Go uses on amd64).
   Only used to RUN the twin in the correspondence check; no theorem depends on it.

   strconv.ParseFloat is modelled on the decimal grammar: optional sign, digits with an
   optional fraction point (at least one digit overall), optional e/E exponent with sign,
   with a mantissa below 2^53 and a decimal exponent within +-22 (one correctly rounded
   multiplication or division: exact); text without any digit that is not inf/infinity/nan is
   a parse error; everything else is reported as outside the model.
   fmt "%f" is modelled exactly through the float's mantissa/exponent and integer arithmetic. *)
From Coq Require Import List String Ascii ZArith Bool Floats Uint63.
Import ListNotations.
From KV Require Import Base.Bytes Base.Num Model.Value.
Local Open Scope Z_scope.

Definition pf_of_Z (z : Z) : float :=
  if z <? 0 then PrimFloat.opp (PrimFloat.of_uint63 (Uint63.of_Z (- z)))
  else PrimFloat.of_uint63 (Uint63.of_Z z).

(* exact value of a finite float as sign, mantissa, exponent *)
Definition pf_trunc (f : float) : option Z :=
  match Prim2SF f with
  | S754_zero _ => Some 0
  | S754_finite s m e =>
      let mag := if 0 <=? e then Z.pos m * 2 ^ e else Z.shiftr (Z.pos m) (- e) in
      let z := if s then - mag else mag in
      if in64 z then Some z else None
  | _ => None
  end.

Definition pad6 (n : Z) : string :=
  let s := str_of_Z n in
  let fix zeros (k : nat) := match k with O => EmptyString | S k' => String "0"%char (zeros k') end in
  (zeros (6 - String.length s)%nat ++ s)%string.

Definition pf_fmt (f : float) : string :=
  match Prim2SF f with
  | S754_zero s => if s then "-0.000000"%string else "0.000000"%string
  | S754_infinity s => if s then "-Inf"%string else "+Inf"%string
  | S754_nan => "NaN"%string
  | S754_finite s m e =>
      (* q = round-half-even (m * 2^e * 10^6) *)
      let q :=
        if 0 <=? e then Z.pos m * 2 ^ e * 1000000
        else
          let num := Z.pos m * 1000000 in
          let den := 2 ^ (- e) in
          let q0 := num / den in
          let r := num mod den in
          match Z.compare (2 * r) den with
          | Gt => q0 + 1
          | Eq => if Z.odd q0 then q0 + 1 else q0
          | Lt => q0
          end in
      ((if s then "-" else "") ++ str_of_Z (q / 1000000) ++ "." ++ pad6 (q mod 1000000))%string
  end.

(* 10^n as a float, exact for n <= 22; 10^n itself does not fit an int64 beyond n = 18, so the
   larger powers are the (exact) product of two exactly representable factors *)
Definition pow10f (n : nat) : float :=
  if (n <=? 18)%nat then pf_of_Z (10 ^ Z.of_nat n)
  else PrimFloat.mul (pf_of_Z (10 ^ 18)) (pf_of_Z (10 ^ Z.of_nat (n - 18))).

(* ---- decimal float syntax *)
Fixpoint take_digits (s : string) (acc : Z) (n : nat) : Z * nat * string :=
  match s with
  | String c s' => match digit_val c with
                   | Some d => take_digits s' (acc * 10 + d) (S n)
                   | None => (acc, n, s)
                   end
  | EmptyString => (acc, n, s)
  end.

Definition lower_str (s : string) : string := map_bytes lower_byte s.

Fixpoint has_digit (s : string) : bool :=
  match s with
  | EmptyString => false
  | String c s' => is_digit c || has_digit s'
  end.

Definition strip_sign (s : string) : bool * string :=
  match s with
  | String c s' => if Ascii.eqb c "-"%char then (true, s')
                   else if Ascii.eqb c "+"%char then (false, s') else (false, s)
  | EmptyString => (false, s)
  end.

Definition pf_parse (s : string) : pf float :=
  let '(neg, body) := strip_sign s in
  if negb (has_digit body) then
    let l := lower_str body in
    if String.eqb l "inf" || String.eqb l "infinity" || String.eqb l "nan" then PF_oom else PF_err
  else
    let '(ip, ni, rest) := take_digits body 0 0 in
    let '(m, nf, rest2) :=
      match rest with
      | String "."%char r => let '(fp, nf, r2) := take_digits r ip 0 in (fp, nf, r2)
      | _ => (ip, O, rest)
      end in
    if Nat.eqb (ni + nf)%nat 0 then PF_oom
    else
      let exp_part : option Z :=
        match rest2 with
        | EmptyString => Some 0
        | String c r =>
            if Ascii.eqb c "e"%char || Ascii.eqb c "E"%char then
              let '(eneg, r1) := strip_sign r in
              match r1 with
              | EmptyString => None
              | _ => let '(ev, ne, r3) := take_digits r1 0 0 in
                     match r3 with
                     | EmptyString => if Nat.eqb ne 0 then None else Some (if eneg then - ev else ev)
                     | _ => None
                     end
              end
            else None
        end in
      match exp_part with
      | None => PF_oom
      | Some ex =>
          let e10 := ex - Z.of_nat nf in
          if (m <? 2 ^ 53) && (-22 <=? e10) && (e10 <=? 22) then
            let fm := pf_of_Z m in
            let r := if 0 <=? e10 then PrimFloat.mul fm (pow10f (Z.to_nat e10))
                     else PrimFloat.div fm (pow10f (Z.to_nat (- e10))) in
            PF_ok (if neg then PrimFloat.opp r else r)
          else PF_oom
      end.

(* identity of a float value: sign, mantissa, exponent folded into one integer *)
Definition pf_bits (f : float) : Z :=
  match Prim2SF f with
  | S754_zero s => if s then -1 else 0
  | S754_infinity s => if s then -3 else 3
  | S754_nan => 5
  | S754_finite s m e =>
      let code := (Z.pos m) * 8192 + (e + 4096) in
      if s then - (code * 8 + 7) else code * 8 + 7
  end.

Definition prim_fops : fops := {|
  F := float;
  fadd := PrimFloat.add; fsub := PrimFloat.sub; fmul := PrimFloat.mul; fdiv := PrimFloat.div;
  fsqrt := PrimFloat.sqrt; fabs := PrimFloat.abs;
  feqb := PrimFloat.eqb; fltb := PrimFloat.ltb; fleb := PrimFloat.leb;
  f_of_Z := pf_of_Z; f_trunc := pf_trunc; f_parse := pf_parse; f_fmt := pf_fmt;
  f_zero := PrimFloat.zero; f_one := PrimFloat.one; f_bits := pf_bits
|}.

(* a float written by the harness as  mantissa * 2^exponent  (exact) *)
Definition float_of_me (m e : Z) : float :=
  if m =? 0 then PrimFloat.zero
  else SF2Prim (S754_finite (m <? 0) (Z.to_pos (Z.abs m)) e).
