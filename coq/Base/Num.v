(* Base/Num.v -- int64 arithmetic and decimal text, as the Go code uses them:
   wrap-around + - *, truncating /, strconv.ParseInt(s, 10, 64), fmt "%d". *)
From Coq Require Import List String Ascii ZArith NArith Bool Lia.
Import ListNotations.
Local Open Scope Z_scope.

Definition min64 : Z := - 2 ^ 63.
Definition max64 : Z := 2 ^ 63 - 1.
Definition in64 (z : Z) : bool := (min64 <=? z) && (z <=? max64).

(* two's-complement wrap-around of int64 arithmetic *)
Definition wrap64 (z : Z) : Z := ((z + 2 ^ 63) mod 2 ^ 64) - 2 ^ 63.

Definition add64 (a b : Z) : Z := wrap64 (a + b).
Definition sub64 (a b : Z) : Z := wrap64 (a - b).
Definition mul64 (a b : Z) : Z := wrap64 (a * b).
(* Go: truncated division; MinInt64 / -1 wraps to MinInt64 *)
Definition div64 (a b : Z) : Z := wrap64 (Z.quot a b).

(* ---------------------------------------------------------------- decimal text *)

Definition digit_val (c : ascii) : option Z :=
  let n := N_of_ascii c in
  if ((48 <=? n) && (n <=? 57))%N then Some (Z.of_N n - 48) else None.

Definition is_digit (c : ascii) : bool :=
  match digit_val c with Some _ => true | None => false end.

Fixpoint digits_val (s : string) (acc : Z) : option Z :=
  match s with
  | EmptyString => Some acc
  | String c s' => match digit_val c with
                   | Some d => digits_val s' (acc * 10 + d)
                   | None => None
                   end
  end.

(* strconv.ParseInt(s, 10, 64): optional sign, at least one digit, digits only, in range *)
Definition parse_int (s : string) : option Z :=
  match s with
  | EmptyString => None
  | String c s' =>
      let '(neg, body) :=
        if Ascii.eqb c "-"%char then (true, s')
        else if Ascii.eqb c "+"%char then (false, s')
        else (false, s) in
      match body with
      | EmptyString => None
      | _ => match digits_val body 0 with
             | Some n => let z := if neg then - n else n in
                         if in64 z then Some z else None
             | None => None
             end
      end
  end.

Definition digit_char (d : Z) : ascii := ascii_of_N (Z.to_N (d + 48)).

(* digits of a non-negative number, most significant first; fuel = number of digits bound *)
Fixpoint pos_digits (fuel : nat) (n : Z) (acc : string) : string :=
  match fuel with
  | O => acc
  | S f => let acc' := String (digit_char (n mod 10)) acc in
           if n / 10 =? 0 then acc' else pos_digits f (n / 10) acc'
  end.

Definition nat_fuel (n : Z) : nat := S (Z.to_nat (Z.log2_up (Z.abs n + 1))).

(* fmt.Sprintf("%d", z) *)
Definition str_of_Z (z : Z) : string :=
  if z <? 0 then String "-"%char (pos_digits (nat_fuel z) (- z) EmptyString)
  else pos_digits (nat_fuel z) z EmptyString.

(* ASCII case mapping; None when a byte is outside ASCII (strings.ToUpper/ToLower then work
   on runes, which is not modelled) *)
Definition upper_byte (c : ascii) : ascii :=
  let n := N_of_ascii c in
  if ((97 <=? n) && (n <=? 122))%N then ascii_of_N (n - 32) else c.
Definition lower_byte (c : ascii) : ascii :=
  let n := N_of_ascii c in
  if ((65 <=? n) && (n <=? 90))%N then ascii_of_N (n + 32) else c.
Definition is_ascii (c : ascii) : bool := (N_of_ascii c <? 128)%N.

Fixpoint all_ascii (s : string) : bool :=
  match s with
  | EmptyString => true
  | String c s' => is_ascii c && all_ascii s'
  end.

Fixpoint map_bytes (f : ascii -> ascii) (s : string) : string :=
  match s with
  | EmptyString => EmptyString
  | String c s' => String (f c) (map_bytes f s')
  end.

Definition ascii_upper (s : string) : option string :=
  if all_ascii s then Some (map_bytes upper_byte s) else None.
Definition ascii_lower (s : string) : option string :=
  if all_ascii s then Some (map_bytes lower_byte s) else None.
