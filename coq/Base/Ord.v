(* Base/Ord.v -- the byte-wise order on strings (bytes.Compare) is a total order, prefixes
   are intervals of it; a small saturation tactic [ord] for order goals (the stdlib [order]
   tactic diverges on strings and is not used). *)
From Coq Require Import List String Ascii NArith Bool Lia.
Import ListNotations.
From KV Require Import Base.Bytes.
Open Scope string_scope.

Lemma N_of_ascii_inj a b : N_of_ascii a = N_of_ascii b -> a = b.
Proof. intros H. rewrite <- (ascii_N_embedding a), <- (ascii_N_embedding b), H. reflexivity. Qed.

Lemma bcompare_refl a : bcompare a a = Eq.
Proof. induction a as [|x a IH]; cbn; [reflexivity|]. rewrite N.compare_refl. exact IH. Qed.

Lemma bcompare_eq a b : bcompare a b = Eq -> a = b.
Proof.
  revert b; induction a as [|x a IH]; destruct b as [|y b]; cbn; try discriminate; auto.
  destruct (N.compare (N_of_ascii x) (N_of_ascii y)) eqn:E; try discriminate.
  intros H. apply N.compare_eq in E. apply N_of_ascii_inj in E. subst. f_equal. auto.
Qed.

Lemma bcompare_antisym a b : bcompare b a = CompOpp (bcompare a b).
Proof.
  revert b; induction a as [|x a IH]; destruct b as [|y b]; cbn; try reflexivity.
  rewrite (N.compare_antisym (N_of_ascii x) (N_of_ascii y)).
  destruct (N.compare (N_of_ascii x) (N_of_ascii y)); cbn; auto.
Qed.

Lemma bcompare_lt_trans a b c : bcompare a b = Lt -> bcompare b c = Lt -> bcompare a c = Lt.
Proof.
  revert b c; induction a as [|x a IH]; destruct b as [|y b]; destruct c as [|z c]; cbn;
    try discriminate; auto.
  destruct (N.compare (N_of_ascii x) (N_of_ascii y)) eqn:E1;
  destruct (N.compare (N_of_ascii y) (N_of_ascii z)) eqn:E2; try discriminate; intros H1 H2.
  - apply N.compare_eq in E1, E2. rewrite E1, E2, N.compare_refl. eauto.
  - apply N.compare_eq in E1. rewrite E1, E2. reflexivity.
  - apply N.compare_eq in E2. rewrite <- E2, E1. reflexivity.
  - rewrite N.compare_lt_iff in E1, E2.
    assert (E3 : (N_of_ascii x < N_of_ascii z)%N) by lia.
    rewrite <- N.compare_lt_iff in E3. rewrite E3. reflexivity.
Qed.

(* ---------------------------------------------------------------- the order as Booleans *)

Lemma bleb_refl a : bleb a a = true.
Proof. unfold bleb. rewrite bcompare_refl. reflexivity. Qed.

Lemma bleb_antisym a b : bleb a b = true -> bleb b a = true -> a = b.
Proof.
  unfold bleb. rewrite (bcompare_antisym a b).
  destruct (bcompare a b) eqn:E; cbn; try discriminate; intros _ _.
  now apply bcompare_eq.
Qed.

Lemma bleb_trans a b c : bleb a b = true -> bleb b c = true -> bleb a c = true.
Proof.
  unfold bleb.
  destruct (bcompare a b) eqn:E1; try discriminate;
  destruct (bcompare b c) eqn:E2; try discriminate; intros _ _.
  - apply bcompare_eq in E1, E2. subst. rewrite bcompare_refl. reflexivity.
  - apply bcompare_eq in E1. subst. rewrite E2. reflexivity.
  - apply bcompare_eq in E2. subst. rewrite E1. reflexivity.
  - rewrite (bcompare_lt_trans _ _ _ E1 E2). reflexivity.
Qed.

Lemma bleb_false_flip a b : bleb a b = false -> bleb b a = true.
Proof.
  unfold bleb. rewrite (bcompare_antisym a b). destruct (bcompare a b); cbn; congruence.
Qed.

Lemma bleb_false_neq a b : bleb a b = false -> a <> b.
Proof. intros H ->. rewrite bleb_refl in H. discriminate. Qed.

Lemma bltb_true_iff a b : bltb a b = true <-> bleb b a = false.
Proof.
  unfold bltb, bleb. rewrite (bcompare_antisym a b). destruct (bcompare a b); cbn; split; congruence.
Qed.

Lemma bltb_false_iff a b : bltb a b = false <-> bleb b a = true.
Proof.
  unfold bltb, bleb. rewrite (bcompare_antisym a b). destruct (bcompare a b); cbn; split; congruence.
Qed.

Lemma bleb_empty a : bleb "" a = true.
Proof. destruct a; reflexivity. Qed.

Lemma bleb_to_empty a : bleb a "" = true -> a = "".
Proof. destruct a; [reflexivity | discriminate]. Qed.

(* ---------------------------------------------------------------- prefixes *)

Lemma has_prefix_refl p : has_prefix p p = true.
Proof. induction p as [|x p IH]; cbn; [reflexivity|]. rewrite Ascii.eqb_refl. exact IH. Qed.

Lemma has_prefix_empty k : has_prefix "" k = true.
Proof. reflexivity. Qed.

Lemma has_prefix_le p k : has_prefix p k = true -> bleb p k = true.
Proof.
  revert k; induction p as [|x p IH]; intros k H; [apply bleb_empty|].
  destruct k as [|y k]; cbn in H; [discriminate|].
  apply andb_true_iff in H. destruct H as [E H]. apply Ascii.eqb_eq in E. subst y.
  specialize (IH k H). unfold bleb in *. cbn. rewrite N.compare_refl. exact IH.
Qed.

Lemma has_prefix_trans a b k : has_prefix a b = true -> has_prefix b k = true -> has_prefix a k = true.
Proof.
  revert b k; induction a as [|x a IH]; intros b k H1 H2; [reflexivity|].
  destruct b as [|y b]; cbn in H1; [discriminate|].
  destruct k as [|z k]; cbn in H2; [discriminate|].
  apply andb_true_iff in H1, H2. destruct H1 as [E1 H1], H2 as [E2 H2].
  apply Ascii.eqb_eq in E1, E2. subst. cbn. rewrite Ascii.eqb_refl. cbn. eauto.
Qed.

(* two prefixes of the same key are comparable *)
Lemma has_prefix_comparable p q k :
  has_prefix p k = true -> has_prefix q k = true -> has_prefix p q = true \/ has_prefix q p = true.
Proof.
  revert q k; induction p as [|x p IH]; intros q k H1 H2; [left; reflexivity|].
  destruct q as [|y q]; [right; reflexivity|].
  destruct k as [|z k]; cbn in H1; [discriminate|]. cbn in H2.
  apply andb_true_iff in H1, H2. destruct H1 as [E1 H1], H2 as [E2 H2].
  apply Ascii.eqb_eq in E1, E2. subst. cbn. rewrite Ascii.eqb_refl. cbn. eauto.
Qed.

(* keys under a prefix form an interval: anything at or above the prefix that does not
   carry it lies above every key that does *)
Lemma has_prefix_interval p k r :
  has_prefix p k = true -> has_prefix p r = false -> bleb p r = true -> bleb r k = false.
Proof.
  revert k r; induction p as [|x p IH]; intros k r H1 H2 H3; [discriminate|].
  destruct k as [|y k]; cbn in H1; [discriminate|].
  apply andb_true_iff in H1. destruct H1 as [E1 H1]. apply Ascii.eqb_eq in E1. subst y.
  destruct r as [|z r]; [discriminate|].
  cbn in H2. unfold bleb in *. cbn in *.
  destruct (N.compare (N_of_ascii x) (N_of_ascii z)) eqn:E.
  - apply N.compare_eq in E. apply N_of_ascii_inj in E. subst z.
    rewrite Ascii.eqb_refl in H2. cbn in H2. rewrite N.compare_refl.
    exact (IH k r H1 H2 H3).
  - rewrite (N.compare_antisym (N_of_ascii x) (N_of_ascii z)), E. reflexivity.
  - discriminate.
Qed.

(* a key below the prefix is below every key carrying it *)
Lemma has_prefix_above p k r :
  has_prefix p k = true -> bleb p r = false -> bleb k r = false.
Proof.
  intros H1 H2. apply has_prefix_le in H1.
  destruct (bleb k r) eqn:E; [|reflexivity].
  rewrite (bleb_trans _ _ _ H1 E) in H2. discriminate.
Qed.

Lemma has_prefix_antisym a b : has_prefix a b = true -> has_prefix b a = true -> a = b.
Proof. intros H1 H2. apply bleb_antisym; now apply has_prefix_le. Qed.

(* ---------------------------------------------------------------- the tactic *)

Ltac ord_norm :=
  repeat match goal with
  | H : _ /\ _ |- _ => destruct H
  | H : andb _ _ = true |- _ => apply andb_true_iff in H; destruct H
  | H : negb _ = true |- _ => apply negb_true_iff in H
  | H : negb _ = false |- _ => apply negb_false_iff in H
  | H : bltb _ _ = true |- _ => apply bltb_true_iff in H
  | H : bltb _ _ = false |- _ => apply bltb_false_iff in H
  | H : String.eqb _ _ = true |- _ => apply String.eqb_eq in H; try subst
  | H : String.eqb _ _ = false |- _ => apply String.eqb_neq in H
  | H : bleb ?a "" = true |- _ => apply bleb_to_empty in H; try subst
  | H : bleb "" _ = false |- _ => rewrite bleb_empty in H; discriminate
  | H : Some _ = Some _ |- _ => injection H as H; try subst
  | H : true = false |- _ => discriminate
  | H : false = true |- _ => discriminate
  end.

Ltac ord_sat :=
  repeat match goal with
  | H : has_prefix ?p ?k = true |- _ =>
      lazymatch goal with
      | _ : bleb p k = true |- _ => fail
      | _ => pose proof (has_prefix_le _ _ H)
      end
  | H : bleb ?a ?b = false |- _ =>
      lazymatch goal with
      | _ : bleb b a = true |- _ => fail
      | _ => pose proof (bleb_false_flip _ _ H)
      end
  | H1 : bleb ?a ?b = true, H2 : bleb ?b ?c = true |- _ =>
      lazymatch goal with
      | _ : bleb a c = true |- _ => fail
      | _ => pose proof (bleb_trans _ _ _ H1 H2)
      end
  end.

Ltac ord_contra :=
  match goal with
  | H1 : bleb ?a ?b = false, H2 : bleb ?a ?b = true |- _ => rewrite H2 in H1; discriminate H1
  | H : bleb ?a ?a = false |- _ => rewrite bleb_refl in H; discriminate H
  | H : ?a <> ?b, H1 : bleb ?a ?b = true, H2 : bleb ?b ?a = true |- _ =>
      exfalso; apply H; exact (bleb_antisym _ _ H1 H2)
  | H : ?a <> ?a |- _ => exfalso; apply H; reflexivity
  end.

(* decide a goal of the order theory from the hypotheses *)
Ltac ord :=
  intros; ord_norm;
  lazymatch goal with
  | |- bleb ?a ?b = true => destruct (bleb a b) eqn:?; [reflexivity | exfalso]
  | |- bleb ?a ?b = false => destruct (bleb a b) eqn:?; [exfalso | reflexivity]
  | |- bltb ?a ?b = true => apply bltb_true_iff; destruct (bleb b a) eqn:?; [exfalso | reflexivity]
  | |- bltb ?a ?b = false => apply bltb_false_iff; destruct (bleb b a) eqn:?; [reflexivity | exfalso]
  | |- @eq string ?a ?b => apply bleb_antisym;
        [destruct (bleb a b) eqn:?; [reflexivity | exfalso]
        |destruct (bleb b a) eqn:?; [reflexivity | exfalso]]
  | |- False => idtac
  | |- _ => exfalso
  end; ord_norm; ord_sat; ord_contra.

Example ord_test a b c : bleb a b = true -> bltb b c = true -> bleb c a = false.
Proof. ord. Qed.
Example ord_test2 a b c : bleb a b = true -> bleb b c = true -> bleb c a = true -> a = c.
Proof. ord. Qed.
