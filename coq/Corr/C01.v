(* Corr/C01.v -- correspondence and spec verdict for C01.
   case = (checked WHERE tree, store, per-pair Filter observations, rows returned by
   `select * where P` in each iteration mode / batch size).
   code 2: P is evaluable on every stored pair (reference semantics Spec/Sem.v) and some drain
           did not return exactly the pairs on which P is true, in key order, with their values;
   code 1: the evaluator twin disagrees with FilterExec.Filter on some pair;
   code 99: P is not evaluable on some pair / outside the twin (not in the property's domain).
   A second case kind, [Text], starts from the QUERY TEXT (Corr/C01Text.v: the whole pipeline of
   Model/Pipeline.v against NewOptimizer(q).BuildPlan(store), same codes). *)
From Coq Require Import List String ZArith Bool.
Import ListNotations.
From KV Require Import Base.Bytes Base.Flt Model.Ast Model.Value Model.Eval Spec.Sem Corr.EvalCommon Corr.C01Text.

Definition re_none (p t : bytes) : option bool := None.
Definition sem_prim := sem prim_fops re_none.

Inductive case :=
  | Case (cexpr : expr)
         (cstore : list (bytes * bytes * obs))          (* pair and what Filter returned for it *)
         (cruns : list (list (bytes * bytes)))          (* rows of each drain *)
  | Text (c : tcase).                                   (* from the query text: Corr/C01Text.v *)

Definition pair_eqb (a b : bytes * bytes) : bool :=
  String.eqb (fst a) (fst b) && String.eqb (snd a) (snd b).

Definition is_sbool_true (s : option (sval prim_fops)) : bool :=
  match s with Some (SBool true) => true | _ => false end.

Definition check_tree (cexpr : expr) (cstore : list (bytes * bytes * obs))
                      (cruns : list (list (bytes * bytes))) : nat :=
  let pairs := map (fun r => fst r) cstore in
  let evaluable := forallb (fun kv => match sem_prim (fst kv) (snd kv) cexpr with
                                      | Some (SBool _) => true | _ => false end) pairs in
  let corr := check_eval cexpr cstore in
  if evaluable then
    let want := filter (fun kv => is_sbool_true (sem_prim (fst kv) (snd kv) cexpr)) pairs in
    if forallb (fun run => list_eqb pair_eqb run want) cruns
    then (if Nat.eqb corr 99 then 0 else corr)
    else 2
  else (if Nat.eqb corr 1 then 1 else if Nat.eqb corr 2 then 1 else 99).

Definition check_case (c : case) : nat :=
  match c with
  | Case e st runs => check_tree e st runs
  | Text t => check_text t
  end.

Fixpoint mism_from (i : nat) (cs : list case) : list (nat * nat) :=
  match cs with
  | [] => []
  | c :: cs' => match check_case c with
                | 0 => mism_from (S i) cs'
                | k => (i, k) :: mism_from (S i) cs'
                end
  end.
Definition mismatches (cs : list case) := mism_from 0 cs.
