(* Corr/C01Text.v -- correspondence and spec verdict for `select *` FROM THE QUERY TEXT (C01).
   case = (query text, store, what kvql.NewParser(q).Parse() left as WHERE tree, the scan node of
   the plan kvql.NewOptimizer(q).BuildPlan(store) built, and for each iteration mode what
   BuildPlan + drain returned).  The Coq side runs Model/Pipeline.v (lexer, statement parser,
   checker, function-call check, folder, region inference on the folded tree, scan choice, scan
   + filter + `*` projection) on the TEXT with vm_compute.

   code 2 : the statement was accepted, its WHERE tree (as the implementation parsed it) is
            evaluable on every stored pair under the reference semantics Spec/Sem.v, and some
            drain did not return exactly the pairs on which it is true, in key order, with their
            values (batch drains that end in an error are judged by the harness: batch evaluation
            computes every sub-expression on every pair);
   code 1 : twin and implementation differ: accepted vs rejected, the error position, the checked
            WHERE tree, the scan node (kind, bounds, keys), the rows of some drain, or a
            row-at-a-time drain fails / succeeds where the twin's filter succeeds / fails on the
            pairs the scan reads;
   code 99: outside the model (Model/Pipeline.v: statement shape, lexer / checker / evaluator
            boundary, a regular expression reached on some stored pair). *)
From Coq Require Import List String ZArith Bool Arith.
Import ListNotations.
From KV Require Import Base.Bytes Base.Flt Model.Ast Model.Value Model.Eval Model.Fold Model.FilterOpt
                       Model.Storage Model.ScanIO Model.ScanSem Model.Pipeline Spec.Sem Corr.EvalCommon.

(* what one BuildPlan + drain gave *)
Inductive gobs :=
  | GRows (idx : list nat)      (* the rows, each as the index of that pair in the store; a row
                                   that is no stored pair has the index [length store] *)
  | GReject (pos : Z)           (* BuildPlan: *SyntaxError with this Pos *)
  | GBuildErr                   (* BuildPlan: any other error *)
  | GDrainErr                   (* Next / Batch returned an error *)
  | GPanic.

Record tcase := TCase {
  tq : string;
  tstore : list (bytes * bytes);
  ttree : option expr;          (* Parser.Parse: the checked, not yet folded WHERE tree *)
  tscan : option scan;          (* the child of the ProjectionPlan *)
  truns : list (nat * gobs)     (* mode: 0 = row-at-a-time, B > 0 = batches of B *)
}.

Definition sem0 := sem prim_fops (fun _ _ => None).

(* trees up to the definitions behind field references (the Go checker shares them) *)
Fixpoint texpr_eqb (a b : expr) {struct a} : bool :=
  let list_eqb :=
    fix go (x y : list expr) : bool :=
      match x, y with
      | [], [] => true
      | a' :: x', b' :: y' => texpr_eqb a' b' && go x' y'
      | _, _ => false
      end in
  match a, b with
  | EBin p o l r, EBin p' o' l' r' => Nat.eqb p p' && op_eqb o o' && texpr_eqb l l' && texpr_eqb r r'
  | EField p KeyKW, EField p' KeyKW | EField p ValueKW, EField p' ValueKW => Nat.eqb p p'
  | EStr p s, EStr p' s' => Nat.eqb p p' && String.eqb s s'
  | ENot p r, ENot p' r' => Nat.eqb p p' && texpr_eqb r r'
  | ECall p n l, ECall p' n' l' => Nat.eqb p p' && texpr_eqb n n' && list_eqb l l'
  | EName p s, EName p' s' => Nat.eqb p p' && String.eqb s s'
  | ERef p s _, ERef p' s' _ => Nat.eqb p p' && String.eqb s s'
  | ENum p s, ENum p' s' => Nat.eqb p p' && String.eqb s s'
  | EFloat p s, EFloat p' s' => Nat.eqb p p' && String.eqb s s'
  | EBool p x, EBool p' x' => Nat.eqb p p' && Bool.eqb x x'
  | EList p l, EList p' l' => Nat.eqb p p' && list_eqb l l'
  | EAccess p l f, EAccess p' l' f' => Nat.eqb p p' && texpr_eqb l l' && texpr_eqb f f'
  | _, _ => false
  end.

Fixpoint strs_eqb (x y : list bytes) : bool :=
  match x, y with
  | [], [] => true
  | a :: x', b :: y' => String.eqb a b && strs_eqb x' y'
  | _, _ => false
  end.

Definition scan_eqb (a b : scan) : bool :=
  match a, b with
  | SEmpty, SEmpty | SFull, SFull => true
  | SPrefix p, SPrefix q => String.eqb p q
  | SRange lo hi, SRange lo' hi' => optbytes_eqb lo lo' && optbytes_eqb hi hi'
  | SMget ks, SMget ks' => strs_eqb ks ks'
  | _, _ => false
  end.

Fixpoint pairs_eqb (x y : list (bytes * bytes)) : bool :=
  match x, y with
  | [], [] => true
  | a :: x', b :: y' => kvp_eqb a b && pairs_eqb x' y'
  | _, _ => false
  end.

(* the observed rows as pairs; None when a row is no stored pair *)
Fixpoint rows_at (d : list (bytes * bytes)) (idx : list nat) : option (list (bytes * bytes)) :=
  match idx with
  | [] => Some []
  | i :: idx' =>
      match nth_error d i, rows_at d idx' with
      | Some kv, Some r => Some (kv :: r)
      | _, _ => None
      end
  end.

Definition mode_of (m : nat) : tmode := match m with 0 => MRow | _ => MBatch m end.

Definition plan_scan (p : plan) : scan := match p with PScan sc => sc | PLimit _ _ _ => SFull end.

(* ---------------------------------------------------------------- spec verdict: needs no twin
   beyond the reference evaluator and the tree the implementation itself parsed *)
Definition spec_code (c : tcase) : nat :=
  match ttree c with
  | None => 0
  | Some P =>
      let d := tstore c in
      if forallb (fun kv => match sem0 (fst kv) (snd kv) P with Some (SBool _) => true | _ => false end) d
      then
        let want := filter (fun kv => match sem0 (fst kv) (snd kv) P with Some (SBool true) => true | _ => false end) d in
        if forallb (fun r =>
             match snd r with
             | GRows idx => match rows_at d idx with Some rows => pairs_eqb rows want | None => false end
             | GReject _ | GBuildErr => true                  (* not an accepted statement *)
             | GDrainErr => negb (Nat.eqb (fst r) 0)          (* batch: judged by the harness *)
             | GPanic => false
             end) (truns c)
        then 0 else 2
      else 0
  end.

(* ---------------------------------------------------------------- twin vs implementation *)
Definition all_runs (f : nat -> gobs -> bool) (c : tcase) : bool :=
  forallb (fun r => f (fst r) (snd r)) (truns c).

Definition is_oom {A} (r : Value.res A) : bool := match r with Value.OutOfModel => true | _ => false end.
Definition is_okb (r : Value.res bool) : bool := match r with Value.Ok _ => true | _ => false end.

Definition twin_code (c : tcase) : nat :=
  let d := tstore c in
  match checked_where prim_fops (tq c) with
  | TOom => 99
  | TPanic | TFuel | TRunErr _ => 1
  | TReject p =>
      if all_runs (fun _ o => match o with GReject q => Z.eqb p q | _ => false end) c then 0 else 1
  | TOk w2 =>
      if fold_oom prim_fops re_oom pf_fmt_v w2 then 99 else
      let pl := planned_of prim_fops re_oom pf_fmt_v w2 in
      let wf := p_filter pl in
      let frow := fun kv : bytes * bytes => filter_row prim_fops re_oom (fst kv) (snd kv) wf in
      if existsb (fun kv => is_oom (frow kv)) d then 99
      else if negb (match ttree c with Some t => texpr_eqb w2 t | None => false end) then 1
      else if negb (match tscan c with Some sc => scan_eqb sc (plan_scan (p_plan pl)) | None => false end) then 1
      else
        (* does FilterExec.Filter fail on a pair the scan reads? *)
        let region := region_of (plan_scan (p_plan pl)) in
        let row_err := existsb (fun kv => covers region (fst kv) && negb (is_okb (frow kv))) d in
        if all_runs (fun m o =>
             match o with
             | GRows idx =>
                 if Nat.eqb m 0 && row_err then false
                 else
                   match drain prim_fops re_oom pl d (mode_of m), rows_at d idx with
                   | TOk rows, Some got => pairs_eqb rows got
                   | _, _ => false
                   end
             | GDrainErr => if Nat.eqb m 0 then row_err else true
             | _ => false
             end) c
        then 0 else 1
  end.

Definition check_text (c : tcase) : nat :=
  match twin_code c with
  | 99 => 99
  | t => match spec_code c with 0 => t | v => v end
  end.
