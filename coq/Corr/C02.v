(* Corr/C02.v -- correspondence and spec verdict for C02.
   case = (checked WHERE tree, region of the scan node the real FilterOptimizer built).
   code 1: the implementation's region does not cover a key of the universe that the twin's
           region covers (the implementation is no longer at least as wide as the proved twin);
   code 2: a pair of the universe satisfies the predicate (reference semantics psem) but its
           key lies outside the implementation's region (a row is lost). *)
From Coq Require Import List String Bool.
Import ListNotations.
From KV Require Import Base.Bytes Model.Ast Model.FilterOpt Spec.KeySem.

Record case := Case { cexpr : expr; cobs : region }.

Definition check_case (univ : list (bytes * bytes)) (c : case) : nat :=
  let m := optimize (cexpr c) in
  if existsb (fun kv =>
       match psem (fun _ => None) (fst kv) (snd kv) (cexpr c) with
       | Some true => negb (covers (cobs c) (fst kv))
       | _ => false
       end) univ then 2
  else if existsb (fun kv => covers m (fst kv) && negb (covers (cobs c) (fst kv))) univ then 1
  else 0.

Fixpoint mism_from (univ : list (bytes * bytes)) (i : nat) (cs : list case) : list (nat * nat) :=
  match cs with
  | [] => []
  | c :: cs' => match check_case univ c with
                | 0 => mism_from univ (S i) cs'
                | k => (i, k) :: mism_from univ (S i) cs'
                end
  end.
Definition mismatches_with (univ : list (bytes * bytes)) (cs : list case) := mism_from univ 0 cs.

(* ---------------------------------------------------------------- text level (appended)
   CaseNT / CaseND: one statement TEXT on one store, run by the implementation once as built
   (narrowed access path) and once with the scan node replaced by a full scan (Corr/C02Text.v, codes
   there: 1 = the whole text twin differs from the narrowed run, 2 = the narrowed run differs from
   the implementation's own full-scan run).  The case files define their list with the type
   [xcase]; the tree-level cases above are embedded under their old name. *)
From KV Require Corr.C03Text Corr.C02Text Corr.C02TextD.

Inductive xcase :=
  | XBase (c : case)
  | CaseNT (t : C02Text.ntcase)
  | CaseND (t : C02Text.ndcase).
Definition XCase (e : expr) (r : region) : xcase := XBase (Case e r).

Definition xcheck_case (univ : list (bytes * bytes)) (c : xcase) : nat :=
  match c with
  | XBase b => check_case univ b
  | CaseNT t => C02Text.check_nt t
  | CaseND t => C02TextD.check_nd2 t
  end.

Fixpoint xmism_from (univ : list (bytes * bytes)) (i : nat) (cs : list xcase) : list (nat * nat) :=
  match cs with
  | [] => []
  | c :: cs' => match xcheck_case univ c with
                | 0 => xmism_from univ (S i) cs'
                | k => (i, k) :: xmism_from univ (S i) cs'
                end
  end.
Definition xmismatches_with (univ : list (bytes * bytes)) (cs : list xcase) := xmism_from univ 0 cs.
