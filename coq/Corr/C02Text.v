(* Corr/C02Text.v -- Coq side of C02's TEXT stream "narrowed vs full scan".

   A case is one statement TEXT on one store.  The Go side (harness/c02text.go) runs it twice:
     narrowed  kvql.NewOptimizer(q).BuildPlan(store), drained, as every caller does;
     full      the same built plan with its scan node (MultiGetPlan / PrefixScanPlan / RangeScanPlan /
               EmptyResultPlan) REPLACED by a FullScanPlan with the same filter and storage, Init
               re-run, drained (the harness asserts that the replaced plan explains as FullScanPlan).
   SELECT: both drains per iteration mode (0 = Next until nil, B = Batch until the empty batch at
   PlanBatchSize B); DELETE: the final store of either run (two copies of the store).

   code 0   agree
   code 1   the whole text twin (Model/PipelineS.v plan_stmt_text / run_mode, Model/PipelineW.v
            delete_text) differs from the implementation's narrowed run (the tie is broken), compared
            as Corr/C03Text.v does (FieldNames / FieldTypes, shape, scan node, rows modulo ORDER BY ties,
            error class and position)
   code 2   the implementation's narrowed run differs from ITS OWN full-scan run: other rows (ORDER BY:
            another sort-key sequence / multiset), or the narrowed run fails where the full scan
            completes; DELETE: another final store.  (A full-scan run that fails is no reference:
            pairs outside the region may make the filter fail -- code 0 on the spec side.)
   code 99  outside the model (STOom / TOom; Model/PipelineS.v and Model/PipelineW.v headers) *)
From Coq Require Import List String ZArith Bool Arith.
Import ListNotations.
From KV Require Import Base.Bytes Base.Num Base.Flt Model.Ast Model.Value Model.Fold Model.Storage Model.Write
                       Model.Pipeline Model.PipelineS Model.PipelineW
                       Corr.EvalCommon Corr.C03Stmt Corr.C03Text.
From KV Require Model.Order.
Local Open Scope nat_scope.
Local Open Scope list_scope.

(* ---------------------------------------------------------------- SELECT *)
Record ntcase := NTCase {
  nt_ps : pscase;                       (* the narrowed run, as a case of Corr/C03Text.v *)
  nt_full : list (list nat * pobs)      (* the forced full-scan run, per mode *)
}.

Definition runs_at (m : nat) (rs : list (list nat * pobs)) : option pobs :=
  match filter (fun r => existsb (Nat.eqb m) (fst r)) rs with
  | r :: _ => Some (snd r)
  | [] => None
  end.

Definition nt_modes (c : ntcase) : list nat := flat_map (fun r => fst r) (nt_full c).

(* true = the narrowed run violates "narrowed = full scan" in some mode *)
Definition nt_spec_bad (c : ntcase) : bool :=
  match ps_plan (nt_ps c) with
  | None => false
  | Some (names, types, sh, _) =>
      existsb (fun m =>
        match runs_at m (nt_full c) with
        | Some (PRows rf) =>
            match runs_at m (ps_runs (nt_ps c)) with
            | Some (PRows rn) => negb (ps_agree names types sh rn rf)
            | _ => true
            end
        | _ => false
        end) (nt_modes c)
  end.

Definition check_nt (c : ntcase) : nat :=
  if nt_spec_bad c then 2 else ps_twin (nt_ps c).

(* ---------------------------------------------------------------- DELETE *)
Inductive dobs :=
  | DFinal (s : list (bytes * bytes))   (* polled until nil without an error: the final store *)
  | DRej (pos : Z)                      (* BuildPlan: *SyntaxError *)
  | DFail.                              (* any other error, or a panic *)

Record ndcase := NDCase {
  nd_q : string;
  nd_store : list (bytes * bytes);
  nd_B : nat;
  nd_narrow : dobs;
  nd_full : dobs
}.

Definition nd_spec_bad (c : ndcase) : bool :=
  match nd_full c with
  | DFinal sf => match nd_narrow c with DFinal sn => negb (store_eqb sn sf) | _ => true end
  | _ => false
  end.

Definition nd_twin (c : ndcase) : nat :=
  match delete_text prim_fops re_oom pf_fmt_v (nd_q c) (nd_B c) (sinit (nd_store c) None) with
  | (TOom, _) => 99
  | (TOk _, s) =>
      match nd_narrow c with
      | DFinal sn => if store_eqb (sdata s) sn then 0 else 1
      | DFail => 99                      (* a WHERE clause failing on a stored pair: not modelled *)
      | DRej _ => 1
      end
  | (TReject p, _) => match nd_narrow c with DRej p' => if Z.eqb p p' then 0 else 1 | _ => 1 end
  | (TRunErr _, _) => match nd_narrow c with DFail => 0 | _ => 1 end
  | (_, _) => 1
  end.

Definition check_nd (c : ndcase) : nat :=
  if nd_spec_bad c then 2 else nd_twin c.
