(* Corr/C02TextD.v -- C02's TEXT stream, DELETE cases: besides Corr/C02Text.v's comparison of the
   narrowed text twin (Model/PipelineW.v delete_text) with the implementation's run as built, the
   FORCED-FULL-SCAN twin (Model/PipelineFullW.v delete_text_full: DeletePlan [LimitPlan] over
   FullScanPlan with the folded filter and the LIMIT of the accepted text) is compared with the
   implementation's own forced-full-scan run (harness/c02text.go builds DeletePlan [LimitPlan] over
   FullScanPlan by hand on a second copy of the store): the final stores must be equal.

   code 0   agree
   code 1   a twin (narrowed or forced-full) differs from the corresponding run of the implementation
   code 2   the implementation's narrowed run leaves another store than its own full-scan run
            (C02Text.nd_spec_bad)
   code 99  outside the model *)
From Coq Require Import List String ZArith Bool Arith.
Import ListNotations.
From KV Require Import Base.Bytes Base.Num Base.Flt Model.Ast Model.Value Model.Fold Model.Storage Model.Write
                       Model.Pipeline Model.PipelineW Model.PipelineFullW
                       Corr.EvalCommon Corr.C03Stmt Corr.C03Text Corr.C02Text.
Local Open Scope nat_scope.
Local Open Scope list_scope.

Definition nd_twin_full (c : ndcase) : nat :=
  match delete_text_full prim_fops re_oom pf_fmt_v (nd_q c) (nd_B c) (sinit (nd_store c) None) with
  | (TOom, _) => 99
  | (TOk _, s) =>
      match nd_full c with
      | DFinal sf => if store_eqb (sdata s) sf then 0 else 1
      | DFail => 0                       (* the filter fails on a pair the full scan reads: no reference (C02Text) *)
      | DRej _ => 1
      end
  | (TReject p, _) => match nd_full c with DRej p' => if Z.eqb p p' then 0 else 1 | _ => 1 end
  | (TRunErr _, _) => match nd_full c with DFail => 0 | _ => 1 end
  | (_, _) => 1
  end.

Definition check_nd2 (c : ndcase) : nat :=
  match check_nd c with
  | 0 => nd_twin_full c
  | n => n
  end.
