(* Corr/C03.v -- correspondence and spec verdict for C03, evaluated by vm_compute on the cases
   the harness observed on the implementation.

   CaseE: one expression on one chunk of pairs.  Observed: Expression.Execute on every pair
          (row mode) and Expression.ExecuteBatch on the whole chunk (batch mode), cache off.
   CaseS: one SELECT (WHERE clause + projected fields) on one store at one batch size.
          Observed: the rows of the row-at-a-time drain and of the batch drain (and the sizes of
          the batches, for information).  [smodel = true]: the plan was FullScanPlan + ProjectionPlan built from
          the checked statement, which Model/ScanProj.v models; [false]: a whole statement
          through BuildPlan (ORDER BY / GROUP BY / LIMIT / narrowed scans): verdict only.

   CaseL: FinalLimitPlan + ProjectionPlan + FullScanPlan built from the checked statement
          (SELECT ... WHERE ... LIMIT start, count), drained in both modes: Model/LimitLazy.v.

   code 0 agree; 1 = a twin (Model/EvalVec.v eval_batch, Model/Eval.v eval, Model/ScanProj.v)
   and the implementation differ; 2 = the implementation's own outputs violate the property:
   batch mode completed without error, and row mode failed or returned different content;
   99 = outside the model (counted, excluded). *)
From Coq Require Import List String ZArith Bool Arith.
Import ListNotations.
From KV Require Import Base.Bytes Base.Num Base.Flt Model.Ast Model.Value Model.Eval Model.EvalVec
                       Model.ScanProj Model.LimitLazy Corr.EvalCommon.
Local Open Scope nat_scope.
Local Open Scope list_scope.

Inductive bobs := BVals (l : list canon) | BErr (cls : nat) (pos : Z) | BPanic.
Inductive sobs := SRows (rows : list (list canon)) | SErr (cls : nat) (pos : Z) | SPanic.

Inductive case :=
  | CaseE (e : expr) (rows : list (bytes * bytes * obs)) (b : bobs)
  | CaseS (smodel : bool) (wh : expr) (fields : option (list expr)) (B : nat)
          (store : list (bytes * bytes)) (rowres batchres : sobs) (blens : list nat)
  | CaseL (wh : expr) (fields : option (list expr)) (B start count : nat)
          (store : list (bytes * bytes)) (rowres batchres : sobs).

Fixpoint canons_eqb (a b : list canon) : bool :=
  match a, b with
  | [], [] => true
  | x :: a', y :: b' => canon_eqb x y && canons_eqb a' b'
  | _, _ => false
  end.

Fixpoint rows_eqb (a b : list (list canon)) : bool :=
  match a, b with
  | [], [] => true
  | x :: a', y :: b' => canons_eqb x y && rows_eqb a' b'
  | _, _ => false
  end.

Definition err_code (e : err) : nat * Z :=
  match e with
  | EExec p => (1, Z.of_nat p)
  | ESyntax p => (2, Z.of_nat p)
  | EOther => (3, 0%Z)
  end.

(* errors of class 3 carry no position *)
Definition err_matches (e : err) (cls : nat) (pos : Z) : bool :=
  let '(c, p) := err_code e in
  Nat.eqb c cls && (Nat.eqb c 3 || Z.eqb p pos).

Definition eval_batch_prim := eval_batch prim_fops re_oom true.

(* ---------------------------------------------------------------- CaseE *)

Definition cmp_bobs (r : res (list (value prim_fops))) (o : bobs) : nat :=
  match r with
  | OutOfModel => 99
  | Panic => match o with BPanic => 0 | _ => 1 end
  | Err e => match o with BErr c p => if err_matches e c p then 0 else 1 | _ => 1 end
  | Ok vs => match o with
             | BVals cs => if canons_eqb (map (canon_of prim_fops) vs) cs then 0 else 1
             | _ => 1
             end
  end.

(* the property on the implementation's own outputs: batch succeeded => every row succeeded
   with the same content *)
Fixpoint verdict_rows (rows : list (bytes * bytes * obs)) (cs : list canon) : bool :=
  match rows, cs with
  | [], [] => true
  | (_, _, OVal c') :: rows', c :: cs' => canon_eqb c' c && verdict_rows rows' cs'
  | _, _ => false
  end.

Definition as_corr (n : nat) : nat := match n with 0 => 0 | 99 => 99 | _ => 1 end.

Definition check_e (e : expr) (rows : list (bytes * bytes * obs)) (b : bobs) : nat :=
  let verdict := match b with
                 | BVals cs => if verdict_rows rows cs then 0 else 2
                 | _ => 0
                 end in
  if Nat.eqb verdict 2 then 2
  else
    let chunk := map (fun r => match r with (k, v, _) => (k, v) end) rows in
    worst [as_corr (check_eval e rows); cmp_bobs (eval_batch_prim e chunk) b].

(* ---------------------------------------------------------------- CaseS *)

Definition cmp_sobs (r : res (list (list (value prim_fops)))) (o : sobs) : nat :=
  match r with
  | OutOfModel => 99
  | Panic => match o with SPanic => 0 | _ => 1 end
  | Err e => match o with SErr c p => if err_matches e c p then 0 else 1 | _ => 1 end
  | Ok rows => match o with
               | SRows cs => if rows_eqb (map (map (canon_of prim_fops)) rows) cs then 0 else 1
               | _ => 1
               end
  end.

Definition nats_eqb (a b : list nat) : bool := list_eqb Nat.eqb a b.

Definition check_s (smodel : bool) (wh : expr) (fields : option (list expr)) (B : nat)
           (store : list (bytes * bytes)) (rowres batchres : sobs) (blens : list nat) : nat :=
  let verdict := match batchres with
                 | SRows rb => match rowres with
                               | SRows rr => if rows_eqb rr rb then 0 else 2
                               | _ => 2
                               end
                 | _ => 0
                 end in
  if Nat.eqb verdict 2 then 2
  else if negb smodel then 0
  else
    let slots := map (@Some kvpair) store in
    let mrow := select_row prim_fops re_oom wh fields slots in
    let mbat := select_batch prim_fops re_oom B wh fields slots in
    (* the sizes of the batches are recorded ([blens]) but not compared: how a result is cut
       into batches is not visible to the property *)
    let cb := match mbat with
              | Ok outs => cmp_sobs (Ok (List.concat outs)) batchres
              | Err e => cmp_sobs (Err e) batchres
              | Panic => cmp_sobs Panic batchres
              | OutOfModel => 99
              end in
    worst [cmp_sobs mrow rowres; cb].

Definition stmt_verdict (rowres batchres : sobs) : nat :=
  match batchres with
  | SRows rb => match rowres with
                | SRows rr => if rows_eqb rr rb then 0 else 2
                | _ => 2
                end
  | _ => 0
  end.

Definition check_l (wh : expr) (fields : option (list expr)) (B start count : nat)
           (store : list (bytes * bytes)) (rowres batchres : sobs) : nat :=
  if Nat.eqb (stmt_verdict rowres batchres) 2 then 2
  else
    let slots := map (@Some kvpair) store in
    let mrow := select_limit_row prim_fops re_oom start count wh fields slots in
    let mbat := select_limit_batch prim_fops re_oom B start count wh fields slots in
    let cb := match mbat with
              | Ok outs => cmp_sobs (Ok (List.concat outs)) batchres
              | Err e => cmp_sobs (Err e) batchres
              | Panic => cmp_sobs Panic batchres
              | OutOfModel => 99
              end in
    worst [cmp_sobs mrow rowres; cb].

Definition check_case (c : case) : nat :=
  match c with
  | CaseE e rows b => check_e e rows b
  | CaseS m wh fields B store rr rb bl => check_s m wh fields B store rr rb bl
  | CaseL wh fields B start count store rr rb => check_l wh fields B start count store rr rb
  end.

Fixpoint mism_from (i : nat) (cs : list case) : list (nat * nat) :=
  match cs with
  | [] => []
  | c :: cs' => match check_case c with
                | 0 => mism_from (S i) cs'
                | k => (i, k) :: mism_from (S i) cs'
                end
  end.
Definition mismatches (cs : list case) : list (nat * nat) := mism_from 0 cs.

(* ---------------------------------------------------------------- statement level (appended)
   CaseQ: one SELECT statement with ORDER BY and / or GROUP BY through Optimizer.BuildPlan, judged
   and compared with the composed twin Model/SelectPlans.v by Corr/C03Stmt.v (codes there).
   The case files define their list with the type [xcase]; the cases above are embedded. *)
From KV Require Import Corr.C03Stmt.
(* CaseT: one SELECT statement FROM THE QUERY TEXT through NewOptimizer(q).BuildPlan(store), compared
   with Model/PipelineS.v evaluated on the same text by Corr/C03Text.v (codes there). *)
From KV Require Import Corr.C03Text.

Inductive xcase :=
  | XBase (c : case)
  | CaseQ (q : qcase)
  | CaseT (t : pscase).
(* the embedded constructors, under which the case files see CaseE / CaseS / CaseL *)
Definition XCaseE (e : expr) (rows : list (bytes * bytes * obs)) (b : bobs) : xcase := XBase (CaseE e rows b).
Definition XCaseS (smodel : bool) (wh : expr) (fields : option (list expr)) (B : nat)
           (store : list (bytes * bytes)) (rowres batchres : sobs) (blens : list nat) : xcase :=
  XBase (CaseS smodel wh fields B store rowres batchres blens).
Definition XCaseL (wh : expr) (fields : option (list expr)) (B start count : nat)
           (store : list (bytes * bytes)) (rowres batchres : sobs) : xcase :=
  XBase (CaseL wh fields B start count store rowres batchres).

Definition xcheck_case (c : xcase) : nat :=
  match c with
  | XBase b => check_case b
  | CaseQ q => check_q q
  | CaseT t => check_ps t
  end.

Fixpoint xmism_from (i : nat) (cs : list xcase) : list (nat * nat) :=
  match cs with
  | [] => []
  | c :: cs' => match xcheck_case c with
                | 0 => xmism_from (S i) cs'
                | k => (i, k) :: xmism_from (S i) cs'
                end
  end.
Definition xmismatches (cs : list xcase) : list (nat * nat) := xmism_from 0 cs.
