(* Corr/C03Stmt.v -- correspondence for the statement-level compositions of Model/SelectPlans.v
   (C03 with ORDER BY / GROUP BY), evaluated by vm_compute on the cases the harness observed.

   A case is one SELECT statement through Optimizer.BuildPlan on one store at one batch size,
   with the pieces of the plan BuildPlan returned (WHERE clause of the full scan, the projection's
   or the AggregatePlan's expressions AFTER the optimizer folded them, field names and types, the
   ORDER BY and LIMIT clauses as parsed) and the rows of the row-at-a-time drain and of the batch
   drain.  Only statements whose scan is a FullScanPlan are compared with the twin (what a
   narrowed scan reads is C02 / C18's subject).

   code 0 agree;
   code 1 the composed twin and the implementation differ: the shape of the plan (buildFinalPlan),
          the rows of a mode, or an error class / position.  With ORDER BY the sequences are
          compared modulo ties (position-wise neither row is Less than the other; without a LIMIT
          on top also as multisets): container/heap and Model/Order.v's list queue may serve tying
          rows in different orders, which the property does not fix;
   code 2 the implementation's own outputs violate the property: batch mode completed and row
          mode failed, returned a different number of rows, rows that differ (no ORDER BY) or a
          different sort-key sequence / multiset (ORDER BY);
   code 99 outside the composed twin (counted, excluded): a number-typed sort column holding
          text that is not an integer (strconv.ParseFloat is modelled on a fragment only), or an
          expression / value outside the evaluator twins. *)
From Coq Require Import List String ZArith Bool Arith Floats.
Import ListNotations.
From KV Require Import Base.Bytes Base.Num Base.Flt Model.Ast Model.Value Model.Eval Model.EvalVec
                       Model.ScanProj Model.LimitLazy Model.SelectPlans Corr.EvalCommon.
From KV Require Model.Order Model.Aggregate Model.AggregateFloat Spec.Group.
Local Open Scope nat_scope.
Local Open Scope list_scope.

(* the Go library operations of the aggregate / order code on binary64 (Model/AggregateFloat.v) *)
Definition ag64 : aggops prim_fops :=
  AggOps prim_fops AggregateFloat.f_is0 AggregateFloat.f_to_Z AggregateFloat.bits_of AggregateFloat.f_bits
         AggregateFloat.f_json AggregateFloat.f_parse AggregateFloat.f_json_s.

Inductive qobs := QRows (rows : list Order.row) | QErr (cls : nat) (pos : Z) | QPanic.

Record qcase := QCase {
  qc_B : nat;
  qc_where : expr;
  qc_fields : option (list expr);                         (* projection; None = select * *)
  qc_group : list expr;                                   (* AggregatePlan: GROUP BY expressions *)
  qc_keys : list expr;                                    (* ... non-aggregate fields *)
  qc_args : list expr;                                    (* ... first arguments of the aggregate calls *)
  qc_aggr : option (bool * list (Group.field float));     (* AggrAll, Fields *)
  qc_names : list string;
  qc_types : list Order.type;
  qc_order : option (list Order.order_field);
  qc_limit : option (nat * nat);
  qc_shape : shape;                                       (* node kinds of the plan BuildPlan returned *)
  qc_store : list (bytes * bytes);
  qc_row : qobs;
  qc_batch : qobs
}.

(* strconv for compareNumber on text operands: ParseInt exactly (Model/Aggregate.v parse_int);
   ParseFloat is consulted only where ParseInt fails, and such columns are excluded below *)
Definition q_pint : bytes -> option Z := Aggregate.parse_int.
Definition q_pfloat : bytes -> option Z :=
  fun s => option_map AggregateFloat.bits_of (AggregateFloat.f_parse s).

Definition q_of (c : qcase) : cstmt prim_fops :=
  CStmt prim_fops (qc_where c) (qc_fields c) (qc_group c) (qc_keys c) (qc_args c)
        (Stmt float (qc_aggr c) (qc_names c) (qc_types c) (qc_order c) (qc_limit c)).

(* ---------------------------------------------------------------- comparing rows *)
Definition qokey (v : Order.value) : Order.value :=
  match v with
  | Order.VStr b => Order.VBytes b
  | Order.VOther _ => Order.VOther ""%string    (* list-valued columns: not compared here (CaseS does) *)
  | _ => v
  end.
Definition qval_eqb (a b : Order.value) : bool :=
  match qokey a, qokey b with
  | Order.VBytes x, Order.VBytes y => String.eqb x y
  | Order.VInt x, Order.VInt y => Z.eqb x y
  | Order.VFloat x, Order.VFloat y => Z.eqb x y
  | Order.VBool x, Order.VBool y => Bool.eqb x y
  | Order.VOther _, Order.VOther _ => true
  | _, _ => false
  end.
Definition qrow_eqb (a b : Order.row) : bool := list_eqb qval_eqb a b.
Definition qrows_eqb (a b : list Order.row) : bool := list_eqb qrow_eqb a b.

Fixpoint qremove_one (r : Order.row) (l : list Order.row) : option (list Order.row) :=
  match l with
  | [] => None
  | x :: l' => if qrow_eqb r x then Some l'
               else match qremove_one r l' with Some l'' => Some (x :: l'') | None => None end
  end.
Fixpoint qis_perm (a b : list Order.row) : bool :=
  match a with
  | [] => match b with [] => true | _ => false end
  | r :: a' => match qremove_one r b with Some b' => qis_perm a' b' | None => false end
  end.

Fixpoint qsame_keys (lt : Order.row -> Order.row -> bool) (a b : list Order.row) : bool :=
  match a, b with
  | [], [] => true
  | x :: a', y :: b' => if lt x y then false else if lt y x then false else qsame_keys lt a' b'
  | _, _ => false
  end.

(* the order node of a shape, and whether a LIMIT sits on top of it *)
Fixpoint shape_orders (sh : shape) : option (list Order.order_field) :=
  match sh with
  | SOrder os _ => Some os
  | SLimit _ _ ch => shape_orders ch
  | _ => None
  end.
Definition shape_limited (sh : shape) : bool := match sh with SLimit _ _ _ => true | _ => false end.
Fixpoint shape_child (sh : shape) : shape :=
  match sh with
  | SOrder _ ch => shape_child ch
  | SLimit _ _ ch => shape_child ch
  | _ => sh
  end.

Fixpoint shape_eqb (a b : shape) : bool :=
  match a, b with
  | SProj, SProj => true
  | SAgg s l, SAgg s' l' =>
      Nat.eqb s s' && match l, l' with Some x, Some y => Nat.eqb x y | None, None => true | _, _ => false end
  | SOrder os ch, SOrder os' ch' =>
      list_eqb (fun o o' => String.eqb (Order.of_name o) (Order.of_name o') &&
                            Bool.eqb (Order.of_desc o) (Order.of_desc o')) os os' && shape_eqb ch ch'
  | SLimit s n ch, SLimit s' n' ch' => Nat.eqb s s' && Nat.eqb n n' && shape_eqb ch ch'
  | _, _ => false
  end.

(* two row sequences of the same statement: equal (no ORDER BY), or equal modulo ties *)
Definition seq_agree (c : qcase) (sh : shape) (a b : list Order.row) : bool :=
  match shape_orders sh with
  | None => qrows_eqb a b
  | Some os =>
      match Order.init_orders os (qc_names c) (qc_types c) with
      | None => false
      | Some ords =>
          if qsame_keys (Order.less q_pint q_pfloat ords) a b
          then (if shape_limited sh then true else qis_perm a b)
          else false
      end
  end.

(* ---------------------------------------------------------------- verdict on the implementation *)
Definition stmt_verdict (c : qcase) : nat :=
  match qc_batch c with
  | QRows rb =>
      match qc_row c with
      | QRows rr => if seq_agree c (qc_shape c) rr rb then 0 else 2
      | _ => 2
      end
  | _ => 0
  end.

(* ---------------------------------------------------------------- the twin *)
Definition qerr_matches (e : err) (cls : nat) (pos : Z) : bool :=
  match e with
  | EExec p => Nat.eqb cls 1 && Z.eqb (Z.of_nat p) pos
  | ESyntax p => Nat.eqb cls 2 && Z.eqb (Z.of_nat p) pos
  | EOther => true          (* an error while completing the aggregates: class and position not modelled *)
  end.

Definition cmp_qobs (c : qcase) (sh : shape) (r : res (list Order.row)) (o : qobs) : nat :=
  match r with
  | OutOfModel => 99
  | Panic => match o with QPanic => 0 | _ => 1 end
  | Err e => match o with QErr cls p => if qerr_matches e cls p then 0 else 1 | _ => 1 end
  | Ok rows => match o with QRows obs => if seq_agree c sh obs rows then 0 else 1 | _ => 1 end
  end.

(* a number-typed sort column must hold, in every row the order node receives, a number or a
   text strconv.ParseInt accepts (ParseFloat is modelled on a fragment only) *)
Definition is_number (v : Order.value) : bool :=
  match v with
  | Order.VInt _ | Order.VFloat _ => true
  | Order.VBytes s | Order.VStr s => match q_pint s with Some _ => true | None => false end
  | _ => false
  end.
Definition sort_columns_ok (ords : list Order.ofield) (rows : list Order.row) : bool :=
  forallb (fun o => match Order.otype o with
                    | Order.TNUMBER => forallb (fun r => is_number (Order.col r (Order.opos o))) rows
                    | _ => true
                    end) ords.

Definition in_model (c : qcase) (sh : shape) (slots : list (option kvpair)) : bool :=
  match shape_orders sh with
  | None => true
  | Some os =>
      match Order.init_orders os (qc_names c) (qc_types c) with
      | None => true
      | Some ords =>
          match select_shape_row prim_fops re_oom ag64 q_pint q_pfloat (q_of c) (shape_child sh) slots with
          | Ok rows => sort_columns_ok ords rows
          | _ => true
          end
      end
  end.

Definition check_q (c : qcase) : nat :=
  if Nat.eqb (stmt_verdict c) 2 then 2
  else
    let sh := stmt_shape float (q_stmt prim_fops (q_of c)) in
    if negb (shape_eqb sh (qc_shape c)) then 1
    else
      let slots := map (@Some kvpair) (qc_store c) in
      if negb (in_model c sh slots) then 99
      else
        worst [cmp_qobs c sh (select_stmt_row prim_fops re_oom ag64 q_pint q_pfloat (q_of c) slots) (qc_row c);
               cmp_qobs c sh (select_stmt_batch prim_fops re_oom ag64 q_pint q_pfloat (qc_B c) (q_of c) slots)
                        (qc_batch c)].
