(* Corr/C03Text.v -- correspondence for SELECT FROM THE QUERY TEXT (Model/PipelineS.v): the glue of
   optimizer.go from the statement text to the plan, checked on every run.

   A case is one query TEXT on one store: what kvql.NewOptimizer(q).BuildPlan(store) returned
   (the error, or FieldNameList / FieldTypeList, the node kinds of the final plan and the scan node
   under it -- read off the plan, used to LOCALISE a difference and for the verdict on the
   implementation's own rows), and for each iteration mode (0 = Next until nil, B = Batch until
   empty at PlanBatchSize B) what the drain returned.  Modes with the same outcome share one entry.
   The Coq side evaluates [plan_stmt_text] / [run_mode] of Model/PipelineS.v on the same TEXT.

   code 0  agree;
   code 1  the twin and the implementation differ: accepted vs rejected, the error class or
           position of BuildPlan, FieldNames / FieldTypes, the shape buildFinalPlan built, the scan
           node, the rows of a mode (ORDER BY: modulo ties, as Corr/C03Stmt.v), the class or
           position of a run-time error;
   code 2  the implementation's own outputs violate C03: some batch drain completed and the row
           drain failed or returned other rows (ORDER BY: another sort-key sequence / multiset);
   code 99 outside the model (Model/PipelineS.v header), or a number-typed sort column holding
           text strconv.ParseInt rejects (ParseFloat is modelled on a fragment only). *)
From Coq Require Import List String ZArith Bool Arith Floats.
Import ListNotations.
From KV Require Import Base.Bytes Base.Num Base.Flt Model.Ast Model.Value Model.Eval Model.EvalVec
                       Model.Fold Model.Storage Model.ScanIO Model.ScanProj Model.SelectPlans
                       Model.Pipeline Model.PipelineS Corr.EvalCommon Corr.C03Stmt.
From KV Require Model.Order Model.Aggregate Model.AggregateFloat Spec.Group.
Local Open Scope nat_scope.
Local Open Scope list_scope.

Inductive pobs :=
  | PRows (rows : list Order.row)
  | PReject (pos : Z)                   (* BuildPlan: *SyntaxError *)
  | PBuildErr (cls : nat) (pos : Z)     (* BuildPlan: 1 ExecuteError, 3 any other error *)
  | PRunErr (cls : nat) (pos : Z)       (* the drain: 1 ExecuteError, 2 SyntaxError, 3 other *)
  | PPanic.

Record pscase := PSCase {
  ps_q : string;
  ps_store : list (bytes * bytes);
  ps_plan : option (list string * list Order.type * shape * scan);
  ps_runs : list (list nat * pobs)
}.

Definition ps_mode (m : nat) : tmode := match m with 0 => MRow | _ => MBatch m end.

Definition ps_type_eqb (a b : Order.type) : bool :=
  match a, b with
  | Order.TUNKNOWN, Order.TUNKNOWN | Order.TBOOL, Order.TBOOL | Order.TSTR, Order.TSTR
  | Order.TNUMBER, Order.TNUMBER | Order.TIDENT, Order.TIDENT | Order.TLIST, Order.TLIST
  | Order.TJSON, Order.TJSON => true
  | _, _ => false
  end.

Definition ps_scan_eqb (a b : scan) : bool :=
  match a, b with
  | SEmpty, SEmpty | SFull, SFull => true
  | SPrefix p, SPrefix q => String.eqb p q
  | SRange lo hi, SRange lo' hi' => optbytes_eqb lo lo' && optbytes_eqb hi hi'
  | SMget ks, SMget ks' => list_eqb String.eqb ks ks'
  | _, _ => false
  end.

(* two row sequences of one statement: equal, or (ORDER BY) equal modulo ties *)
Definition ps_agree (names : list string) (types : list Order.type) (sh : shape) (a b : list Order.row) : bool :=
  match shape_orders sh with
  | None => qrows_eqb a b
  | Some os =>
      match Order.init_orders os names types with
      | None => false
      | Some ords =>
          if qsame_keys (Order.less q_pint q_pfloat ords) a b
          then (if shape_limited sh then true else qis_perm a b)
          else false
      end
  end.

(* ---------------------------------------------------------------- verdict on the implementation *)
Definition ps_row_obs (c : pscase) : option pobs :=
  match filter (fun r => existsb (Nat.eqb 0) (fst r)) (ps_runs c) with
  | r :: _ => Some (snd r)
  | [] => None
  end.

Definition ps_verdict (c : pscase) : nat :=
  match ps_plan c, ps_row_obs c with
  | Some (names, types, sh, _), Some ro =>
      if forallb (fun r =>
           match snd r with
           | PRows rb =>
               if forallb (Nat.eqb 0) (fst r) then true
               else match ro with
                    | PRows rr => ps_agree names types sh rr rb
                    | _ => false
                    end
           | _ => true
           end) (ps_runs c)
      then 0 else 2
  | _, _ => 0
  end.

(* ---------------------------------------------------------------- the twin *)
Definition ps_all (f : pobs -> bool) (c : pscase) : bool := forallb (fun r => f (snd r)) (ps_runs c).

Definition ps_err_matches (e : Value.err) (cls : nat) (pos : Z) : bool :=
  match e with
  | Value.EExec p => Nat.eqb cls 1 && Z.eqb (Z.of_nat p) pos
  | Value.ESyntax p => Nat.eqb cls 2 && Z.eqb (Z.of_nat p) pos
  | Value.EOther => true          (* an error while completing the aggregates: class and position not modelled *)
  end.

Definition ps_cmp (names : list string) (types : list Order.type) (sh : shape)
           (r : Value.res (list Order.row)) (o : pobs) : nat :=
  match r with
  | Value.OutOfModel => 99
  | Value.Panic => match o with PPanic => 0 | _ => 1 end
  | Value.Err e => match o with PRunErr cls p => if ps_err_matches e cls p then 0 else 1 | _ => 1 end
  | Value.Ok rows => match o with PRows obs => if ps_agree names types sh obs rows then 0 else 1 | _ => 1 end
  end.

(* a number-typed sort column must hold, in every row the order node receives, a number or a
   text strconv.ParseInt accepts *)
Definition ps_in_model (pl : splanned prim_fops) (slots : list (option kvpair)) : bool :=
  let st := q_stmt prim_fops (sp_q prim_fops pl) in
  let sh := sp_shape prim_fops pl in
  match shape_orders sh with
  | None => true
  | Some os =>
      match Order.init_orders os (s_names float st) (s_types float st) with
      | None => true
      | Some ords =>
          match select_shape_row prim_fops re_oom ag64 q_pint q_pfloat (sp_q prim_fops pl) (shape_child sh) slots with
          | Value.Ok rows => sort_columns_ok ords rows
          | _ => true
          end
      end
  end.

Definition ps_twin (c : pscase) : nat :=
  match plan_stmt_text prim_fops re_oom pf_fmt_v (ps_q c) with
  | STOom => 99
  | STPanic | STFuel | STRunErr _ | STRunPanic => 1
  | STReject p => if ps_all (fun o => match o with PReject p' => Z.eqb p p' | _ => false end) c then 0 else 1
  | STBuildErr e =>
      if ps_all (fun o => match o with PBuildErr cls p' => ps_err_matches e cls p' | _ => false end) c then 0 else 1
  | STOk pl =>
      match ps_plan c with
      | None => 1
      | Some (names, types, sh, sc) =>
          let st := q_stmt prim_fops (sp_q prim_fops pl) in
          let tsh := sp_shape prim_fops pl in
          if negb (list_eqb String.eqb (s_names float st) names && list_eqb ps_type_eqb (s_types float st) types
                   && shape_eqb tsh sh && ps_scan_eqb (sp_scan prim_fops pl) sc) then 1
          else
            let slots := scan_slots (sp_scan prim_fops pl) (ps_store c) in
            if negb (ps_in_model pl slots) then 99
            else
              worst (flat_map (fun r =>
                       map (fun m => ps_cmp names types tsh
                                       (run_mode prim_fops re_oom ag64 q_pint q_pfloat (ps_mode m)
                                                 (sp_q prim_fops pl) tsh slots) (snd r))
                           (fst r)) (ps_runs c))
      end
  end.

Definition check_ps (c : pscase) : nat :=
  if Nat.eqb (ps_verdict c) 2 then 2 else ps_twin c.

(* the scan nodes under names the case files can use without importing Model/ScanIO.v *)
Definition PsEmpty : scan := SEmpty.
Definition PsFull : scan := SFull.
Definition PsPrefix (p : bytes) : scan := SPrefix p.
Definition PsRange (lo hi : option bytes) : scan := SRange lo hi.
Definition PsMget (ks : list bytes) : scan := SMget ks.
