(* Corr/C04.v -- correspondence and spec verdict for C04 (constant folding / rewriting).
   A case is: the checked expression tree [cin] (before ExpressionOptimizer.Optimize), the tree
   the implementation produced [cout], the stored pairs, and (for a part of the cases) the
   outcome of evaluating [cin] with Expression.Execute on every pair.

   code 1  the twin and the implementation disagree: the folded trees differ (node kinds,
           operators, texts exactly; float literals up to their VALUE, both texts read by
           Base/Flt.pf_parse; a difference in node positions only is reported as 99: counted),
           or the twin's typing predicate [wt] rejects an expression the checker accepted, or
           the evaluator twin and Execute disagree on the original expression;
   code 2  the implementation's own folded tree violates the property: on a pair on which the
           original evaluates to a value, the folded tree fails or gives a different value or
           a value of another kind (both evaluated by the evaluator twin);
   code 99 outside the model (a float text outside Base/Flt's grammar, regexp, ...): counted. *)
From Coq Require Import List String Ascii ZArith Bool Floats.
Import ListNotations.
From KV Require Import Base.Bytes Base.Num Base.Flt Model.Ast Model.Value Model.Eval Model.Fold
  Corr.EvalCommon.
Local Open Scope Z_scope.

Definition fold_prim : expr -> expr := fold prim_fops re_oom pf_fmt_v.

(* ---- comparing trees: 0 equal, 1 different, 99 equal except for a float text outside the model *)
Definition worst2 (a b : nat) : nat :=
  if Nat.eqb a 1 || Nat.eqb b 1 then 1%nat
  else if Nat.eqb a 0 then b else a.

Definition float_text_cmp (d d' : string) : nat :=
  if String.eqb d d' then 0%nat
  else
    match pf_parse d, pf_parse d' with
    | PF_ok f, PF_ok f' => if Z.eqb (pf_bits f) (pf_bits f') then 0%nat else 1%nat
    | PF_oom, _ | _, PF_oom => 99%nat
    | _, _ => 1%nat
    end.

Definition kw_eqb (a b : kvkw) : bool :=
  match a, b with KeyKW, KeyKW | ValueKW, ValueKW => true | _, _ => false end.

Fixpoint expr_cmp (sp : bool) (a b : expr) {struct a} : nat :=
  let peq (p p' : nat) := if sp then Nat.eqb p p' else true in
  match a, b with
  | EBin p o l r, EBin p' o' l' r' =>
      if peq p p' && op_eqb o o' then worst2 (expr_cmp sp l l') (expr_cmp sp r r') else 1%nat
  | EField p f, EField p' f' => if peq p p' && kw_eqb f f' then 0%nat else 1%nat
  | EStr p s, EStr p' s' => if peq p p' && String.eqb s s' then 0%nat else 1%nat
  | ENot p r, ENot p' r' => if peq p p' then expr_cmp sp r r' else 1%nat
  | ECall p n args, ECall p' n' args' =>
      if peq p p' then
        worst2 (expr_cmp sp n n')
          ((fix go (xs ys : list expr) : nat :=
              match xs, ys with
              | [], [] => 0%nat
              | x :: xs', y :: ys' => worst2 (expr_cmp sp x y) (go xs' ys')
              | _, _ => 1%nat
              end) args args')
      else 1%nat
  | EName p s, EName p' s' => if peq p p' && String.eqb s s' then 0%nat else 1%nat
  | ERef p nm d, ERef p' nm' d' =>
      if peq p p' && String.eqb nm nm' then expr_cmp sp d d' else 1%nat
  | ENum p d, ENum p' d' => if peq p p' && String.eqb d d' then 0%nat else 1%nat
  | EFloat p d, EFloat p' d' => if peq p p' then float_text_cmp d d' else 1%nat
  | EBool p x, EBool p' x' => if peq p p' && Bool.eqb x x' then 0%nat else 1%nat
  | EList p l, EList p' l' =>
      if peq p p' then
        (fix go (xs ys : list expr) : nat :=
           match xs, ys with
           | [], [] => 0%nat
           | x :: xs', y :: ys' => worst2 (expr_cmp sp x y) (go xs' ys')
           | _, _ => 1%nat
           end) l l'
      else 1%nat
  | EAccess p l f, EAccess p' l' f' =>
      if peq p p' then worst2 (expr_cmp sp l l') (expr_cmp sp f f') else 1%nat
  | _, _ => 1%nat
  end.

(* ---- the property's specification on the implementation's own output *)
Definition kind_code (c : canon) : nat :=
  match c with
  | CText _ => 1 | CInt _ => 2 | CFlt _ => 3 | CBool _ => 4 | CList _ => 5 | CNil => 6 | COther => 7
  end%nat.

(* float values are compared by IEEE equality: -0 = +0 (Base/Flt.pf_bits: -1 and 0) *)
Definition zero_norm (c : canon) : canon :=
  match c with CFlt (-1) => CFlt 0 | _ => c end.

(* 0 value and kind preserved (or the original has no value on this pair: no claim), 2 violated *)
Definition spec_row (cin cout : expr) (k v : bytes) : nat :=
  match eval_prim k v cin with
  | Ok x =>
      match eval_prim k v cout with
      | Ok x' =>
          let c := zero_norm (canon_of prim_fops x) in
          let c' := zero_norm (canon_of prim_fops x') in
          if Nat.eqb (kind_code c) (kind_code c') && canon_eqb c c' then 0%nat else 2%nat
      | OutOfModel => 99%nat
      | _ => 2%nat
      end
  | OutOfModel => 99%nat
  | _ => 0%nat
  end.

(* does the optimizer meet a constant sub-tree the twin cannot evaluate (json, float text
   outside Base/Flt's grammar, ...)?  Then a difference between the trees is out-of-model. *)
Fixpoint has_oom (e : expr) : bool :=
  (match eval_prim "" "" e with OutOfModel => true | _ => false end) ||
  match e with
  | EBin _ _ l r => has_oom l || has_oom r
  | ECall _ _ args => existsb has_oom args
  | _ => false
  end.

Record case := Case {
  cin : expr;                              (* checked expression, before Optimize *)
  cout : expr;                             (* ExpressionOptimizer{Root: cin}.Optimize() *)
  cpairs : list (bytes * bytes);           (* the stored pairs *)
  cobs : list obs                          (* outcome of cin.Execute on each pair ([] = not recorded) *)
}.

Definition spec_code (c : case) : nat :=
  worst (map (fun r => match r with (k, v) => spec_row (cin c) (cout c) k v end) (cpairs c)).

Fixpoint zip3 (ps : list (bytes * bytes)) (os : list obs) : list (bytes * bytes * obs) :=
  match ps, os with
  | (k, v) :: ps', o :: os' => (k, v, o) :: zip3 ps' os'
  | _, _ => []
  end.

Definition corr_code (c : case) : nat :=
  (* positions of the nodes are not an observable of C04 (folding moves error positions anyway):
     trees equal up to positions are reported as 99 (counted, no alarm), other differences as 1 *)
  let tw := fold_prim (cin c) in
  let t0 := match expr_cmp false tw (cout c) with
            | 1%nat => 1%nat
            | tl => match expr_cmp true tw (cout c) with 1%nat => 99%nat | ts => worst2 tl ts end
            end in
  let t := if Nat.eqb t0 1 &&
              (has_oom (cin c) || has_oom (optimize prim_fops re_oom pf_fmt_v (cin c)) || has_oom (cout c))
           then 99%nat else t0 in
  let w := if wt (cin c) then 0%nat else 1%nat in
  let ev := match check_eval (cin c) (zip3 (cpairs c) (cobs c)) with
            | 0%nat => 0%nat | 99%nat => 99%nat | _ => 1%nat end in
  worst2 (worst2 t w) ev.

Definition check_case (c : case) : nat :=
  let s := spec_code c in
  if Nat.eqb s 2 then 2%nat else worst2 (corr_code c) s.

Fixpoint mism_from (i : nat) (cs : list case) : list (nat * nat) :=
  match cs with
  | [] => []
  | c :: cs' => match check_case c with
                | 0%nat => mism_from (S i) cs'
                | k => (i, k) :: mism_from (S i) cs'
                end
  end.
Definition mismatches (cs : list case) := mism_from 0 cs.

(* ---- stream T (agent N4): statement TEXTS with and without the rewrite, Corr/C04Text.v.  The
   case files define their list with the type [xcase]; the cases above are embedded. *)
From KV Require Corr.C03Text Corr.C04Text.
Inductive xcase :=
  | XBase (c : case)
  | CaseX4 (t : Corr.C04Text.t4case).
Definition XCase (i o : expr) (ps : list (bytes * bytes)) (obs : list obs) : xcase := XBase (Case i o ps obs).

Definition xcheck_case (c : xcase) : nat :=
  match c with
  | XBase b => check_case b
  | CaseX4 t => Corr.C04Text.check_t4 t
  end.

Fixpoint xmism_from (i : nat) (cs : list xcase) : list (nat * nat) :=
  match cs with
  | [] => []
  | c :: cs' => match xcheck_case c with
                | 0%nat => xmism_from (S i) cs'
                | k => (i, k) :: xmism_from (S i) cs'
                end
  end.
Definition xmismatches (cs : list xcase) : list (nat * nat) := xmism_from 0 cs.
