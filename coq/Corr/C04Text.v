(* Corr/C04Text.v -- C04 at the level of the query TEXT (stream T of harness/c04text.go).

   A case is one SELECT text q with foldable constant sub-expressions (WHERE, select fields,
   fields named by ORDER BY / GROUP BY items and by other fields, aggregate arguments) on one
   store, together with q' = the same text in which every such constant sub-expression is
   written in a row-dependent way the folder cannot fold but which has the same value and kind
   (1 + 2 as (1 + (strlen(key) - strlen(key))) + 2, 'a' + 'b' as (substr(key, 0, 0) + 'a') + 'b'):
   kvql has no switch that disables optimizeSelectExpressions, q' is how the Go side runs
   "without the rewrite".  Recorded: what NewOptimizer(q).BuildPlan(store) + drain returned for q
   (a Corr/C03Text.v case: plan, and rows per iteration mode) and what it returned for q'.

   The Coq side evaluates, on the text q,
     PipelineS.select_stmt_text_st              the pipeline with the folder (FoldStmt.exec_tree)
     PipelineNoFold.select_stmt_text_st_nofold  the same pipeline with the identity folder
   code 2  the implementation violates C04 on this input: q' returned rows (every expression
           evaluated on every pair it met) and q failed, or returned other rows / values / kinds /
           another order (ORDER BY: modulo ties, as Corr/C03Text.v);
   code 1  the twins and the implementation differ: Corr/C03Text.check_ps on q (folded pipeline
           twin vs implementation), the no-fold twin's rows on q vs the implementation's rows on
           q', or the two twins return different rows on q although the no-fold twin completed
           (the subject of Properties/C04.v's statement-level theorems);
   code 99 outside the model. *)
From Coq Require Import List String ZArith Bool Arith Floats.
Import ListNotations.
From KV Require Import Base.Bytes Base.Num Base.Flt Model.Ast Model.Value Model.Eval Model.EvalVec
                       Model.Fold Model.Storage Model.ScanIO Model.ScanProj Model.SelectPlans
                       Model.Pipeline Model.PipelineS Model.PipelineNoFold
                       Corr.EvalCommon Corr.C03Stmt Corr.C03Text.
From KV Require Model.Order.
Local Open Scope nat_scope.
Local Open Scope list_scope.

Record t4case := T4Case {
  t4_ps : pscase;                            (* q, store, plan and runs of the implementation *)
  t4_q' : string;                            (* the fold-defeating spelling (replay only) *)
  t4_nofold : list (list nat * pobs)         (* runs of the implementation on q' *)
}.

Definition obs_of (runs : list (list nat * pobs)) (m : nat) : option pobs :=
  match find (fun r => existsb (Nat.eqb m) (fst r)) runs with
  | Some r => Some (snd r)
  | None => None
  end.

Definition t4_agree (c : t4case) (a b : list Order.row) : bool :=
  match ps_plan (t4_ps c) with
  | Some (names, types, sh, _) => ps_agree names types sh a b
  | None => false
  end.

(* the implementation against itself *)
Definition t4_verdict_mode (c : t4case) (m : nat) : nat :=
  match obs_of (t4_nofold c) m with
  | Some (PRows b) =>
      match obs_of (ps_runs (t4_ps c)) m with
      | Some (PRows a) => if t4_agree c a b then 0 else 2
      | _ => 2
      end
  | _ => 0
  end.

Definition t4_twin_mode (c : t4case) (m : nat) : nat :=
  let q := ps_q (t4_ps c) in
  let d := ps_store (t4_ps c) in
  match select_stmt_text_st_nofold prim_fops re_oom pf_fmt_v ag64 q_pint q_pfloat q d (ps_mode m) with
  | STOk b =>
      let rel :=
        match select_stmt_text_st prim_fops re_oom pf_fmt_v ag64 q_pint q_pfloat q d (ps_mode m) with
        | STOk a => if t4_agree c a b then 0 else 1
        | STOom => 99
        | _ => 1
        end in
      let tie :=
        match obs_of (t4_nofold c) m with
        | Some (PRows b') => if t4_agree c b' b then 0 else 1
        | _ => 0
        end in
      worst [rel; tie]
  | STOom => 99
  | _ => 0
  end.

Definition t4_modes (c : t4case) : list nat := flat_map (@fst (list nat) pobs) (ps_runs (t4_ps c)).

Definition check_t4 (c : t4case) : nat :=
  if existsb (fun m => Nat.eqb (t4_verdict_mode c m) 2) (t4_modes c) then 2
  else worst (check_ps (t4_ps c) :: map (t4_twin_mode c) (t4_modes c)).
