(* Corr/C05.v -- correspondence and spec verdict for C05, evaluated by vm_compute on what the
   harness observed on the implementation.

   Two kinds of cases:
   CRow   a projection statement (select list with aliases, WHERE) drained row-at-a-time over
          the pairs its access path yields, with the field cache on and off.
          Twin: Model/Cache.drain_row (fixed code).  Spec: Model/Cache.spec_rows, i.e. the
          cache-free evaluator Model/Eval.eval on every pair -- no plan, no context.
   CChunk one call of a scan plan's Batch with the cache on: the refills the cursor delivers,
          the rows returned, and ctx.FieldChunkCaches afterwards.
          Twin: Model/Cache.scan_batch (bookkeeping only; the per-row values come from the row
          evaluator).  Spec: every cached column = the alias evaluated on the RETURNED rows.

   Codes: 0 agree; 1 twin <> implementation; 2 the rows returned row-at-a-time are not
   "one column per field, each the value of that field's expression on an accepted pair";
   3 cache on and cache off returned different rows; 4 a cached column left by a scan's Batch
   is not the alias evaluated on the returned rows; 99 outside the model (or outside the
   premise of the theorems: alias uses that do not carry the select list's definition). *)
From Coq Require Import List String ZArith Bool Arith.
Import ListNotations.
From KV Require Import Base.Bytes Base.Num Base.Flt Model.Ast Model.Value Model.Eval Model.Cache
                       Corr.EvalCommon.

Inductive robs :=
  | RRows (rows : list (list canon))
  | RErr (cls : nat) (pos : Z)      (* 1 ExecuteError, 2 SyntaxError, 3 any other error *)
  | RPanic.

Inductive case :=
  | CRow (names : list string) (fields : list expr) (wh : expr) (pairs : list (bytes * bytes))
         (obs_on obs_off : robs)
  | CChunk (names : list string) (fields : list expr) (wh : expr)
           (advance : bool) (B : nat) (refd : list string) (chunks : list (list (bytes * bytes)))
           (obs_rows : list bytes)                       (* keys of the rows Batch returned *)
           (obs_cols : list (string * list canon)).      (* FieldChunkCaches afterwards *)

Notation pvalue := (value prim_fops).

Fixpoint rows_eqb (a b : list (list canon)) : bool :=
  match a, b with
  | [], [] => true
  | x :: a', y :: b' => canon_eqb (CList x) (CList y) && rows_eqb a' b'
  | _, _ => false
  end.

Definition robs_eqb (a b : robs) : bool :=
  match a, b with
  | RRows x, RRows y => rows_eqb x y
  | RErr c p, RErr c' p' => Nat.eqb c c' && Z.eqb p p'
  | RPanic, RPanic => true
  | _, _ => false
  end.

Definition canon_rows (rows : list (list pvalue)) : list (list canon) :=
  map (map (canon_of prim_fops)) rows.

(* 0 agree, 1 differ, 99 the twin is outside its model *)
Definition cmp_rows (r : res (list (list pvalue))) (o : robs) : nat :=
  match r with
  | OutOfModel => 99
  | Panic => match o with RPanic => 0 | _ => 1 end
  | Err (EExec p) => match o with RErr 1 q => if Z.eqb (Z.of_nat p) q then 0 else 1 | _ => 1 end
  | Err (ESyntax p) => match o with RErr 2 q => if Z.eqb (Z.of_nat p) q then 0 else 1 | _ => 1 end
  | Err EOther => match o with RErr 3 _ => 0 | _ => 1 end
  | Ok rows => match o with RRows rows' => if rows_eqb (canon_rows rows) rows' then 0 else 1 | _ => 1 end
  end.

Definition premise (s : stmt) : bool := stmt_ok s.

Definition check_row (names : list string) (fields : list expr) (wh : expr)
    (pairs : list (bytes * bytes)) (o_on o_off : robs) : nat :=
  let s := Stmt names fields wh in
  let m_on := drain_row prim_fops re_oom fixed_code true s pairs in
  let m_off := drain_row prim_fops re_oom fixed_code false s pairs in
  let sp := spec_rows prim_fops re_oom wh fields pairs in
  if negb (robs_eqb o_on o_off) then 3
  else
    match sp with
    | OutOfModel => 99
    | Ok rows =>
        match o_on with
        | RRows rows' =>
            if negb (forallb (fun r => Nat.eqb (List.length r) (List.length names)) rows') then 2
            else if negb (rows_eqb (canon_rows rows) rows') then 2
            else
              let a := cmp_rows m_on o_on in let b := cmp_rows m_off o_off in
              if Nat.eqb a 99 || Nat.eqb b 99 then 99
              else if negb (Nat.eqb a 0 && Nat.eqb b 0) then 1
              else if premise s then 0 else 99
        | _ => 2
        end
    | _ =>
        let a := cmp_rows m_on o_on in let b := cmp_rows m_off o_off in
        if Nat.eqb a 99 || Nat.eqb b 99 then 99
        else if negb (Nat.eqb a 0 && Nat.eqb b 0) then 1
        else if premise s then 0 else 99
    end.

(* ---- chunk bookkeeping *)

Definition def_of (env : list (string * expr)) (a : string) : expr :=
  match lookup env a with Some d => d | None => EBool 0 false end.

(* the value of alias a on a row, by content; None = the evaluation fails / is outside the model *)
Definition aval (env : list (string * expr)) (a : string) (p : bytes * bytes) : option canon :=
  match eval_prim (fst p) (snd p) (def_of env a) with
  | Ok x => Some (canon_of prim_fops x)
  | _ => None
  end.

Definition passes (wh : expr) (p : bytes * bytes) : bool :=
  match filter_row prim_fops re_oom (fst p) (snd p) wh with Ok true => true | _ => false end.

Definition evaluable (env : list (string * expr)) (wh : expr) (refd : list string) (p : bytes * bytes) : bool :=
  match filter_row prim_fops re_oom (fst p) (snd p) wh with
  | Ok _ => forallb (fun a => match aval env a p with Some _ => true | None => false end) refd
  | _ => false
  end.

Definition ocanon_eqb (a : option canon) (b : canon) : bool :=
  match a with Some x => canon_eqb x b | None => false end.

Fixpoint col_eqb (a : list (option canon)) (b : list canon) : bool :=
  match a, b with
  | [], [] => true
  | x :: a', y :: b' => ocanon_eqb x y && col_eqb a' b'
  | _, _ => false
  end.

Fixpoint keys_eqb (a b : list bytes) : bool :=
  match a, b with
  | [], [] => true
  | x :: a', y :: b' => String.eqb x y && keys_eqb a' b'
  | _, _ => false
  end.

Fixpoint find_pair (k : bytes) (ps : list (bytes * bytes)) : option (bytes * bytes) :=
  match ps with
  | [] => None
  | p :: ps' => if String.eqb (fst p) k then Some p else find_pair k ps'
  end.

Definition check_chunk (names : list string) (fields : list expr) (wh : expr) (advance : bool)
    (B : nat) (refd : list string) (chunks : list (list (bytes * bytes)))
    (obs_rows : list bytes) (obs_cols : list (string * list canon)) : nat :=
  let env := combine names fields in
  let all := List.concat chunks in
  if negb (forallb (evaluable env wh refd) all) then 99
  else
    (* spec: every observed column is the alias on the returned rows *)
    let returned := map (fun k => find_pair k all) obs_rows in
    let spec_ok :=
      forallb (fun nc : string * list canon =>
                 col_eqb (map (fun op => match op with Some p => aval env (fst nc) p | None => None end) returned)
                         (snd nc)) obs_cols in
    if negb spec_ok then 4
    else
      let '(rt, cc) := scan_batch (bytes * bytes) (option canon) (passes wh) (aval env) advance B refd chunks in
      if negb (keys_eqb (map fst rt) obs_rows) then 1
      else if negb (forallb (fun nc : string * list canon =>
                               match cc_get (option canon) cc (fst nc) with
                               | Some col => col_eqb col (snd nc)
                               | None => false
                               end) obs_cols) then 1
      else if negb (Nat.eqb (List.length cc) (List.length obs_cols)) then 1
      else 0.

Definition check_case (c : case) : nat :=
  match c with
  | CRow names fields wh pairs o_on o_off => check_row names fields wh pairs o_on o_off
  | CChunk names fields wh adv B refd chunks orows ocols =>
      check_chunk names fields wh adv B refd chunks orows ocols
  end.

Fixpoint mism_from (i : nat) (cs : list case) : list (nat * nat) :=
  match cs with
  | [] => []
  | c :: cs' => match check_case c with
                | 0 => mism_from (S i) cs'
                | k => (i, k) :: mism_from (S i) cs'
                end
  end.
Definition mismatches (cs : list case) := mism_from 0 cs.
