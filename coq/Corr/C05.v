(* Corr/C05.v -- correspondence and spec verdict for C05, evaluated by vm_compute on what the
   harness observed on the implementation.

   Two kinds of cases:
   CRow   a projection statement (select list with aliases, WHERE) drained row-at-a-time over
          the pairs its access path yields, with the field cache on and off.
          Twin: Model/Cache.drain_row (fixed code).  Spec: Model/Cache.spec_rows, i.e. the
          cache-free evaluator Model/Eval.eval on every pair -- no plan, no context.
   CChunk one call of a scan plan's Batch with the cache on: the refills the cursor delivers,
          the rows returned, and ctx.FieldChunkCaches afterwards.
          Twin: Model/Cache.scan_batch (bookkeeping only; the per-row values come from the row
          evaluator).  Spec: every cached column = the alias evaluated on the RETURNED rows.

   Codes: 0 agree; 1 twin <> implementation; 2 the rows returned row-at-a-time are not
   "one column per field, each the value of that field's expression on an accepted pair";
   3 cache on and cache off returned different rows; 4 a cached column left by a scan's Batch
   is not the alias evaluated on the returned rows; 99 outside the model (or outside the
   premise of the theorems: alias uses that do not carry the select list's definition). *)
From Coq Require Import List String ZArith Bool Arith.
Import ListNotations.
From KV Require Import Base.Bytes Base.Num Base.Flt Model.Ast Model.Value Model.Eval Model.Cache
                       Corr.EvalCommon.

Inductive robs :=
  | RRows (rows : list (list canon))
  | RErr (cls : nat) (pos : Z)      (* 1 ExecuteError, 2 SyntaxError, 3 any other error *)
  | RPanic.

Inductive case :=
  | CRow (names : list string) (fields : list expr) (wh : expr) (pairs : list (bytes * bytes))
         (obs_on obs_off : robs)
  | CChunk (names : list string) (fields : list expr) (wh : expr)
           (advance : bool) (B : nat) (refd : list string) (chunks : list (list (bytes * bytes)))
           (obs_rows : list bytes)                       (* keys of the rows Batch returned *)
           (obs_cols : list (string * list canon)).      (* FieldChunkCaches afterwards *)

Notation pvalue := (value prim_fops).

Fixpoint rows_eqb (a b : list (list canon)) : bool :=
  match a, b with
  | [], [] => true
  | x :: a', y :: b' => canon_eqb (CList x) (CList y) && rows_eqb a' b'
  | _, _ => false
  end.

Definition robs_eqb (a b : robs) : bool :=
  match a, b with
  | RRows x, RRows y => rows_eqb x y
  | RErr c p, RErr c' p' => Nat.eqb c c' && Z.eqb p p'
  | RPanic, RPanic => true
  | _, _ => false
  end.

Definition canon_rows (rows : list (list pvalue)) : list (list canon) :=
  map (map (canon_of prim_fops)) rows.

(* 0 agree, 1 differ, 99 the twin is outside its model *)
Definition cmp_rows (r : res (list (list pvalue))) (o : robs) : nat :=
  match r with
  | OutOfModel => 99
  | Panic => match o with RPanic => 0 | _ => 1 end
  | Err (EExec p) => match o with RErr 1 q => if Z.eqb (Z.of_nat p) q then 0 else 1 | _ => 1 end
  | Err (ESyntax p) => match o with RErr 2 q => if Z.eqb (Z.of_nat p) q then 0 else 1 | _ => 1 end
  | Err EOther => match o with RErr 3 _ => 0 | _ => 1 end
  | Ok rows => match o with RRows rows' => if rows_eqb (canon_rows rows) rows' then 0 else 1 | _ => 1 end
  end.

Definition premise (s : stmt) : bool := stmt_ok s.

Definition check_row (names : list string) (fields : list expr) (wh : expr)
    (pairs : list (bytes * bytes)) (o_on o_off : robs) : nat :=
  let s := Stmt names fields wh in
  let m_on := drain_row prim_fops re_oom fixed_code true s pairs in
  let m_off := drain_row prim_fops re_oom fixed_code false s pairs in
  let sp := spec_rows prim_fops re_oom wh fields pairs in
  if negb (robs_eqb o_on o_off) then 3
  else
    match sp with
    | OutOfModel => 99
    | Ok rows =>
        match o_on with
        | RRows rows' =>
            if negb (forallb (fun r => Nat.eqb (List.length r) (List.length names)) rows') then 2
            else if negb (rows_eqb (canon_rows rows) rows') then 2
            else
              let a := cmp_rows m_on o_on in let b := cmp_rows m_off o_off in
              if Nat.eqb a 99 || Nat.eqb b 99 then 99
              else if negb (Nat.eqb a 0 && Nat.eqb b 0) then 1
              else if premise s then 0 else 99
        | _ => 2
        end
    | _ =>
        let a := cmp_rows m_on o_on in let b := cmp_rows m_off o_off in
        if Nat.eqb a 99 || Nat.eqb b 99 then 99
        else if negb (Nat.eqb a 0 && Nat.eqb b 0) then 1
        else if premise s then 0 else 99
    end.

(* ---- chunk bookkeeping *)

Definition def_of (env : list (string * expr)) (a : string) : expr :=
  match lookup env a with Some d => d | None => EBool 0 false end.

(* the value of alias a on a row, by content; None = the evaluation fails / is outside the model *)
Definition aval (env : list (string * expr)) (a : string) (p : bytes * bytes) : option canon :=
  match eval_prim (fst p) (snd p) (def_of env a) with
  | Ok x => Some (canon_of prim_fops x)
  | _ => None
  end.

Definition passes (wh : expr) (p : bytes * bytes) : bool :=
  match filter_row prim_fops re_oom (fst p) (snd p) wh with Ok true => true | _ => false end.

Definition evaluable (env : list (string * expr)) (wh : expr) (refd : list string) (p : bytes * bytes) : bool :=
  match filter_row prim_fops re_oom (fst p) (snd p) wh with
  | Ok _ => forallb (fun a => match aval env a p with Some _ => true | None => false end) refd
  | _ => false
  end.

Definition ocanon_eqb (a : option canon) (b : canon) : bool :=
  match a with Some x => canon_eqb x b | None => false end.

Fixpoint col_eqb (a : list (option canon)) (b : list canon) : bool :=
  match a, b with
  | [], [] => true
  | x :: a', y :: b' => ocanon_eqb x y && col_eqb a' b'
  | _, _ => false
  end.

Fixpoint keys_eqb (a b : list bytes) : bool :=
  match a, b with
  | [], [] => true
  | x :: a', y :: b' => String.eqb x y && keys_eqb a' b'
  | _, _ => false
  end.

Fixpoint find_pair (k : bytes) (ps : list (bytes * bytes)) : option (bytes * bytes) :=
  match ps with
  | [] => None
  | p :: ps' => if String.eqb (fst p) k then Some p else find_pair k ps'
  end.

Definition check_chunk (names : list string) (fields : list expr) (wh : expr) (advance : bool)
    (B : nat) (refd : list string) (chunks : list (list (bytes * bytes)))
    (obs_rows : list bytes) (obs_cols : list (string * list canon)) : nat :=
  let env := combine names fields in
  let all := List.concat chunks in
  if negb (forallb (evaluable env wh refd) all) then 99
  else
    (* spec: every observed column is the alias on the returned rows *)
    let returned := map (fun k => find_pair k all) obs_rows in
    let spec_ok :=
      forallb (fun nc : string * list canon =>
                 col_eqb (map (fun op => match op with Some p => aval env (fst nc) p | None => None end) returned)
                         (snd nc)) obs_cols in
    if negb spec_ok then 4
    else
      let '(rt, cc) := scan_batch (bytes * bytes) (option canon) (passes wh) (aval env) advance B refd chunks in
      if negb (keys_eqb (map fst rt) obs_rows) then 1
      else if negb (forallb (fun nc : string * list canon =>
                               match cc_get (option canon) cc (fst nc) with
                               | Some col => col_eqb col (snd nc)
                               | None => false
                               end) obs_cols) then 1
      else if negb (Nat.eqb (List.length cc) (List.length obs_cols)) then 1
      else 0.

Definition check_case (c : case) : nat :=
  match c with
  | CRow names fields wh pairs o_on o_off => check_row names fields wh pairs o_on o_off
  | CChunk names fields wh adv B refd chunks orows ocols =>
      check_chunk names fields wh adv B refd chunks orows ocols
  end.

Fixpoint mism_from (i : nat) (cs : list case) : list (nat * nat) :=
  match cs with
  | [] => []
  | c :: cs' => match check_case c with
                | 0 => mism_from (S i) cs'
                | k => (i, k) :: mism_from (S i) cs'
                end
  end.
Definition mismatches (cs : list case) := mism_from 0 cs.

(* ================================================================== batch part: the chunk caches (Model/CacheVec.v) *)
(* Module Vec extends the cases above ([COld]) by two kinds; the harness' case files import it
   (`Import C05.Vec`) so that [case], [check_case] and [mismatches] are the extended ones.

   CSeq   Expression.ExecuteBatch of one statement's WHERE clause on successive chunks that share
          ONE ExecuteCtx (what a scan's Batch does with its filter between two AdjustChunkCache
          calls), with the cache on and -- on a second context -- off; observed per chunk: the
          column (by content) or the error; the sequence ends at the first error.
          Twin: Model/CacheVec.eval_seq_c (eval_batch_c threaded through the chunks).
   CDrain ProjectionPlan.Batch (over the statement's scan node) called until it returns no rows,
          cache on and off; observed: the batches, or the error.  [slots]: what the scan reads,
          in order: Some pair, or None for a listed key of a point read that does not exist.
          Twin: Model/CacheVec.drain_batch_c (scan Batch loop with chooseIdxes / AdjustChunkCache,
          processProjectionBatch with GetChunkFieldFinalResult).
   CVec   a CDrain and several CSeq of one statement (written once: the case files are dominated
          by the size of the terms); the code is the worst of the parts.

   [c05v_keyfix] says how the twin keys FieldChunkKeyCaches: false = by the text name-key, as
   the pinned code did (plan.go: fmt.Sprintf("%s-%s", name, key)); true = injectively in the pair
   (name, key), as /repo does since the fix "per-chunk field cache entries of different fields
   could collide" (length of the name in front).  With true the cases with a '-' in a field name
   get the spec verdict as well.

   Code added: 5 = inside the premises of Properties/C05.v cache_invisible_batch /
   vec_cache_invisible_chunks (accepted statement, pairwise different keys, names_ok) the
   implementation's result in batch mode with the field cache on differs from its result with the
   cache off.  1 = a twin and the implementation differ; 99 = outside the model. *)
From Coq Require Import Ascii.
From KV Require Import Model.EvalVec Model.ScanProj Model.CacheVec.

Module Vec.
Local Open Scope nat_scope.
Local Open Scope list_scope.

Definition old_case := case.
Definition old_check_case := check_case.

Definition c05v_keyfix : bool := true.

Inductive vobs := VCol (l : list canon) | VErr (cls : nat) (pos : Z) | VPanic.
Inductive dobs := DBatches (bs : list (list (list canon))) | DErr (cls : nat) (pos : Z) | DPanic.

Inductive case :=
  | COld (c : old_case)
  | CSeq (names : list string) (fields : list expr) (wh : expr)
         (chunks : list (list (bytes * bytes))) (obs_on obs_off : list vobs)
  | CDrain (names : list string) (fields : list expr) (wh : expr) (B : nat)
           (slots : list (option (bytes * bytes))) (obs_on obs_off : dobs)
  (* one statement, several chunk sequences and the drain (the statement is written once) *)
  | CVec (names : list string) (fields : list expr) (wh : expr) (B : nat)
         (slots : list (option (bytes * bytes)))
         (seqs : list (list (list (bytes * bytes)) * list vobs * list vobs))
         (obs_on obs_off : dobs).

Notation pvalue := (value prim_fops).

(* ------------------------------------------------------------------ equality of observations *)

Fixpoint canons_eqb (a b : list canon) : bool :=
  match a, b with
  | [], [] => true
  | x :: a', y :: b' => canon_eqb x y && canons_eqb a' b'
  | _, _ => false
  end.

Fixpoint rows_eqb (a b : list (list canon)) : bool :=
  match a, b with
  | [], [] => true
  | x :: a', y :: b' => canons_eqb x y && rows_eqb a' b'
  | _, _ => false
  end.

Fixpoint batches_eqb (a b : list (list (list canon))) : bool :=
  match a, b with
  | [], [] => true
  | x :: a', y :: b' => rows_eqb x y && batches_eqb a' b'
  | _, _ => false
  end.

Definition vobs_eqb (a b : vobs) : bool :=
  match a, b with
  | VCol x, VCol y => canons_eqb x y
  | VErr c p, VErr c' p' => Nat.eqb c c' && (Nat.eqb c 3 || Z.eqb p p')
  | VPanic, VPanic => true
  | _, _ => false
  end.

Fixpoint vobss_eqb (a b : list vobs) : bool :=
  match a, b with
  | [], [] => true
  | x :: a', y :: b' => vobs_eqb x y && vobss_eqb a' b'
  | _, _ => false
  end.

Definition dobs_eqb (a b : dobs) : bool :=
  match a, b with
  | DBatches x, DBatches y => batches_eqb x y
  | DErr c p, DErr c' p' => Nat.eqb c c' && (Nat.eqb c 3 || Z.eqb p p')
  | DPanic, DPanic => true
  | _, _ => false
  end.

Definition err_code (e : err) : nat * Z :=
  match e with
  | EExec p => (1, Z.of_nat p)
  | ESyntax p => (2, Z.of_nat p)
  | EOther => (3, 0%Z)
  end.

(* errors of class 3 carry no position *)
Definition err_matches (e : err) (cls : nat) (pos : Z) : bool :=
  let '(c, p) := err_code e in
  Nat.eqb c cls && (Nat.eqb c 3 || Z.eqb p pos).

(* ------------------------------------------------------------------ twin against observation *)

(* 0 agree, 1 differ, 99 the twin is outside its model *)
Definition cmp_col (r : res (list pvalue)) (o : vobs) : nat :=
  match r with
  | OutOfModel => 99
  | Panic => match o with VPanic => 0 | _ => 1 end
  | Err e => match o with VErr c p => if err_matches e c p then 0 else 1 | _ => 1 end
  | Ok vs => match o with
             | VCol cs => if canons_eqb (map (canon_of prim_fops) vs) cs then 0 else 1
             | _ => 1
             end
  end.

Fixpoint cmp_seq (rs : list (res (list pvalue))) (os : list vobs) : nat :=
  match rs, os with
  | [], [] => 0
  | r :: rs', o :: os' =>
      match cmp_col r o with
      | 0 => cmp_seq rs' os'
      | k => k
      end
  | _, _ => 1
  end.

Definition cmp_drain (r : res (list (list (list pvalue)))) (o : dobs) : nat :=
  match r with
  | OutOfModel => 99
  | Panic => match o with DPanic => 0 | _ => 1 end
  | Err e => match o with DErr c p => if err_matches e c p then 0 else 1 | _ => 1 end
  | Ok bs => match o with
             | DBatches bs' =>
                 if batches_eqb (map (map (map (canon_of prim_fops))) bs) bs' then 0 else 1
             | _ => 1
             end
  end.

(* ------------------------------------------------------------------ the premises of the theorems, decided *)

Fixpoint has_dash (s : string) : bool :=
  match s with
  | EmptyString => false
  | String c s' => Ascii.eqb c "-"%char || has_dash s'
  end.

(* Proofs/CacheVecProofs.names_ok *)
Definition names_okb (keyfix : bool) (s : stmt) : bool :=
  keyfix || forallb (fun a => negb (has_dash a)) (s_names s).

Fixpoint nodupb (l : list bytes) : bool :=
  match l with
  | [] => true
  | x :: l' => negb (existsb (String.eqb x) l') && nodupb l'
  end.

Definition first_keyb (ch : list (bytes * bytes)) : bytes :=
  match ch with kv :: _ => fst kv | [] => EmptyString end.

Definition nonemptyb {A} (l : list A) : bool := match l with [] => false | _ => true end.

Definition combine_codes (premise differ : bool) (a b : nat) : nat :=
  if premise && differ then 5
  else if Nat.eqb a 99 || Nat.eqb b 99 then 99
  else if negb (Nat.eqb a 0 && Nat.eqb b 0) then 1
  else 0.

Definition check_seq (names : list string) (fields : list expr) (wh : expr)
    (chunks : list (list (bytes * bytes))) (o_on o_off : list vobs) : nat :=
  let s := Stmt names fields wh in
  let premise := stmt_ok s && names_okb c05v_keyfix s && forallb nonemptyb chunks &&
                 nodupb (map first_keyb chunks) in
  let m_on := eval_seq_c prim_fops re_oom c05v_keyfix true wh chunks (ctx0 prim_fops) in
  let m_off := eval_seq_c prim_fops re_oom c05v_keyfix false wh chunks (ctx0 prim_fops) in
  combine_codes premise (negb (vobss_eqb o_on o_off)) (cmp_seq m_on o_on) (cmp_seq m_off o_off).

Definition check_drain (names : list string) (fields : list expr) (wh : expr) (B : nat)
    (slots : list (option (bytes * bytes))) (o_on o_off : dobs) : nat :=
  let s := Stmt names fields wh in
  let premise := stmt_ok s && names_okb c05v_keyfix s && nodupb (map fst (somes slots)) in
  let m_on := drain_batch_c prim_fops re_oom c05v_keyfix true s B slots in
  let m_off := drain_batch_c prim_fops re_oom c05v_keyfix false s B slots in
  combine_codes premise (negb (dobs_eqb o_on o_off)) (cmp_drain m_on o_on) (cmp_drain m_off o_off).

Definition check_case (c : case) : nat :=
  match c with
  | COld c' => old_check_case c'
  | CSeq names fields wh chunks o_on o_off => check_seq names fields wh chunks o_on o_off
  | CDrain names fields wh B slots o_on o_off => check_drain names fields wh B slots o_on o_off
  | CVec names fields wh B slots seqs o_on o_off =>
      worst (check_drain names fields wh B slots o_on o_off ::
             map (fun q => match q with (chunks, so_on, so_off) => check_seq names fields wh chunks so_on so_off end) seqs)
  end.

Fixpoint mism_from (i : nat) (cs : list case) : list (nat * nat) :=
  match cs with
  | [] => []
  | c :: cs' => match check_case c with
                | 0 => mism_from (S i) cs'
                | k => (i, k) :: mism_from (S i) cs'
                end
  end.
Definition mismatches (cs : list case) := mism_from 0 cs.

End Vec.

(* ================================================================== statement level: ORDER BY / LIMIT / GROUP BY (Model/CachePlans.v) *)
(* Module Stmt extends Module Vec's cases by one kind; the harness' case files import it last
   (`Import C05.Vec. Import C05.Stmt.`), so that [case], [check_case], [mismatches] and the
   constructor names COld / CSeq / CDrain / CVec are the ones below.

   CStmt  one SELECT statement with named fields through Optimizer.BuildPlan -- ProjectionPlan or
          AggregatePlan, [+ FinalOrderPlan] [+ FinalLimitPlan] -- on one store at one batch size:
          the trees of the built plan (field names, fields, the scan's filter, GROUP BY
          expressions, non-aggregate fields, aggregate arguments, AggrAll / Fields, field types;
          ORDER BY and LIMIT as parsed; the node kinds of the plan), the slots the scan reads,
          and the rows / the error of FOUR drains: Next until nil and Batch until empty, each with
          the field cache on and off.
          Twin: Model/CachePlans.stmt_shape_row_c / stmt_shape_batch_c with the cache switch.
   Codes: 1 = the twin and the implementation differ (shape of the plan, rows or error of one of
          the four runs; with ORDER BY sequences are compared modulo ties as in Corr/C03Stmt.v);
          5 = inside the premises of cache_invisible_aggregate_row / _batch (cq_ok, names_ok,
          pairwise different keys) the implementation's result with the field cache on differs
          from its result with the cache off (by content, list columns included);
          99 = outside the twins. *)
From Coq Require Import Floats.
From KV Require Import Model.LimitLazy Model.SelectPlans Model.CachePlans Corr.C03Stmt.
From KV Require Model.Order Model.Aggregate Spec.Group.

Module Stmt.
Local Open Scope nat_scope.
Local Open Scope list_scope.

Definition vec_case := Vec.case.

Inductive case :=
  | CV (c : vec_case)
  | CStmt (B : nat) (names : list string) (fields : list expr) (wh : expr)
          (group keys args : list expr) (aggr : option (bool * list (Group.field float)))
          (types : list Order.type) (order : option (list Order.order_field)) (limit : option (nat * nat))
          (sh : shape) (slots : list (option (bytes * bytes)))
          (row_on row_off bat_on bat_off : qobs).

(* the cases of Module Vec under their names *)
Definition COld (c : Vec.old_case) : case := CV (Vec.COld c).
Definition CSeq (names : list string) (fields : list expr) (wh : expr)
           (chunks : list (list (bytes * bytes))) (obs_on obs_off : list Vec.vobs) : case :=
  CV (Vec.CSeq names fields wh chunks obs_on obs_off).
Definition CDrain (names : list string) (fields : list expr) (wh : expr) (B : nat)
           (slots : list (option (bytes * bytes))) (obs_on obs_off : Vec.dobs) : case :=
  CV (Vec.CDrain names fields wh B slots obs_on obs_off).
Definition CVec (names : list string) (fields : list expr) (wh : expr) (B : nat)
           (slots : list (option (bytes * bytes)))
           (seqs : list (list (list (bytes * bytes)) * list Vec.vobs * list Vec.vobs))
           (obs_on obs_off : Vec.dobs) : case :=
  CV (Vec.CVec names fields wh B slots seqs obs_on obs_off).

(* a list-valued (or nil) column as the twin renders it (Model/SelectPlans.conv_val) *)
Definition VL (c : canon) : Order.value := Order.VOther (canon_text c).

(* ---- equality of observations by content: string and []byte identified, list columns compared *)
Definition sval_eqb (a b : Order.value) : bool :=
  match a, b with
  | Order.VOther x, Order.VOther y => String.eqb x y
  | Order.VOther _, _ | _, Order.VOther _ => false
  | _, _ => qval_eqb a b
  end.
Definition srows_eqb (a b : list Order.row) : bool := list_eqb (list_eqb sval_eqb) a b.

Definition sobs_eqb (a b : qobs) : bool :=
  match a, b with
  | QRows x, QRows y => srows_eqb x y
  | QErr c p, QErr c' p' => Nat.eqb c c' && (Nat.eqb c 3 || Z.eqb p p')
  | QPanic, QPanic => true
  | _, _ => false
  end.

(* the twin's result against one observed run: 0 agree, 1 differ, 99 outside the twin *)
Definition cmp_sobs (c : qcase) (sh : shape) (r : res (list Order.row)) (o : qobs) : nat :=
  match r with
  | Ok rows =>
      match o with
      | QRows obs =>
          match shape_orders sh with
          | None => if srows_eqb obs rows then 0 else 1
          | Some _ => if seq_agree c sh obs rows then 0 else 1
          end
      | _ => 1
      end
  | _ => cmp_qobs c sh r o
  end.

Definition check_stmt (B : nat) (names : list string) (fields : list expr) (wh : expr)
    (group keys args : list expr) (aggr : option (bool * list (Group.field float)))
    (types : list Order.type) (order : option (list Order.order_field)) (limit : option (nat * nat))
    (osh : shape) (slots : list (option (bytes * bytes))) (row_on row_off bat_on bat_off : qobs) : nat :=
  let sel := Cache.Stmt names fields wh in
  let q := CQ prim_fops sel group keys args types aggr order limit in
  let sh := cq_shape prim_fops q in
  let qc := QCase B wh (Some fields) group keys args aggr names types order limit osh (somes slots) row_on bat_on in
  let premise := cq_ok prim_fops q && Vec.names_okb Vec.c05v_keyfix sel && Vec.nodupb (map fst (somes slots)) in
  let differ := negb (sobs_eqb row_on row_off) || negb (sobs_eqb bat_on bat_off) in
  if negb (shape_eqb sh osh) then 1
  else if premise && differ then 5
  else if negb (in_model qc sh (map (@Some kvpair) (somes slots))) then 99
  else
    let rr on := stmt_shape_row_c prim_fops re_oom ag64 q_pint q_pfloat on q sh (somes slots) in
    let rb on := stmt_shape_batch_c prim_fops re_oom Vec.c05v_keyfix ag64 q_pint q_pfloat on B q sh slots in
    let codes := [cmp_sobs qc sh (rr true) row_on; cmp_sobs qc sh (rr false) row_off;
                  cmp_sobs qc sh (rb true) bat_on; cmp_sobs qc sh (rb false) bat_off] in
    if existsb (Nat.eqb 99) codes then 99
    else if forallb (Nat.eqb 0) codes then 0 else 1.

Definition check_case (c : case) : nat :=
  match c with
  | CV c' => Vec.check_case c'
  | CStmt B names fields wh group keys args aggr types order limit sh slots ron roff bon boff =>
      check_stmt B names fields wh group keys args aggr types order limit sh slots ron roff bon boff
  end.

Fixpoint mism_from (i : nat) (cs : list case) : list (nat * nat) :=
  match cs with
  | [] => []
  | c :: cs' => match check_case c with
                | 0 => mism_from (S i) cs'
                | k => (i, k) :: mism_from (S i) cs'
                end
  end.
Definition mismatches (cs : list case) := mism_from 0 cs.

End Stmt.

(* ================================================================== the TEXT stream (Corr/C05Text.v) *)
(* Module Text extends Module Stmt's cases by one kind; the harness' case files import it last
   (`Import C05.Vec. Import C05.Stmt. Import C05.Text.`).
   CTxt  an aliased statement text, the same text with the definitions written out, a store, a
          batch size and the implementation's rows for both texts in both iteration modes; the
          text twin of Model/PipelineS.v on both texts and Model/AliasText.expand_stmt through the
          twin.  Codes: Corr/C05Text.v (1 twin differs, 6 aliased rows differ from expanded rows in
          the implementation, 7 expand_stmt through the twin differs from the aliased text through
          the twin, 99 outside the model). *)
From KV Require Corr.C05Text.

Module Text.
Local Open Scope nat_scope.
Local Open Scope list_scope.

Definition stmt_case := Stmt.case.

Inductive case :=
  | CS (c : stmt_case)
  | CTxt (t : C05Text.tcase).

Definition COld (c : Vec.old_case) : case := CS (Stmt.COld c).
Definition CSeq names fields wh chunks obs_on obs_off : case := CS (Stmt.CSeq names fields wh chunks obs_on obs_off).
Definition CDrain names fields wh B slots obs_on obs_off : case := CS (Stmt.CDrain names fields wh B slots obs_on obs_off).
Definition CVec names fields wh B slots seqs obs_on obs_off : case := CS (Stmt.CVec names fields wh B slots seqs obs_on obs_off).
Definition CStmt B names fields wh group keys args aggr types order limit sh slots ron roff bon boff : case :=
  CS (Stmt.CStmt B names fields wh group keys args aggr types order limit sh slots ron roff bon boff).

Definition check_case (c : case) : nat :=
  match c with
  | CS c' => Stmt.check_case c'
  | CTxt t => C05Text.check_text t
  end.

Fixpoint mism_from (i : nat) (cs : list case) : list (nat * nat) :=
  match cs with
  | [] => []
  | c :: cs' => match check_case c with
                | 0 => mism_from (S i) cs'
                | k => (i, k) :: mism_from (S i) cs'
                end
  end.
Definition mismatches (cs : list case) := mism_from 0 cs.

End Text.
