(* Corr/C05Text.v -- Coq side of C05's TEXT stream (harness/c05text.go): a statement text that uses
   select-field names (qa), the same statement with every name written out as its definition by
   the harness' template expander (qe), one store, one batch size, and the rows / the error
   kvql.NewOptimizer(text).BuildPlan(store) + drain gave for BOTH texts, row mode (Next until nil)
   and batch mode (Batch until empty), field cache off.

   The Coq side runs, on the same store and in both modes,
     A  Model/PipelineS.select_stmt_text_st on qa            (the text twin, references evaluated
                                                              through their definitions)
     E  Model/PipelineS.select_stmt_text_st on qe
     X  Model/AliasText.expanded_text_st on qa               (expand_stmt of the statement
                                                              Parser.Parse built for qa, through
                                                              the rest of the pipeline)
   code 0   agree
   code 1   A differs from the implementation's result on qa, or E from its result on qe (the
            tie is broken)
   code 6   the implementation's result on qa differs from its result on qe (C05 violated: a name
            is not an abbreviation of its definition on this input)
   code 7   X differs from A: the syntactic expansion of the parsed statement, run through the
            proved twins, does not return what the statement with the names returns (the part of
            alias_text_is_expansion that is compared, not proved: the front end commutes with
            expand_stmt)
   code 99  outside the model (STOom)
   Rows are compared by content (string and []byte identified, list columns by canonical text);
   under ORDER BY as multisets when the sequences differ (ties are C07's); errors by presence. *)
From Coq Require Import List String ZArith Bool Arith Floats.
Import ListNotations.
From KV Require Import Base.Bytes Base.Num Base.Flt Model.Ast Model.Value Model.Eval Model.EvalVec
                       Model.Fold Model.Storage Model.SelectPlans Model.Pipeline Model.PipelineS Model.AliasText
                       Corr.EvalCommon Corr.C03Stmt.
From KV Require Model.Order.
Local Open Scope nat_scope.
Local Open Scope list_scope.

Record tcase := TCase {
  tx_qa : string;
  tx_qe : string;
  tx_store : list (bytes * bytes);
  tx_B : nat;
  tx_ordered : bool;                  (* the statement has an ORDER BY clause *)
  tx_arow : qobs; tx_abat : qobs;     (* qa: Next until nil, Batch until empty *)
  tx_erow : qobs; tx_ebat : qobs      (* qe *)
}.

(* a list-valued (or nil) column as the twin renders it (Model/SelectPlans.conv_val) *)
Definition TVL (c : canon) : Order.value := Order.VOther (canon_text c).

Definition tx_val_eqb (a b : Order.value) : bool :=
  match a, b with
  | Order.VOther x, Order.VOther y => String.eqb x y
  | Order.VOther _, _ | _, Order.VOther _ => false
  | _, _ => qval_eqb a b
  end.
Definition tx_row_eqb (a b : Order.row) : bool := list_eqb tx_val_eqb a b.

Fixpoint tx_remove_one (r : Order.row) (l : list Order.row) : option (list Order.row) :=
  match l with
  | [] => None
  | x :: l' => if tx_row_eqb r x then Some l'
               else match tx_remove_one r l' with Some l'' => Some (x :: l'') | None => None end
  end.
Fixpoint tx_is_perm (a b : list Order.row) : bool :=
  match a with
  | [] => match b with [] => true | _ => false end
  | r :: a' => match tx_remove_one r b with Some b' => tx_is_perm a' b' | None => false end
  end.

Definition tx_rows_eqb (ordered : bool) (a b : list Order.row) : bool :=
  list_eqb tx_row_eqb a b || (ordered && tx_is_perm a b).

(* the outcome of a twin in the vocabulary of the observations; None: outside the model *)
Definition tx_obs (r : stres (list Order.row)) : option qobs :=
  match r with
  | STOk rows => Some (QRows rows)
  | STReject p => Some (QErr 2 p)
  | STBuildErr _ | STRunErr _ => Some (QErr 1 0%Z)
  | STRunPanic | STPanic | STFuel => Some QPanic
  | STOom => None
  end.

Definition tx_obs_eqb (ordered : bool) (a b : qobs) : bool :=
  match a, b with
  | QRows x, QRows y => tx_rows_eqb ordered x y
  | QErr _ _, QErr _ _ => true
  | QPanic, QPanic => true
  | _, _ => false
  end.

Definition tx_mode (row : bool) (B : nat) : tmode := if row then MRow else MBatch B.

Definition tx_twin (q : string) (d : list (bytes * bytes)) (m : tmode) : stres (list Order.row) :=
  select_stmt_text_st prim_fops re_oom pf_fmt_v ag64 q_pint q_pfloat q d m.
Definition tx_twin_x (q : string) (d : list (bytes * bytes)) (m : tmode) : stres (list Order.row) :=
  expanded_text_st prim_fops re_oom pf_fmt_v ag64 q_pint q_pfloat q d m.

(* one iteration mode *)
Definition check_mode (c : tcase) (row : bool) (oa oe : qobs) : nat :=
  let m := tx_mode row (tx_B c) in
  let o := tx_ordered c in
  match tx_obs (tx_twin (tx_qa c) (tx_store c) m),
        tx_obs (tx_twin (tx_qe c) (tx_store c) m),
        tx_obs (tx_twin_x (tx_qa c) (tx_store c) m) with
  | Some a, Some e, Some x =>
      if negb (tx_obs_eqb o oa oe) then 6
      else if negb (tx_obs_eqb o a oa) || negb (tx_obs_eqb o e oe) then 1
      else if negb (tx_obs_eqb o x a) then 7
      else 0
  | _, _, _ => 99
  end.

Definition check_text (c : tcase) : nat :=
  let r := check_mode c true (tx_arow c) (tx_erow c) in
  let b := check_mode c false (tx_abat c) (tx_ebat c) in
  if Nat.eqb r 6 || Nat.eqb b 6 then 6
  else if Nat.eqb r 1 || Nat.eqb b 1 then 1
  else if Nat.eqb r 7 || Nat.eqb b 7 then 7
  else Nat.max r b.
