(* Corr/C06.v -- Coq side of C06: the evaluator twin (proved never to panic) against
   Expression.Execute on the select fields of valid statements.  A "panicked" observation is
   code 2 (the implementation crashed where the proved twin returns a value or an error). *)
From Coq Require Import List String ZArith Bool.
Import ListNotations.
From KV Require Import Base.Bytes Model.Ast Model.Value Corr.EvalCommon.

Record case := Case { cexpr : expr; crows : list (bytes * bytes * obs) }.

Definition has_panic (rows : list (bytes * bytes * obs)) : bool :=
  existsb (fun r => match r with (_, _, OPanic) => true | _ => false end) rows.

Definition check_case (c : case) : nat :=
  if has_panic (crows c) then 2
  else match check_eval (cexpr c) (crows c) with
       | 2 => 1            (* value differences are C10's subject: here only a broken tie *)
       | n => n
       end.

Fixpoint mism_from (i : nat) (cs : list case) : list (nat * nat) :=
  match cs with
  | [] => []
  | c :: cs' => match check_case c with
                | 0 => mism_from (S i) cs'
                | k => (i, k) :: mism_from (S i) cs'
                end
  end.
Definition mismatches (cs : list case) := mism_from 0 cs.

(* ---------------------------------------------------------------- text level (appended)
   CaseX: one query TEXT (valid or corrupted) on one store through NewOptimizer(q).BuildPlan +
   drain, compared by outcome class with the WHOLE text twins Model/PipelineS.v / PipelineW.v
   (Corr/C06Text.v, codes there).  The case files define their list with the type [xcase]; the
   evaluator-level cases above are embedded under their old name. *)
From KV Require Import Corr.C06Text.

Inductive xcase :=
  | XBase (c : case)
  | CaseX (t : tcase).
Definition XCase (e : expr) (rows : list (bytes * bytes * obs)) : xcase := XBase (Case e rows).

Definition xcheck_case (c : xcase) : nat :=
  match c with
  | XBase b => check_case b
  | CaseX t => check_text t
  end.

Fixpoint xmism_from (i : nat) (cs : list xcase) : list (nat * nat) :=
  match cs with
  | [] => []
  | c :: cs' => match xcheck_case c with
                | 0 => xmism_from (S i) cs'
                | k => (i, k) :: xmism_from (S i) cs'
                end
  end.
Definition xmismatches (cs : list xcase) : list (nat * nat) := xmism_from 0 cs.
