(* Corr/C06.v -- Coq side of C06: the evaluator twin (proved never to panic) against
   Expression.Execute on the select fields of valid statements.  A "panicked" observation is
   code 2 (the implementation crashed where the proved twin returns a value or an error). *)
From Coq Require Import List String ZArith Bool.
Import ListNotations.
From KV Require Import Base.Bytes Model.Ast Model.Value Corr.EvalCommon.

Record case := Case { cexpr : expr; crows : list (bytes * bytes * obs) }.

Definition has_panic (rows : list (bytes * bytes * obs)) : bool :=
  existsb (fun r => match r with (_, _, OPanic) => true | _ => false end) rows.

Definition check_case (c : case) : nat :=
  if has_panic (crows c) then 2
  else match check_eval (cexpr c) (crows c) with
       | 2 => 1            (* value differences are C10's subject: here only a broken tie *)
       | n => n
       end.

Fixpoint mism_from (i : nat) (cs : list case) : list (nat * nat) :=
  match cs with
  | [] => []
  | c :: cs' => match check_case c with
                | 0 => mism_from (S i) cs'
                | k => (i, k) :: mism_from (S i) cs'
                end
  end.
Definition mismatches (cs : list case) := mism_from 0 cs.
