(* Corr/C06Text.v -- Coq side of C06's TEXT stream: the WHOLE text twins, which
   Properties/C06.v proves free of panic / fuel outcomes (select_stmt_text_never_panics), against
   kvql.NewOptimizer(q).BuildPlan(store) + drain on valid and CORRUPTED query texts.

   A case is one query text on one store: for each iteration mode (0 = Next until nil, B = Batch
   until the empty batch at PlanBatchSize B) the OUTCOME CLASS the implementation showed; modes
   with the same class share one entry.  The Coq side evaluates
     SELECT / WHERE texts  Model/PipelineS.v  select_stmt_text_st (every plan shape)
     PUT / REMOVE texts    Model/PipelineW.v  write_text, polled Next, Next, Batch
     DELETE texts          Model/PipelineW.v  delete_text at PlanBatchSize B
   on the same text and compares the class (and what is cheap next to it: the number of rows,
   the position of a SyntaxError of BuildPlan).

   code 0   agree
   code 1   the twin and the implementation differ in the outcome class (the tie is broken: the
            theorem no longer speaks about this code)
   code 2   the implementation PANICKED on a text on which the proved twin returns rows or an
            error (C06 violated on this input)
   code 99  outside the model (TOom / STOom; Model/PipelineS.v and Model/PipelineW.v headers) *)
From Coq Require Import List String ZArith Bool Arith Floats.
Import ListNotations.
From KV Require Import Base.Bytes Base.Num Base.Flt Model.Ast Model.Value Model.Eval Model.EvalVec
                       Model.Fold Model.Storage Model.Write Model.Pipeline Model.PipelineS Model.PipelineW
                       Corr.EvalCommon Corr.C03Stmt.
From KV Require Model.Order Model.Token Model.Lexer.
Local Open Scope nat_scope.
Local Open Scope list_scope.

Inductive tclass :=
  | KRows (n : nat)            (* the drain completed with n rows / the write plan ran *)
  | KReject (pos : Z)          (* BuildPlan: *SyntaxError at pos *)
  | KBuildErr                  (* BuildPlan: any other error *)
  | KRunErr                    (* the drain / a poll returned an error *)
  | KPanic.                    (* recovered panic, fatal error or timeout *)

Record tcase := TCase {
  tc_q : string;
  tc_store : list (bytes * bytes);
  tc_runs : list (list nat * tclass)
}.

Definition tc_mode (m : nat) : tmode := match m with 0 => MRow | _ => MBatch m end.

(* the class of an outcome of the SELECT twin.  None: outside the model *)
Definition st_class {A} (len : A -> nat) (r : stres A) : option tclass :=
  match r with
  | STOk a => Some (KRows (len a))
  | STReject p => Some (KReject p)
  | STBuildErr (Value.ESyntax p) => Some (KReject (Z.of_nat p))
  | STBuildErr _ => Some KBuildErr
  | STRunErr _ => Some KRunErr
  | STRunPanic | STPanic | STFuel => Some KPanic
  | STOom => None
  end.

Definition tclass_eqb (a b : tclass) : bool :=
  match a, b with
  | KRows n, KRows m => Nat.eqb n m
  | KReject p, KReject q => Z.eqb p q
  | KBuildErr, KBuildErr | KRunErr, KRunErr | KPanic, KPanic => true
  | _, _ => false
  end.

Definition cmp_class (twin : option tclass) (obs : tclass) : nat :=
  match twin with
  | None => 99
  | Some t =>
      if tclass_eqb t obs then 0
      else match obs with KPanic => 2 | _ => 1 end
  end.

(* ---- which twin speaks about the text: the first token once the trailing semicolons are
   dropped (Parser.Parse's dispatch) *)
Definition text_kind (q : string) : wkind := head_kind (Lexer.lex q).

Definition sel_class (q : string) (d : list (bytes * bytes)) (m : nat) : option tclass :=
  st_class (@List.length Order.row)
           (select_stmt_text_st prim_fops re_oom pf_fmt_v ag64 q_pint q_pfloat q d (tc_mode m)).

(* PUT / REMOVE: BuildPlan, then Next, Next, Batch.  Class: KRows 1 when the first poll returned
   its row without an error, KRunErr when it returned an error *)
Definition wr_class (q : string) (d : list (bytes * bytes)) : option tclass :=
  match write_text prim_fops re_oom q [PNext; PNext; PBatch] (sinit d None) with
  | (TOk ((_, None) :: _), _) => Some (KRows 1)
  | (TOk ((_, Some _) :: _), _) => Some KRunErr
  | (TOk [], _) => Some KPanic
  | (TReject p, _) => Some (KReject p)
  | (TRunErr _, _) => Some KRunErr
  | (TPanic, _) | (TFuel, _) => Some KPanic
  | (TOom, _) => None
  end.

(* DELETE: the twin does not model a WHERE clause that fails on a stored pair (Model/PipelineW.v
   header): an accepted text is compared as "accepted" *)
Definition del_class (q : string) (d : list (bytes * bytes)) (m : nat) : option tclass :=
  match delete_text prim_fops re_oom pf_fmt_v q (match m with 0 => 32 | _ => m end) (sinit d None) with
  | (TOk _, _) => Some (KRows 1)
  | (TReject p, _) => Some (KReject p)
  | (TRunErr _, _) => Some KRunErr
  | (TPanic, _) | (TFuel, _) => Some KPanic
  | (TOom, _) => None
  end.

Definition obs_accept (o : tclass) : tclass := match o with KRunErr => KRows 1 | _ => o end.

Definition check_run (q : string) (d : list (bytes * bytes)) (k : wkind) (m : nat) (o : tclass) : nat :=
  match k with
  | KOther => cmp_class (sel_class q d m) o
  | KPut | KRemove => cmp_class (wr_class q d) o
  | KDelete => cmp_class (del_class q d m) (obs_accept o)
  end.

Definition check_text (c : tcase) : nat :=
  let k := text_kind (tc_q c) in
  worst (flat_map (fun r => map (fun m => check_run (tc_q c) (tc_store c) k m (snd r)) (fst r)) (tc_runs c)).
