(* Corr/C07.v -- correspondence and spec verdict for C07, evaluated by vm_compute on the cases
   the harness observed on the implementation.

   A case is an ORDER BY node (built directly over a scripted child, kind 0) or a whole SELECT
   statement (kinds 1..3) together with the rows the same statement yields WITHOUT the
   ORDER BY clause (the node's child rows, in the child's batches) and the rows it yields
   with it, row-at-a-time and in batches.

   code 0  agree
   code 1  twin <> implementation: the implementation's sort-key sequence is not the one
           the twin computes (compared modulo ties: position-wise neither row is Less than
           the other), or the twin fails where the implementation answers
   code 2  the implementation's rows are not a permutation of the unordered rows
   code 3  an adjacent pair of the implementation's rows is out of order under Spec.spec_cmp
   code 5  [order by key asc] alone changed the natural order
   Tie order is never compared. *)
From Coq Require Import List String ZArith Bool Arith.
Import ListNotations.
From KV Require Import Base.Bytes Model.Ast Model.Order Spec.OrderSpec.
Local Open Scope list_scope.

Record case := Case {
  ckind : nat;          (* 0 node over a scripted child; 1 select; 2 aggregate select; 3 order by key asc *)
  cB : nat;             (* PlanBatchSize *)
  cnames : list string; (* the child's FieldNameList *)
  ctypes : list type;   (* the child's FieldTypeList *)
  corders : list order_field;      (* the ORDER BY clause as written *)
  chas_aggr : bool;
  cparse : list (bytes * (option Z * option Z));
                        (* strconv.ParseInt / ParseFloat on the text values of number columns *)
  cbs : list (list row);           (* the child's batches = the rows without ORDER BY *)
  obs_row : option (list row);     (* rows returned row-at-a-time (None: not observed) *)
  obs_batch : option (list row)    (* rows returned in batch mode, concatenated *)
}.

(* ---------------------------------------------------------------- oracles from the case *)

Fixpoint assoc (s : bytes) (l : list (bytes * (option Z * option Z))) : option (option Z * option Z) :=
  match l with
  | [] => None
  | (k, v) :: l' => if String.eqb s k then Some v else assoc s l'
  end.
Definition pint (c : case) (s : bytes) : option Z :=
  match assoc s (cparse c) with Some (i, _) => i | None => None end.
Definition pfloat (c : case) (s : bytes) : option Z :=
  match assoc s (cparse c) with Some (_, f) => f | None => None end.

(* ---------------------------------------------------------------- equality of rows *)

(* text is compared as bytes (string and []byte identified), floats by their bits *)
Definition value_eqb (a b : value) : bool :=
  match a, b with
  | VBytes x, VBytes y | VBytes x, VStr y | VStr x, VBytes y | VStr x, VStr y => String.eqb x y
  | VInt x, VInt y => Z.eqb x y
  | VFloat x, VFloat y => Z.eqb x y
  | VBool x, VBool y => Bool.eqb x y
  | VOther x, VOther y => String.eqb x y
  | _, _ => false
  end.
Definition row_eqb (a b : row) : bool := list_eqb value_eqb a b.

Fixpoint remove_one (r : row) (l : list row) : option (list row) :=
  match l with
  | [] => None
  | x :: l' => if row_eqb r x then Some l'
               else match remove_one r l' with Some l'' => Some (x :: l'') | None => None end
  end.
Fixpoint is_perm (a b : list row) : bool :=
  match a with
  | [] => match b with [] => true | _ => false end
  | r :: a' => match remove_one r b with Some b' => is_perm a' b' | None => false end
  end.

(* ---------------------------------------------------------------- the twin on a case *)

Definition plan_of (c : case) : final_plan :=
  match ckind c with
  | 0 => FOrder (corders c) FChild
  | _ => build_final_order_plan FChild (chas_aggr c) (corders c)
  end.

Definition model_row (c : case) : option (list row) :=
  run_row (pint c) (pfloat c) (plan_of c) (cnames c) (ctypes c) (List.concat (cbs c)).

Definition model_batch (c : case) : option (list row) :=
  match plan_of c with
  | FOrder orders FChild =>
      match init_orders orders (cnames c) (ctypes c) with
      | None => None
      | Some ords => option_map (@List.concat row) (drain_batch (pint c) (pfloat c) ords (cB c) (cbs c))
      end
  | _ => Some (List.concat (cbs c))
  end.

(* ---------------------------------------------------------------- when the twin applies *)

(* is Less a strict weak order on these rows?  brute force, used for small inputs whose
   columns are not homogeneous (text in number columns, mixed int/float, ...) *)
Definition swo_on (lt : row -> row -> bool) (rows : list row) : bool :=
  forallb (fun a => negb (lt a a)) rows &&
  forallb (fun a => forallb (fun b => forallb (fun x =>
     (* transitivity of Less and of "neither is Less" *)
     let ab := lt a b in let ba := lt b a in let bx := lt b x in let xb := lt x b in
     let ax := lt a x in let xa := lt x a in
     (negb (ab && bx) || ax) &&
     (negb (negb ab && negb ba && negb bx && negb xb) || (negb ax && negb xa))) rows) rows) rows.

(* (if-then-else rather than || and &&: vm_compute is strict) *)
Definition twin_applies (c : case) (ords : list ofield) (rows : list row) : bool :=
  if homogeneous ords rows then true
  else if (List.length rows <=? 6)%nat then swo_on (less (pint c) (pfloat c) ords) rows
  else false.

(* all sort keys are keys the property speaks about.  Where a number column mixes integers
   and floats the code compares after converting the integer to binary64 (like every mixed
   comparison in kvql); beyond +-2^53 that conversion rounds, so such columns are judged
   only if their integers are exactly representable. *)
Definition is_int (v : value) : bool := match v with VInt _ => true | _ => false end.
Definition is_float (v : value) : bool := match v with VFloat _ => true | _ => false end.
Definition small_int (v : value) : bool :=
  match v with VInt z => (Z.abs z <=? 2 ^ 53)%Z | _ => true end.
Definition in_spec_domain (ords : list ofield) (rows : list row) : bool :=
  forallb (fun o =>
     let vs := map (fun r => col r (opos o)) rows in
     forallb (fun v => match spec_key (otype o) v with Some _ => true | None => false end) vs &&
     (negb (existsb is_int vs && existsb is_float vs) || forallb small_int vs)) ords.

Fixpoint same_keys (lt : row -> row -> bool) (a b : list row) : bool :=
  match a, b with
  | [], [] => true
  | x :: a', y :: b' => negb (lt x y) && negb (lt y x) && same_keys lt a' b'
  | _, _ => false
  end.

(* ---------------------------------------------------------------- verdict *)

Definition check_mode (c : case) (obs model : option (list row)) : nat :=
  match obs with
  | None => 0
  | Some o =>
      let rows := List.concat (cbs c) in
      if negb (is_perm o rows) then 2
      else
        match plan_of c with
        | FOrder orders FChild =>
            match init_orders orders (cnames c) (ctypes c) with
            | None => 1                    (* the implementation answered, the twin's Init errs *)
            | Some ords =>
                if (if in_spec_domain ords rows then negb (adjacent_sorted ords o) else false) then 3
                else if twin_applies c ords rows then
                  match model with
                  | Some m => if same_keys (less (pint c) (pfloat c) ords) o m then 0 else 1
                  | None => 1
                  end
                else 0
            end
        | _ =>
            (* order by key asc alone: the natural order is kept *)
            if list_eqb row_eqb o rows then
              match model with Some m => if list_eqb row_eqb o m then 0 else 1 | None => 1 end
            else 5
        end
  end.

Definition check_case (c : case) : nat :=
  Nat.max (check_mode c (obs_row c) (model_row c))
          (check_mode c (obs_batch c) (model_batch c)).

Fixpoint mism_from (i : nat) (cs : list case) : list (nat * nat) :=
  match cs with
  | [] => []
  | c :: cs' => match check_case c with
                | 0 => mism_from (S i) cs'
                | k => (i, k) :: mism_from (S i) cs'
                end
  end.
Definition mismatches (cs : list case) : list (nat * nat) := mism_from 0 cs.
