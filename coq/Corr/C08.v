(* Corr/C08.v -- correspondence and spec verdict for C08, evaluated by vm_compute on the cases
   the harness observed on the implementation. *)
From Coq Require Import List Arith Bool.
Import ListNotations.
From KV Require Import Model.Limit.

Record case := Case {
  ckind : nat;                       (* 0 LimitPlan 1 FinalLimitPlan 2 select 3 ordered 4 aggregated 5 delete 6 aggregated without GROUP BY 7 range scan 8 point reads 9 delete over point reads 10 fields with an alias used in WHERE 11 aggregate under ORDER BY 12 groups interleaved in key order *)
  cB : nat; cstart : nat; ccount : nat;
  cbs : list (list nat);             (* the child's batches: rows identified by their index *)
  obs_batch : option (list nat);     (* rows the implementation returned, batch mode *)
  obs_row : option (list nat)        (* ... row mode (None: mode not applicable) *)
}.

Definition eq_natlist (a b : list nat) : bool :=
  if list_eq_dec Nat.eq_dec a b then true else false.

Definition spec (c : case) : list nat :=
  firstn (ccount c) (skipn (cstart c) (concat (cbs c))).

Definition model_batch (c : case) : option (list nat) :=
  option_map (@concat nat) (drain_batch true (cB c) (cstart c) (ccount c) (cbs c)).
Definition model_row (c : case) : option (list nat) :=
  drain_row (cstart c) (ccount c) (concat (cbs c)).

(* 0 = agree; 1 = model and implementation differ (correspondence broken);
   2 = the implementation's own output is not the slice (property violated on this input) *)
Definition check1 (obs model : option (list nat)) (sp : list nat) : nat :=
  match obs with
  | None => 0
  | Some o =>
      if eq_natlist o sp then
        match model with Some m => if eq_natlist m o then 0 else 1 | None => 1 end
      else 2
  end.

Definition check_case (c : case) : nat :=
  Nat.max (check1 (obs_batch c) (model_batch c) (spec c))
          (check1 (obs_row c) (model_row c) (spec c)).

Fixpoint mism_from (i : nat) (cs : list case) : list (nat * nat) :=
  match cs with
  | [] => []
  | c :: cs' => match check_case c with
                | 0 => mism_from (S i) cs'
                | k => (i, k) :: mism_from (S i) cs'
                end
  end.
Definition mismatches (cs : list case) : list (nat * nat) := mism_from 0 cs.

(* ---------------------------------------------------------------- machine integers (appended)
   CaseM: the same kinds of cases run through the MACHINE-INTEGER twin Model/Limit64.v with the
   offsets / counts as they are (nothing clamped); CaseP: the LIMIT numerals of a statement text
   through the lexer + parser twins against the Start / Count fields of the plan BuildPlan built.
   Both are judged by Corr/C08M.v (codes there).  The case files define their list with the type
   [xcase]; the cases above are embedded ([Case] is [XCase] there). *)
From KV Require Import Corr.C08M.

Inductive xcase :=
  | XBase (c : case)
  | CaseM (m : mcase)
  | CaseP (p : pcase).
Definition XCase (k B s n : nat) (bs : list (list nat)) (ob orow : option (list nat)) : xcase :=
  XBase (Case k B s n bs ob orow).

Definition xcheck_case (c : xcase) : nat :=
  match c with
  | XBase c => check_case c
  | CaseM m => check_mcase m
  | CaseP p => check_pcase p
  end.

Fixpoint xmism_from (i : nat) (cs : list xcase) : list (nat * nat) :=
  match cs with
  | [] => []
  | c :: cs' => match xcheck_case c with
                | 0 => xmism_from (S i) cs'
                | k => (i, k) :: xmism_from (S i) cs'
                end
  end.
Definition xmismatches (cs : list xcase) : list (nat * nat) := xmism_from 0 cs.
