(* Corr/C08M.v -- correspondence for the MACHINE-INTEGER twin of the limit nodes (Model/Limit64.v)
   and for the parser's reading of the LIMIT numerals, evaluated by vm_compute on what the harness
   observed on the implementation.  Offsets and counts are handed over as they are (binary [Z], up
   to 2^63-1 and beyond for the numerals): nothing is clamped.

   MCase: one limit node (scripted child) or one whole statement, as in Corr/C08.v, same kinds:
     0 LimitPlan  1 FinalLimitPlan  2 select  3 ordered  4 aggregated  5 delete  6 aggregated without
     GROUP BY  7 range scan  8 point reads  9 delete over point reads  10 alias  11 aggregate under
     ORDER BY  12 interleaved groups.
     kinds 4, 6, 12: the LIMIT is pushed into the AggregatePlan  -> agg_drain_batch64 / agg_drain_row64
                     with the fields agg_fields64 (Some (start, count)) false
     kinds 5, 9    : DeletePlan over LimitPlan                  -> delete_limit64 (keys handed to
                     BatchDelete and the count the statement reports)
     otherwise     : LimitPlan / FinalLimitPlan                 -> drain_batch64 / drain_row64
   codes: 0 agree; 1 the machine twin and the implementation differ; 2 the implementation's rows
   are not rows start .. start+count-1 of the unlimited result; 3 (delete) the reported number of
   deleted pairs is not the number of keys deleted.

   PCase: one statement text with a LIMIT clause given to NewOptimizer(q).BuildPlan(store): the
   SyntaxError position, or the Start / Count (Start / Limit) fields of the limit node found in the
   plan; compared with lexer twin + StmtParser.parse_statement (+ agg_fields64).
   codes: 0 agree; 1 differ; 4 an accepted LIMIT whose Start or Count is outside 0 .. 2^63-1 (the
   premise of limit_machine_slice would not be guaranteed by the parser); 99 outside the lexer
   twin's model. *)
From Coq Require Import List ZArith Bool String Arith.
Import ListNotations.
From KV Require Import Base.Num Model.Token Model.Lexer Model.StmtParser Model.Limit64.

Record mcase := MCase {
  mkind : nat;
  mB : Z; mstart : Z; mcount : Z;
  mbs : list (list nat);             (* the child's batches: rows identified by their index *)
  mobs_batch : option (list nat);    (* rows the implementation returned, batch mode *)
  mobs_row : option (list nat);      (* ... row mode (None: mode not applicable) *)
  mobs_del : option Z                (* DELETE: the number the statement reported *)
}.

Definition eq_natlist (a b : list nat) : bool :=
  if list_eq_dec Nat.eq_dec a b then true else false.

(* the slice, with offsets / counts beyond the end cut to len+1 (Properties/C08.v slice_saturates) *)
Definition cut (z : Z) (len : nat) : nat :=
  if (z <? 0)%Z then 0 else if (Z.of_nat len <? z)%Z then S len else Z.to_nat z.

Definition mspec (c : mcase) : list nat :=
  let flat := List.concat (mbs c) in
  firstn (cut (mcount c) (List.length flat)) (skipn (cut (mstart c) (List.length flat)) flat).

Definition is_agg (k : nat) : bool := (k =? 4) || (k =? 6) || (k =? 12).
Definition is_del (k : nat) : bool := (k =? 5) || (k =? 9).

Definition mmodel_batch (c : mcase) : option (list nat) :=
  if is_agg (mkind c) then
    let '(s, n) := agg_fields64 (Some (mstart c, mcount c)) false in
    option_map (@List.concat nat) (agg_drain_batch64 (mB c) s n (mbs c))
  else if is_del (mkind c) then
    option_map (fun r => List.concat (fst r)) (delete_limit64 (mB c) (mstart c) (mcount c) (mbs c))
  else option_map (@List.concat nat) (drain_batch64 (mB c) (mstart c) (mcount c) (mbs c)).

Definition mmodel_row (c : mcase) : option (list nat) :=
  if is_agg (mkind c) then
    let '(s, n) := agg_fields64 (Some (mstart c, mcount c)) false in
    agg_drain_row64 s n (List.concat (mbs c))
  else drain_row64 (mstart c) (mcount c) (List.concat (mbs c)).

Definition mcheck1 (obs model : option (list nat)) (sp : list nat) : nat :=
  match obs with
  | None => 0
  | Some o =>
      if eq_natlist o sp then
        match model with Some m => if eq_natlist m o then 0 else 1 | None => 1 end
      else 2
  end.

Definition mcheck_del (c : mcase) : nat :=
  match mobs_del c with
  | None => 0
  | Some k =>
      match mobs_batch c with
      | None => 0
      | Some o =>
          if negb (k =? Z.of_nat (List.length o))%Z then 3
          else match delete_limit64 (mB c) (mstart c) (mcount c) (mbs c) with
               | Some (_, k') => if (k =? k')%Z then 0 else 1
               | None => 1
               end
      end
  end.

Definition check_mcase (c : mcase) : nat :=
  Nat.max (Nat.max (mcheck1 (mobs_batch c) (mmodel_batch c) (mspec c))
                   (mcheck1 (mobs_row c) (mmodel_row c) (mspec c)))
          (mcheck_del c).

(* ------------------------------------------------------------------ the LIMIT numerals *)

Inductive pobs :=
  | PObsErr (p : Z)                            (* SyntaxError{Pos} from BuildPlan *)
  | PObsLimit (start count : Z)                (* LimitPlan / FinalLimitPlan {Start, Count} in the plan *)
  | PObsAgg (start limit : Z) (fin : option (Z * Z))  (* AggregatePlan{Start, Limit}; the FinalLimitPlan{Start, Count} above it, if any *)
  | PObsNone.                                  (* accepted, no limit node (EmptyResultPlan / RemovePlan ...) *)

Record pcase := PCase {
  ptext : string;
  pagg : bool;          (* the statement has aggregates (an AggregatePlan is built) *)
  porder : bool;        (* ... and an ORDER BY *)
  pobserved : pobs
}.

Definition stmt_limit (s : stmt) : option limit_t :=
  match s with
  | StSelect x => s_limit x
  | StDelete _ _ _ l => l
  | _ => None
  end.

Definition in_range (z : Z) : bool := ((0 <=? z) && (z <? 2 ^ 63))%Z.

Definition check_pcase (c : pcase) : nat :=
  if lex_oom (ptext c) then 99
  else
    match parse_statement (lex (ptext c)), pobserved c with
    | SErr p, PObsErr p' => if (p =? p')%Z then 0 else 1
    | SOk s, PObsLimit st cn =>
        match stmt_limit s with
        | Some l =>
            if negb (in_range (l_start l) && in_range (l_count l)) then 4
            else if pagg c then 1
            else if ((l_start l =? st) && (l_count l =? cn))%Z then 0 else 1
        | None => 1
        end
    | SOk s, PObsAgg st lm fin =>
        if negb (pagg c) then 1
        else
          let lim := match stmt_limit s with Some l => Some (l_start l, l_count l) | None => None end in
          let '(s', n') := agg_fields64 lim (porder c) in
          let fin' := if porder c then lim else None in
          Nat.max
          match lim with
          | Some (a, b) => if negb (in_range a && in_range b) then 4 else 0
          | None => 0
          end
          (if ((s' =? st) && (n' =? lm))%Z &&
              match fin, fin' with
              | Some (a, b), Some (a', b') => ((a =? a') && (b =? b'))%Z
              | None, None => true
              | _, _ => false
              end then 0 else 1)
    | SOk s, PObsNone => match stmt_limit s with None => 0 | Some _ => 1 end
    | _, _ => 1
    end.
