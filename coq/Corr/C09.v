(* Corr/C09.v -- correspondence and spec verdict for C09, evaluated by vm_compute on the cases
   the harness observed on the implementation (AggregatePlan, node level and statement level).

   A [Case] carries the plan (fields, limit), the oracle values of every scanned pair, the sizes
   of the child's batches, and the rows the implementation returned in row mode and in batch
   mode.  An [LCase] carries, instead of values, the OUTCOME of every evaluation on every pair
   (a value, or "fails"): the twin then decides with the evaluation discipline of
   Model/AggregateLazy.v which of them the plan asks for (a failing evaluation it does not ask for
   is harmless, one it asks for fails the statement).  Both kinds are run through the LAZY twin
   ([lrun_row] / [lrun_batch]: rows are completed as Next / Batch ask for them).  Codes:
     0  twin = implementation and the implementation's rows satisfy the specification
     1  twin <> implementation (correspondence broken)
     2  the implementation's rows are not one row per distinct GROUP BY tuple in first-occurrence
        order showing that tuple's values (number of rows / non-aggregate columns differ)
     3  an aggregate column differs from its definition over the group's pairs
     4  the statement fails where the specification defines a result, or succeeds where the
        specification fails (x / 0).  Row mode is judged against Spec/GroupLazy.v
        [spec_result_lazy] exactly (it fails iff one of the first start + count groups is
        undefined); batch mode completes whole runs of PlanBatchSize groups, so there: rows must be
        the rows of [spec_result_lazy], and an error needs an undefined group somewhere
        ([spec_result] fails).
   The specification side (Spec/Group.v) partitions by equality of the TYPED values (text as
   bytes, integers, floats by their bits, booleans); the twin by the rendered group key. *)
From Coq Require Import List String ZArith Bool Arith Floats.
From KV Require Import Base.Bytes Model.Value Model.AggregateLazy.
(* after Model.Value: value, VBytes, f_of_Z, ... below are Spec/Group.v's and Model/AggregateFloat.v's *)
From KV Require Import Spec.Group Spec.GroupLazy Model.Aggregate Model.AggregateFloat.
Import ListNotations.

Definition rows := list (list fvalue).

(* what the harness recorded for one scanned pair of an [LCase]: per GROUP BY expression, per
   non-aggregate field, per aggregate argument the value, or None where the evaluation fails *)
Record lpobs := LPObs {
  l_g : list (option fvalue);
  l_k : list (option fvalue);
  l_a : list (option fvalue)
}.

Inductive case :=
  | Case (c_plan : fplan)
         (c_B : nat)                              (* PlanBatchSize *)
         (c_chunks : list nat)                    (* sizes of the child's batches (batch mode) *)
         (c_pairs : list fpobs)                   (* scanned pairs that passed WHERE, in scan order *)
         (c_obs_row : option (option (list (list fvalue))))    (* None: mode not run; Some None: execution error *)
         (c_obs_batch : option (option (list (list fvalue))))
  | LCase (c_plan : fplan) (c_B : nat) (c_chunks : list nat)
          (c_lpairs : list lpobs)                 (* outcome of every evaluation on every scanned pair *)
          (c_obs_row : option (option (list (list fvalue))))
          (c_obs_batch : option (option (list (list fvalue)))).

(* observable equality of values: string and []byte are identified, floats by their bits *)
Definition val_eqb (a b : fvalue) : bool := value_eqb f_same a b.
Definition row_eqb (a b : list fvalue) : bool := list_eqb val_eqb a b.
Definition rows_eqb (a b : rows) : bool := list_eqb row_eqb a b.

Definition spec64 (p : fplan) (pairs : list fpobs) : option rows :=
  @spec_result float PrimFloat.add PrimFloat.sub PrimFloat.mul PrimFloat.div f_ltb f_is0 f_of_Z f_to_Z
               f_fmt f_json f_parse parse_int f_json_s val_eqb p pairs.

Fixpoint split_sizes {X : Type} (sizes : list nat) (l : list X) : list (list X) :=
  match sizes with
  | [] => match l with [] => [] | _ => [l] end
  | n :: sizes' => firstn n l :: split_sizes sizes' (skipn n l)
  end.

Definition is_key (f : field float) : bool := match f with FKey _ => true | _ => false end.
Fixpoint key_cols (fs : list (field float)) (r : list fvalue) : list fvalue :=
  match fs, r with
  | f :: fs', v :: r' => if is_key f then v :: key_cols fs' r' else key_cols fs' r'
  | _, _ => []
  end.

Definition lspec64 (p : fplan) (pairs : list fpobs) : option rows :=
  @spec_result_lazy float PrimFloat.add PrimFloat.sub PrimFloat.mul PrimFloat.div f_ltb f_is0 f_of_Z f_to_Z
                    f_fmt f_json f_parse parse_int f_json_s val_eqb p pairs.

(* the lazy twin on binary64 *)
Definition opt_of {A} (r : res A) : option A := match r with Ok a => Some a | _ => None end.
Definition lrun_row64 (p : fplan) (pairs : list fpobs) : option rows :=
  opt_of (@lrun_row float PrimFloat.add PrimFloat.sub PrimFloat.mul PrimFloat.div f_ltb f_is0 f_of_Z f_to_Z
                    f_fmt f_bits f_json f_parse f_json_s p pairs).
Definition lrun_batch64 (p : fplan) (B : nat) (chunks : list (list fpobs)) : option rows :=
  opt_of (@lrun_batch float PrimFloat.add PrimFloat.sub PrimFloat.mul PrimFloat.div f_ltb f_is0 f_of_Z f_to_Z
                      f_fmt f_bits f_json f_parse f_json_s p B chunks).

Definition rows_verdict (p : fplan) (o s : rows) : nat :=
  if rows_eqb o s then 0
  else if Nat.eqb (List.length o) (List.length s)
          && rows_eqb (map (key_cols (pl_fields p)) o) (map (key_cols (pl_fields p)) s)
       then 3 else 2.

(* row mode: exactly the lazy reference result *)
Definition verdict_row (p : fplan) (obs lsp : option rows) : nat :=
  match obs, lsp with
  | None, None => 0
  | None, Some _ => 4
  | Some _, None => 4
  | Some o, Some s => rows_verdict p o s
  end.

(* batch mode: rows must be the lazy reference rows; an error needs an undefined group *)
Definition verdict_batch (p : fplan) (obs lsp sp : option rows) : nat :=
  match obs with
  | Some o => match lsp with Some s => rows_verdict p o s | None => 4 end
  | None => match sp with None => 0 | Some _ => 4 end
  end.

Definition same_outcome (a b : option rows) : bool :=
  match a, b with
  | None, None => true
  | Some x, Some y => rows_eqb x y
  | _, _ => false
  end.

Definition check1 (v : nat) (obs : option (option rows)) (model : option rows) : nat :=
  match obs with
  | None => 0
  | Some o => match v with
              | 0 => if same_outcome model o then 0 else 1
              | k => k
              end
  end.

Definition check_full (p : fplan) (B : nat) (chunks : list nat) (pairs : list fpobs)
           (orow obatch : option (option rows)) : nat :=
  let sp := spec64 p pairs in
  let lsp := lspec64 p pairs in
  Nat.max
    (check1 (match orow with Some o => verdict_row p o lsp | None => 0 end) orow (lrun_row64 p pairs))
    (check1 (match obatch with Some o => verdict_batch p o lsp sp | None => 0 end) obatch
            (lrun_batch64 p B (split_sizes chunks pairs))).

(* ---------------------------------------------------------------- recorded outcomes, lazily *)
Definition res_of {A} (o : option A) : res A := match o with Some a => Ok a | None => Err EOther end.

Definition le_g (o : lpobs) : res (list fvalue) := res_of (seq_opt (l_g o)).
Definition le_k (o : lpobs) : res (list fvalue) := res_of (seq_opt (l_k o)).
Fixpoint need_from (need : nat -> bool) (i : nat) (a : list (option fvalue)) : res (list fvalue) :=
  match a with
  | [] => Ok []
  | x :: a' =>
      if need i then
        match x with
        | Some v => do vs <- need_from need (S i) a'; Ok (v :: vs)
        | None => Err EOther
        end
      else do vs <- need_from need (S i) a'; Ok (VNil :: vs)
  end.
Definition le_a (need : nat -> bool) (o : lpobs) : res (list fvalue) := need_from need 0 (l_a o).
Fixpoint le_batch_g (ch : list lpobs) : res (list (list fvalue)) :=
  match ch with
  | [] => Ok []
  | o :: ch' => do g <- le_g o; do gs <- le_batch_g ch'; Ok (g :: gs)
  end.

(* prepare's evaluations on all pairs / prepareBatch's on the child's chunks *)
Definition force_row (p : fplan) (lp : list lpobs) : res (list fpobs) :=
  do r <- smap_res (lobs_row f_fmt f_bits le_g le_k le_a p) [] lp; Ok (fst r).
Fixpoint force_chunks (p : fplan) (t : seen) (chunks : list (list lpobs)) : res (list (list fpobs)) :=
  match chunks with
  | [] => Ok []
  | ch :: chunks' =>
      do r <- lobs_batch f_fmt f_bits le_batch_g le_k le_a p t ch;
      do rest <- force_chunks p (snd r) chunks';
      Ok (fst r :: rest)
  end.

Definition check_lazy (p : fplan) (B : nat) (chunks : list nat) (lp : list lpobs)
           (orow obatch : option (option rows)) : nat :=
  let cr :=
    match orow with
    | None => 0
    | Some o =>
        match force_row p lp with
        | Ok pairs => check1 (verdict_row p o (lspec64 p pairs)) orow (lrun_row64 p pairs)
        | _ => match o with None => 0 | Some _ => 1 end     (* an evaluation the plan asks for fails *)
        end
    end in
  let cb :=
    match obatch with
    | None => 0
    | Some o =>
        match force_chunks p [] (split_sizes chunks lp) with
        | Ok cs =>
            let pairs := List.concat cs in
            check1 (verdict_batch p o (lspec64 p pairs) (spec64 p pairs)) obatch (lrun_batch64 p B cs)
        | _ => match o with None => 0 | Some _ => 1 end
        end
    end in
  Nat.max cr cb.

Definition check_case (c : case) : nat :=
  match c with
  | Case p B chunks pairs orow obatch => check_full p B chunks pairs orow obatch
  | LCase p B chunks lp orow obatch => check_lazy p B chunks lp orow obatch
  end.

Fixpoint mism_from (i : nat) (cs : list case) : list (nat * nat) :=
  match cs with
  | [] => []
  | c :: cs' => match check_case c with
                | 0 => mism_from (S i) cs'
                | k => (i, k) :: mism_from (S i) cs'
                end
  end.
Definition mismatches (cs : list case) : list (nat * nat) := mism_from 0 cs.

(* short constructors for the harness's printer *)
Definition vB (s : string) : fvalue := VBytes s.
Definition vS (s : string) : fvalue := VStr s.
Definition vI (z : Z) : fvalue := VInt z.
Definition vF (bits : Z) : fvalue := VFlt (fb bits).
Definition vT : fvalue := VBool true.
Definition vX : fvalue := VBool false.
Definition vN : fvalue := VNil.
Definition mkO (g k a : list fvalue) : fpobs := PObs g k a.
Definition mkL (g k a : list (option fvalue)) : lpobs := LPObs g k a.
Definition ok (v : fvalue) : option fvalue := Some v.
Definition er : option fvalue := None.
Definition fK (k : nat) : field float := FKey k.
Definition fA (e : aexpr float) (calls : list call) : field float := FAgg e calls.
Definition eC (i : nat) : aexpr float := AECall i.
Definition eN (z : Z) : aexpr float := AEInt z.
Definition eF (bits : Z) : aexpr float := AEFlt (fb bits).
Definition eB (o : arith) (l r : aexpr float) : aexpr float := AEBin o l r.
