(* Corr/C09.v -- correspondence and spec verdict for C09, evaluated by vm_compute on the cases
   the harness observed on the implementation (AggregatePlan, node level and statement level).

   A case carries the plan (fields, limit), the oracle values of every scanned pair, the sizes
   of the child's batches, and the rows the implementation returned in row mode and in batch
   mode.  Codes:
     0  twin = implementation and the implementation's rows satisfy the specification
     1  twin <> implementation (correspondence broken)
     2  the implementation's rows are not one row per distinct GROUP BY tuple in first-occurrence
        order showing that tuple's values (number of rows / non-aggregate columns differ)
     3  an aggregate column differs from its definition over the group's pairs
     4  the statement fails where the specification defines a result, or succeeds where the
        specification fails (x / 0)
   The specification side (Spec/Group.v) partitions by equality of the TYPED values (text as
   bytes, integers, floats by their bits, booleans); the twin by the rendered group key. *)
From Coq Require Import List String ZArith Bool Arith Floats.
From KV Require Import Base.Bytes Spec.Group Model.Aggregate Model.AggregateFloat.
Import ListNotations.

Definition rows := list (list fvalue).

Record case := Case {
  c_plan : fplan;
  c_B : nat;                              (* PlanBatchSize *)
  c_chunks : list nat;                    (* sizes of the child's batches (batch mode) *)
  c_pairs : list fpobs;                   (* scanned pairs that passed WHERE, in scan order *)
  c_obs_row : option (option rows);       (* None: mode not run; Some None: execution error *)
  c_obs_batch : option (option rows)
}.

(* observable equality of values: string and []byte are identified, floats by their bits *)
Definition val_eqb (a b : fvalue) : bool := value_eqb f_same a b.
Definition row_eqb (a b : list fvalue) : bool := list_eqb val_eqb a b.
Definition rows_eqb (a b : rows) : bool := list_eqb row_eqb a b.

Definition spec64 (p : fplan) (pairs : list fpobs) : option rows :=
  @spec_result float PrimFloat.add PrimFloat.sub PrimFloat.mul PrimFloat.div f_ltb f_is0 f_of_Z f_to_Z
               f_fmt f_json f_parse parse_int f_json_s val_eqb p pairs.

Fixpoint split_sizes {X : Type} (sizes : list nat) (l : list X) : list (list X) :=
  match sizes with
  | [] => match l with [] => [] | _ => [l] end
  | n :: sizes' => firstn n l :: split_sizes sizes' (skipn n l)
  end.

Definition is_key (f : field float) : bool := match f with FKey _ => true | _ => false end.
Fixpoint key_cols (fs : list (field float)) (r : list fvalue) : list fvalue :=
  match fs, r with
  | f :: fs', v :: r' => if is_key f then v :: key_cols fs' r' else key_cols fs' r'
  | _, _ => []
  end.

Definition verdict (p : fplan) (obs : option rows) (sp : option rows) : nat :=
  match obs, sp with
  | None, None => 0
  | None, Some _ => 4
  | Some _, None =>
      (* a failing group (x / 0): Go completes the rows lazily, so with LIMIT the failing row
         need not be reached; without LIMIT the error must surface *)
      match pl_limit p with Some _ => 0 | None => 4 end
  | Some o, Some s =>
      if rows_eqb o s then 0
      else if Nat.eqb (List.length o) (List.length s)
              && rows_eqb (map (key_cols (pl_fields p)) o) (map (key_cols (pl_fields p)) s)
           then 3 else 2
  end.

Definition same_outcome (a b : option rows) : bool :=
  match a, b with
  | None, None => true
  | Some x, Some y => rows_eqb x y
  | _, _ => false
  end.

Definition check1 (p : fplan) (obs : option (option rows)) (model sp : option rows) : nat :=
  match obs with
  | None => 0
  | Some o =>
      match verdict p o sp with
      | 0 => match sp, o with
             | None, Some _ => 0
             | _, _ => if same_outcome model o then 0 else 1
             end
      | k => k
      end
  end.

Definition check_case (c : case) : nat :=
  let sp := spec64 (c_plan c) (c_pairs c) in
  Nat.max
    (check1 (c_plan c) (c_obs_row c) (run_row64 true true (c_plan c) (c_pairs c)) sp)
    (check1 (c_plan c) (c_obs_batch c)
            (run_batch64 true true (c_plan c) (c_B c) (split_sizes (c_chunks c) (c_pairs c))) sp).

Fixpoint mism_from (i : nat) (cs : list case) : list (nat * nat) :=
  match cs with
  | [] => []
  | c :: cs' => match check_case c with
                | 0 => mism_from (S i) cs'
                | k => (i, k) :: mism_from (S i) cs'
                end
  end.
Definition mismatches (cs : list case) : list (nat * nat) := mism_from 0 cs.

(* short constructors for the harness's printer *)
Definition vB (s : string) : fvalue := VBytes s.
Definition vS (s : string) : fvalue := VStr s.
Definition vI (z : Z) : fvalue := VInt z.
Definition vF (bits : Z) : fvalue := VFlt (fb bits).
Definition vT : fvalue := VBool true.
Definition vX : fvalue := VBool false.
Definition vN : fvalue := VNil.
Definition mkO (g k a : list fvalue) : fpobs := PObs g k a.
Definition fK (k : nat) : field float := FKey k.
Definition fA (e : aexpr float) (calls : list call) : field float := FAgg e calls.
Definition eC (i : nat) : aexpr float := AECall i.
Definition eN (z : Z) : aexpr float := AEInt z.
Definition eF (bits : Z) : aexpr float := AEFlt (fb bits).
Definition eB (o : arith) (l r : aexpr float) : aexpr float := AEBin o l r.
