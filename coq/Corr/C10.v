(* Corr/C10.v -- correspondence for C10: the row evaluator twin against Expression.Execute. *)
From Coq Require Import List String ZArith Bool.
Import ListNotations.
From KV Require Import Base.Bytes Model.Ast Model.Value Corr.EvalCommon.

Record case := Case { cexpr : expr; crows : list (bytes * bytes * obs) }.

Definition check_case (c : case) : nat := check_eval (cexpr c) (crows c).

Fixpoint mism_from (i : nat) (cs : list case) : list (nat * nat) :=
  match cs with
  | [] => []
  | c :: cs' => match check_case c with
                | 0 => mism_from (S i) cs'
                | k => (i, k) :: mism_from (S i) cs'
                end
  end.
Definition mismatches (cs : list case) := mism_from 0 cs.

(* JCase: an access chain over json(...) evaluated in row and batch mode, compared with
   Model/Json.v by Corr/C10Json.v (codes there).  The case files define their list with the
   type [xcase]; the cases above are embedded under the name [Case]. *)
From KV Require Import Corr.C10Json.

Inductive xcase :=
  | XBase (c : case)
  | XJson (j : jcase).
Definition XCase (e : expr) (rows : list (bytes * bytes * obs)) : xcase := XBase (Case e rows).
Definition XJCase (e : expr) (rows : list (bytes * bytes * jobs)) (b : jbobs) : xcase := XJson (JCase e rows b).

Definition xcheck_case (c : xcase) : nat :=
  match c with
  | XBase b => check_case b
  | XJson j => check_jcase j
  end.

Fixpoint xmism_from (i : nat) (cs : list xcase) : list (nat * nat) :=
  match cs with
  | [] => []
  | c :: cs' => match xcheck_case c with
                | 0 => xmism_from (S i) cs'
                | k => (i, k) :: xmism_from (S i) cs'
                end
  end.
Definition xmismatches (cs : list xcase) : list (nat * nat) := xmism_from 0 cs.
