(* Corr/C10.v -- correspondence for C10: the row evaluator twin against Expression.Execute. *)
From Coq Require Import List String ZArith Bool.
Import ListNotations.
From KV Require Import Base.Bytes Model.Ast Model.Value Corr.EvalCommon.

Record case := Case { cexpr : expr; crows : list (bytes * bytes * obs) }.

Definition check_case (c : case) : nat := check_eval (cexpr c) (crows c).

Fixpoint mism_from (i : nat) (cs : list case) : list (nat * nat) :=
  match cs with
  | [] => []
  | c :: cs' => match check_case c with
                | 0 => mism_from (S i) cs'
                | k => (i, k) :: mism_from (S i) cs'
                end
  end.
Definition mismatches (cs : list case) := mism_from 0 cs.
