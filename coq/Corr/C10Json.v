(* Corr/C10Json.v -- correspondence for json() and JSON navigation (C10): Model/Json.v's
   [jeval] / [jeval_batch] against Expression.Execute / ExecuteBatch on access chains over
   json(...).  Values are compared by content: text as bytes, numbers by kind and value (a JSON
   number: the float64 of its numeral, through the same ParseFloat stand-in as float()),
   arrays element by element, objects as finite maps (same names, same values; the order
   of a Go map is not observable).

   Codes: 0 agree; 1 the twin and the implementation differ in an error (class / position), or
   one fails where the other does not, or the batch column differs in shape; 2 the twin computes
   a value (the documented one: Properties/C10.v json_navigate) and the implementation returns
   another; 99 outside the model (escapes, bytes >= 0x80, exponents, numerals beyond the float
   oracle). *)
From Coq Require Import List String ZArith Bool Arith.
Import ListNotations.
From KV Require Import Base.Bytes Base.Num Base.Flt Model.Ast Model.Value Model.Eval Model.EvalVec
                       Model.Json Corr.EvalCommon.

Inductive jcanon :=
  | JCText (b : bytes) | JCInt (z : Z) | JCFlt (bits : Z) | JCBool (b : bool) | JCNil
  | JCList (l : list jcanon)
  | JCObj (m : list (bytes * jcanon))      (* members sorted by name, names distinct *)
  | JCOther.

Inductive jobs :=
  | JOVal (c : jcanon)
  | JOErr (cls : nat) (pos : Z)            (* 1 ExecuteError, 2 SyntaxError, 3 any other error *)
  | JOPanic.

(* what ExecuteBatch returned for the whole chunk *)
Inductive jbobs :=
  | JBVals (cs : list jcanon)
  | JBErr (cls : nat) (pos : Z)
  | JBPanic
  | JBNone.                                (* batch mode not observed for this case *)

Fixpoint jcanon_of_canon (c : canon) : jcanon :=
  match c with
  | CText b => JCText b
  | CInt z => JCInt z
  | CFlt b => JCFlt b
  | CBool b => JCBool b
  | CList l => JCList (map jcanon_of_canon l)
  | CNil => JCNil
  | COther => JCOther
  end.

Fixpoint jcanon_eqb (a b : jcanon) : bool :=
  match a, b with
  | JCText x, JCText y => String.eqb x y
  | JCInt x, JCInt y => Z.eqb x y
  | JCFlt x, JCFlt y => Z.eqb x y
  | JCBool x, JCBool y => Bool.eqb x y
  | JCNil, JCNil => true
  | JCOther, JCOther => true
  | JCList x, JCList y =>
      (fix go (x y : list jcanon) : bool :=
         match x, y with
         | [], [] => true
         | a :: x', b :: y' => jcanon_eqb a b && go x' y'
         | _, _ => false
         end) x y
  | JCObj x, JCObj y =>
      (fix go (x y : list (bytes * jcanon)) : bool :=
         match x, y with
         | [], [] => true
         | (k, a) :: x', (k', b) :: y' => String.eqb k k' && jcanon_eqb a b && go x' y'
         | _, _ => false
         end) x y
  | _, _ => false
  end.

Fixpoint assoc_c (m : list (bytes * jcanon)) (k : bytes) : option jcanon :=
  match m with
  | [] => None
  | (n, c) :: m' => if String.eqb n k then Some c else assoc_c m' k
  end.

(* 0 same content, 2 different, 99 a numeral outside the float oracle *)
Fixpoint json_match (j : json) (c : jcanon) {struct j} : nat :=
  match j, c with
  | JNull, JCNil => 0
  | JBool b, JCBool b' => if Bool.eqb b b' then 0 else 2
  | JStr s, JCText t => if String.eqb s t then 0 else 2
  | JNum t, JCFlt bits =>
      match f_parse prim_fops t with
      | PF_ok f => if Z.eqb (f_bits prim_fops f) bits then 0 else 2
      | _ => 99
      end
  | JNum t, _ => match f_parse prim_fops t with PF_ok _ => 2 | _ => 99 end
  | JArr l, JCList cl =>
      (fix go (l : list json) (cl : list jcanon) : nat :=
         match l, cl with
         | [], [] => 0
         | x :: l', y :: cl' => worst [json_match x y; go l' cl']
         | _, _ => 2
         end) l cl
  | JObj m, JCObj cm =>
      if negb (Nat.eqb (List.length m) (List.length cm)) then 2
      else (fix go (m : list (string * json)) : nat :=
              match m with
              | [] => 0
              | (k, x) :: m' =>
                  worst [match assoc_c cm k with Some y => json_match x y | None => 2 end; go m']
              end) m
  | _, _ => 2
  end.

Definition jv_match (v : jv prim_fops) (c : jcanon) : nat :=
  match v with
  | JV x => if jcanon_eqb (jcanon_of_canon (canon_of prim_fops x)) c then 0 else 2
  | JM m => json_match (JObj m) c
  | JA l => json_match (JArr l) c
  end.

Definition cmp_err (e : err) (cls : nat) (q : Z) : nat :=
  match e with
  | EExec p => if Nat.eqb cls 1 && Z.eqb (Z.of_nat p) q then 0 else 1
  | ESyntax p => if Nat.eqb cls 2 && Z.eqb (Z.of_nat p) q then 0 else 1
  | EOther => if Nat.eqb cls 3 then 0 else 1
  end.

Definition cmp_jobs (r : res (jv prim_fops)) (o : jobs) : nat :=
  match r with
  | OutOfModel => 99
  | Panic => match o with JOPanic => 0 | _ => 1 end
  | Err e => match o with JOErr cls q => cmp_err e cls q | _ => 1 end
  | Ok v => match o with JOVal c => jv_match v c | _ => 2 end
  end.

Fixpoint cmp_col (vs : list (jv prim_fops)) (cs : list jcanon) : nat :=
  match vs, cs with
  | [], [] => 0
  | v :: vs', c :: cs' => worst [jv_match v c; cmp_col vs' cs']
  | _, _ => 1
  end.

Definition cmp_jbobs (r : res (list (jv prim_fops))) (o : jbobs) : nat :=
  match o with
  | JBNone => 0
  | _ =>
    match r with
    | OutOfModel => 99
    | Panic => match o with JBPanic => 0 | _ => 1 end
    | Err e => match o with JBErr cls q => cmp_err e cls q | _ => 1 end
    | Ok vs => match o with JBVals cs => cmp_col vs cs | _ => 2 end
    end
  end.

Record jcase := JCase { jexpr : expr; jrows : list (bytes * bytes * jobs); jbatch : jbobs }.

Definition jeval_prim := jeval prim_fops re_oom.
Definition jeval_batch_prim := jeval_batch prim_fops re_oom.

Definition check_jcase (c : jcase) : nat :=
  worst (cmp_jbobs (jeval_batch_prim (jexpr c) (map (fun r => match r with (k, v, _) => (k, v) end) (jrows c)))
                   (jbatch c)
         :: map (fun r => match r with (k, v, o) => cmp_jobs (jeval_prim k v (jexpr c)) o end) (jrows c)).
