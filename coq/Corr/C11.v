(* Corr/C11.v -- correspondence and spec verdict for C11 (DELETE removes exactly the pairs its
   WHERE and LIMIT select, nothing else), evaluated by vm_compute on the cases the harness
   observed on the implementation.

   A delete case = one DELETE statement on one prior state at one batch size, polled in one
   mode.  The plan is read off the built plan's public fields (DeletePlan over a scan, over a
   LimitPlan over a scan, or the RemovePlan shortcut); the WHERE filter is handed over as the
   keys of the prior state whose pair passes FilterExec.Filter (the implementation's own,
   public, per-pair verdict); observed: outcome class, storage call log, final state, and the
   keys `select * where P [limit]` returns on a clone of the prior state.
   A history case = a sequence of put / remove / delete / select statements on one storage
   with the state observed after every statement.
   A text case ([KText], below) starts from the QUERY TEXT: the whole pipeline of
   Model/PipelineW.v (delete_text) against kvql.NewOptimizer(q).BuildPlan(store) polled until nil. *)
From Coq Require Import List String Bool Arith ZArith.
Import ListNotations.
From KV Require Import Base.Bytes Base.Flt Model.Ast Model.Value Model.Fold Model.Storage Model.Write Model.ScanIO
                       Model.FilterOpt Model.ScanSem Model.Delete Model.Pipeline Model.PipelineW Corr.EvalCommon.
Local Open Scope list_scope.
Local Open Scope nat_scope.

Record dcase := DCase {
  cstore : store;                      (* prior state (sorted) *)
  cmatch : list bytes;                 (* keys whose pair passes the WHERE filter *)
  cplan : dplan;                       (* the built plan *)
  cexpr : option expr;                 (* the WHERE tree after constant folding, when the Coq AST has it *)
  climit : option (nat * nat);         (* LIMIT start, count of the statement *)
  cB : nat;
  cmode : nat;                         (* 0 row 1 batch *)
  obs_class : nat;                     (* 0 ok 1 storage 2 exec 3 syntax 4 other *)
  obs_log : list scall;
  obs_final : store;
  obs_select : list bytes              (* keys returned by select * where P [limit] on the prior state *)
}.

Inductive hop :=
  | OPut (kvs : list kvp)
  | ORemove (ks : list bytes)
  | ODelete (mt : list bytes) (limit : option (nat * nat)) (B : nat) (dp : dplan)
  | OSelect (mt : list bytes) (limit : option (nat * nat)) (B : nat) (md : nat) (p : plan) (rows : list kvp).

Record hcase := HCase {
  hprior : store;
  hsteps : list (hop * store)          (* statement, state observed after it *)
}.

(* A text case = (DELETE statement text, what kvql.NewOptimizer(q).BuildPlan(store) returned, and --
   in the shape of a delete case -- prior state, batch size, polling mode, the plan that was
   built, outcome class, storage call log, final state, plus, when the harness could parse the
   text as a DELETE itself, the keys whose pair passes the UNFOLDED WHERE tree, the LIMIT of the
   parsed statement and what `select * where P [limit]` returns on the prior state).  The Coq side
   runs Model/PipelineW.v delete_text (lexer, statement parser, checker, call check, constant
   folding of the WHERE tree, region inference and the RemovePlan-shortcut test on the FOLDED
   tree, LIMIT, scan-and-delete / direct removal) on the TEXT. *)
Inductive dbuild :=
  | DAccepted                  (* BuildPlan returned a plan *)
  | DRejected (pos : Z)        (* a *SyntaxError with this Pos *)
  | DBuildErr.                 (* any other error *)

Record dtcase := DTCase {
  tq : string;
  tbuilt : dbuild;
  tverd_ok : bool;             (* cmatch / climit / obs_select of [tobs] are usable: the spec verdict applies *)
  tobs : dcase
}.

Inductive case :=
  | KDelete (d : dcase)
  | KHistory (h : hcase)
  | KText (t : dtcase).        (* from the query text *)

(* ------------------------------------------------------------------ helpers *)

Definition memb (k : bytes) (l : list bytes) : bool := existsb (String.eqb k) l.
Definition flt_keys (mt : list bytes) (kv : kvp) : bool := memb (fst kv) mt.
Definition keys_eqb (a b : list bytes) : bool := list_eqb String.eqb a b.

(* Delete k and BatchDelete [k] are the same write *)
Definition norm_call (c : scall) : scall :=
  match c with
  | CDelete k => CBatchDelete [k]
  | CPut k v => CBatchPut [(k, v)]
  | _ => c
  end.
Definition norm_writes (l : list scall) : list scall := map norm_call (writes l).

Definition is_put (c : scall) : bool :=
  match c with CPut _ _ | CBatchPut _ => true | _ => false end.

Definition limit_slice (A : Type) (limit : option (nat * nat)) (l : list A) : list A :=
  match limit with
  | None => l
  | Some (s, n) => firstn n (skipn s l)
  end.
Arguments limit_slice {A} limit l.

(* what `select * where P [limit]` denotes on a state, from the per-pair verdicts alone *)
Definition spec_select (mt : list bytes) (limit : option (nat * nat)) (st : store) : list kvp :=
  limit_slice limit (filter (flt_keys mt) st).

Definition minus_keys (st : store) (ks : list bytes) : store :=
  filter (fun kv => negb (memb (fst kv) ks)) st.

(* every pair of [a] is a pair of [b] *)
Definition pairs_within (a b : store) : bool :=
  forallb (fun kv => existsb (kvp_eqb kv) b) a.

Definition mode_of (m : nat) : mode := if m =? 0 then RowMode else BatchMode.

(* ------------------------------------------------------------------ the twin on a delete case *)

Definition dplan_fuel (dp : dplan) (d : store) : nat :=
  match dp with
  | DScan c => stmt_fuel (StDelete c) d
  | DRemove _ => 0
  end.

Definition model_final (c : dcase) : nat * sstate :=
  match cplan c with
  | DScan p =>
      match run_stmt true (flt_keys (cmatch c)) snd (cB c) (stmt_fuel (StDelete p) (cstore c))
                     (mode_of (cmode c)) (StDelete p) (sinit (cstore c) None) with
      | (Ok _, s) => (0, s)
      | (Err e, s) => (err_code e, s)
      end
  | DRemove keys =>
      let p := if cmode c =? 0 then PNext else PBatch in
      match wexec ev_lit (WRemove keys) [p; p] (sinit (cstore c) None) with
      | (rs, s) =>
          match rs with
          | (_, Some e) :: _ => (err_code e, s)
          | _ => (0, s)
          end
      end
  end.

Fixpoint plan_eqb (a b : plan) : bool :=
  match a, b with
  | PScan x, PScan y =>
      match x, y with
      | SEmpty, SEmpty => true
      | SFull, SFull => true
      | SPrefix p, SPrefix q => String.eqb p q
      | SRange a1 b1, SRange a2 b2 => optbytes_eqb a1 a2 && optbytes_eqb b1 b2
      | SMget k1, SMget k2 => keys_eqb k1 k2
      | _, _ => false
      end
  | PLimit s1 n1 c1, PLimit s2 n2 c2 => (s1 =? s2) && (n1 =? n2) && plan_eqb c1 c2
  | _, _ => false
  end.

Definition dplan_eqb (a b : dplan) : bool :=
  match a, b with
  | DScan x, DScan y => plan_eqb x y
  | DRemove x, DRemove y => keys_eqb x y
  | _, _ => false
  end.

(* the twin of buildDeletePlan chooses the plan the implementation built *)
Definition build_agrees (c : dcase) : bool :=
  match cexpr c with
  | None => true
  | Some e => dplan_eqb (build_delete e (climit c)) (cplan c)
  end.

(* the SELECT * with the same WHERE and LIMIT: the same scan, under a limit node *)
Fixpoint leaf_scan (p : plan) : scan :=
  match p with
  | PScan sc => sc
  | PLimit _ _ c => leaf_scan c
  end.

Definition select_plan (dp : dplan) (limit : option (nat * nat)) : plan :=
  let sc := match dp with DScan p => leaf_scan p | DRemove keys => SMget keys end in
  match limit with
  | None => PScan sc
  | Some (s, n) => PLimit s n (PScan sc)
  end.

Definition twin_select (mt : list bytes) (B md : nat) (p : plan) (st : store) : option (list kvp) :=
  let fuel := stmt_fuel (StDelete p) st in
  if md =? 0 then
    match fst (run_read (select_rows true (flt_keys mt) fuel p) (sinit st None)) with
    | Ok rows => Some rows
    | Err _ => None
    end
  else
    match fst (run_read (select_batches true (flt_keys mt) B fuel p) (sinit st None)) with
    | Ok bs => Some (List.concat bs)
    | Err _ => None
    end.

Definition select_agrees (c : dcase) : bool :=
  match twin_select (cmatch c) (cB c) (cmode c) (select_plan (cplan c) (climit c)) (cstore c) with
  | Some rows => keys_eqb (map fst rows) (obs_select c)
  | None => false
  end.

Definition twin_agrees (c : dcase) : bool :=
  match model_final c with
  | (cl, s) =>
      (cl =? obs_class c)
      && log_eqb (norm_writes (slog s)) (norm_writes (obs_log c))
      && store_eqb (sdata s) (obs_final c)
      && build_agrees c
      && ((negb (obs_class c =? 0)) || select_agrees c)
  end.

(* ------------------------------------------------------------------ the specification on a delete case *)

(* 0 = the observed behaviour satisfies the property on this input;
   2 = the final state is not the prior state minus the keys that select * where P [limit]
       returned on the prior state (through the implementation);
   3 = the final state is not the prior state minus the keys of the pairs that pass the filter
       (sliced by LIMIT), computed from the per-pair verdicts;
   4 = a Put / BatchPut was issued;
   5 = a pair of the final state is not a pair of the prior state (a pair was changed or created) *)
Definition dspec_code (c : dcase) : nat :=
  let prior := cstore c in
  let final := obs_final c in
  if negb (obs_class c =? 0) then 0                       (* not executed: nothing claimed (C13) *)
  else if existsb is_put (obs_log c) then 4
  else if negb (pairs_within final prior) then 5
  else if negb (store_eqb final (minus_keys prior (obs_select c))) then 2
  else if negb (store_eqb final (minus_keys prior (map fst (spec_select (cmatch c) (climit c) prior)))) then 3
  else 0.

(* ------------------------------------------------------------------ histories *)

Definition hop_expected (o : hop) (cur : store) : store :=
  match o with
  | OPut kvs => sput_all kvs cur
  | ORemove ks => sdel_all ks cur
  | ODelete mt limit _ _ => minus_keys cur (map fst (spec_select mt limit cur))
  | OSelect _ _ _ _ _ _ => cur
  end.

Definition hop_rows_ok (o : hop) (cur : store) : bool :=
  match o with
  | OSelect mt limit _ _ _ rows => store_eqb rows (spec_select mt limit cur)
  | _ => true
  end.

(* 6 = a statement of the sequence left a state other than the map specification's;
   7 = a SELECT * of the sequence did not return the pairs of the current state that pass its filter *)
Fixpoint hspec_from (cur : store) (steps : list (hop * store)) : nat :=
  match steps with
  | [] => 0
  | (o, after) :: rest =>
      if negb (store_eqb after (hop_expected o cur)) then 6
      else if negb (hop_rows_ok o cur) then 7
      else hspec_from after rest
  end.

Definition hstmt_of (cur : store) (o : hop) : hstmt :=
  match o with
  | OPut kvs => HPut kvs
  | ORemove ks => HRemove ks
  | ODelete mt _ B dp => HDelete (flt_keys mt) B (dplan_fuel dp cur + 8) dp
  | OSelect mt _ B md p _ => HSelect (flt_keys mt) B (stmt_fuel (StDelete p) cur) (mode_of md) p
  end.

Definition hop_twin_rows (cur : store) (o : hop) : bool :=
  match o with
  | OSelect mt _ B md p rows =>
      match twin_select mt B md p cur with
      | Some r => store_eqb r rows
      | None => false
      end
  | _ => true
  end.

(* the twins, statement after statement from the observed states *)
Fixpoint htwin_from (cur : store) (steps : list (hop * store)) : bool :=
  match steps with
  | [] => true
  | (o, after) :: rest =>
      store_eqb (sdata (run_hstmt (sinit cur None) (hstmt_of cur o))) after
      && hop_twin_rows cur o && htwin_from after rest
  end.

(* and in one go over the whole sequence *)
Fixpoint hstmts_from (cur : store) (steps : list (hop * store)) : list hstmt :=
  match steps with
  | [] => []
  | (o, after) :: rest => hstmt_of cur o :: hstmts_from after rest
  end.

Definition hfinal (h : hcase) : store :=
  match rev (hsteps h) with
  | [] => hprior h
  | (_, after) :: _ => after
  end.

Definition htwin_agrees (h : hcase) : bool :=
  htwin_from (hprior h) (hsteps h)
  && store_eqb (sdata (run_history (hstmts_from (hprior h) (hsteps h)) (sinit (hprior h) None))) (hfinal h).

(* ------------------------------------------------------------------ from the query text *)

Definition untouched (c : dcase) : bool :=
  Nat.eqb (List.length (obs_log c)) 0 && store_eqb (obs_final c) (cstore c).

(* as [dspec_code]; 8 = BuildPlan returned an error, yet the storage was touched *)
Definition tspec_code (t : dtcase) : nat :=
  match tbuilt t with
  | DAccepted => if tverd_ok t then dspec_code (tobs t) else 0
  | _ => if untouched (tobs t) then 0 else 8
  end.

(* 1 = twin and implementation differ: accepted vs rejected, the error position, the plan that
   was built (DeletePlan over which scan, LimitPlan, RemovePlan over which keys), the write calls,
   the final state; 99 = outside the model (Model/PipelineW.v), or the statement ended in an
   evaluation error (a WHERE clause that is not evaluable on a pair the scan read: outside C11's
   premise; the harness judges those runs) *)
Definition ttwin_code (t : dtcase) : nat :=
  let c := tobs t in
  match delete_text prim_fops re_oom pf_fmt_v (tq t) (cB c) (sinit (cstore c) None) with
  | (TOom, _) => 99
  | (TReject p, s) =>
      match tbuilt t with
      | DRejected q => if Z.eqb p q && untouched c && store_eqb (sdata s) (cstore c) then 0 else 1
      | _ => 1
      end
  | (TOk dp, s) =>
      match tbuilt t with
      | DAccepted =>
          if obs_class c =? 2 then 99
          else if (obs_class c =? 0)
                  && dplan_eqb dp (cplan c)
                  && log_eqb (norm_writes (slog s)) (norm_writes (obs_log c))
                  && store_eqb (sdata s) (obs_final c)
          then 0 else 1
      | _ => 1
      end
  | (_, _) => 1
  end.

Definition check_dtext (t : dtcase) : nat :=
  match tspec_code t with
  | 0 => ttwin_code t
  | k => k
  end.

(* ------------------------------------------------------------------ verdict *)

(* 0 = agree; 1 = twin and implementation differ; >= 2 = the implementation's own behaviour
   violates the property on this input *)
Definition check_case (c : case) : nat :=
  match c with
  | KDelete d =>
      match dspec_code d with
      | 0 => if twin_agrees d then 0 else 1
      | k => k
      end
  | KHistory h =>
      match hspec_from (hprior h) (hsteps h) with
      | 0 => if htwin_agrees h then 0 else 1
      | k => k
      end
  | KText t => check_dtext t
  end.

Fixpoint mism_from (i : nat) (cs : list case) : list (nat * nat) :=
  match cs with
  | [] => []
  | c :: cs' => match check_case c with
                | 0 => mism_from (S i) cs'
                | k => (i, k) :: mism_from (S i) cs'
                end
  end.
Definition mismatches (cs : list case) : list (nat * nat) := mism_from 0 cs.
