(* Corr/C12.v -- correspondence and spec verdict for C12 (PUT / REMOVE), evaluated by vm_compute
   on the cases the harness observed on the implementation.

   Expressions are table indexes: pair i of a PUT has key expression 2i and value expression
   2i+1, key i of a REMOVE has expression i.  The table holds what the harness obtained by
   evaluating each expression itself through the public Expression.Execute (key expressions on
   the empty pair, value expression i on the pair whose key is the evaluated key i):
   (expr id, key, value) |-> Some bytes | None (= evaluation error).

   A second case kind, [WText] (below), starts from the QUERY TEXT: the whole pipeline of
   Model/PipelineW.v (write_text) against kvql.NewOptimizer(q).BuildPlan(store) + the polls.   *)
From Coq Require Import List String Bool Arith ZArith.
Import ListNotations.
From KV Require Import Base.Bytes Base.Flt Model.Value Model.Storage Model.Write Model.Pipeline Model.PipelineW
                       Corr.EvalCommon.

Definition entry := (nat * bytes * bytes * option bytes)%type.

Record pcase := Case {
  ckind : nat;                              (* 0 = put, 1 = remove *)
  cprior : store;                           (* prior state (sorted) *)
  cn : nat;                                 (* number of pairs / keys *)
  ctable : list entry;
  cpolls : list nat;                        (* 0 = Next, 1 = Batch *)
  obs_res : list (option nat * nat);        (* per poll: row [n] or nil; error class 0 none 1 storage 2 evaluation error (any other error) *)
  obs_log : list scall;                     (* storage calls of the whole statement *)
  obs_final : store;                        (* final state (sorted) *)
  obs_reads : list (bytes * option bytes)   (* afterwards: select * where key = k  ->  value of the row / no row *)
}.

(* ------------------------------------------------------------------ the twin on a case *)

Fixpoint lookup (t : list entry) (i : nat) (k v : bytes) : option (option bytes) :=
  match t with
  | [] => None
  | (i', k', v', r) :: t' =>
      if Nat.eqb i i' && String.eqb k k' && String.eqb v v' then Some r else lookup t' i k v
  end.

(* not in the table: the twin asked for an evaluation the harness did not record; reported as
   ESyntax, which no observed poll result of an accepted statement can equal *)
Definition ev_table (t : list entry) (i : nat) (k v : bytes) : res bytes :=
  match lookup t i k v with
  | Some (Some b) => Ok b
  | Some None => Err EExec
  | None => Err ESyntax
  end.

Definition put_exprs (n : nat) : list (nat * nat) := map (fun i => (2 * i, 2 * i + 1)) (seq 0 n).
Definition remove_exprs (n : nat) : list nat := seq 0 n.

Definition plan_of (c : pcase) : wplan nat :=
  if Nat.eqb (ckind c) 0 then WPut (put_exprs (cn c)) else WRemove (remove_exprs (cn c)).

Definition polls_of (c : pcase) : list poll :=
  map (fun p => if Nat.eqb p 0 then PNext else PBatch) (cpolls c).

Definition model (c : pcase) : list pres * sstate :=
  wexec (ev_table (ctable c)) (plan_of c) (polls_of c) (sinit (cprior c) None).

Definition errclass (e : option err) : nat :=
  match e with None => 0 | Some e => err_code e end.

Definition optnat_eqb (a b : option nat) : bool :=
  match a, b with
  | None, None => true
  | Some x, Some y => Nat.eqb x y
  | _, _ => false
  end.

Definition proj_res (m : pres) : option nat * nat := (fst m, errclass (snd m)).
Definition res_eqb (m o : option nat * nat) : bool :=
  optnat_eqb (fst m) (fst o) && Nat.eqb (snd m) (snd o).

Definition reads_agree (st : store) (rs : list (bytes * option bytes)) : bool :=
  forallb (fun r => optbytes_eqb (sget (fst r) st) (snd r)) rs.

(* the property sees the writes, not the method that carries them: Put k v is compared as
   BatchPut [(k,v)], Delete k as BatchDelete [k] *)
Definition norm_call (c : scall) : scall :=
  match c with
  | CPut k v => CBatchPut [(k, v)]
  | CDelete k => CBatchDelete [k]
  | c => c
  end.
Definition norm_log (l : list scall) : list scall := map norm_call l.

Definition twin_agrees (c : pcase) : bool :=
  match model c with
  | (rs, s) =>
      list_eqb res_eqb (map proj_res rs) (obs_res c)
      && log_eqb (norm_log (slog s)) (norm_log (obs_log c))
      && store_eqb (sdata s) (obs_final c)
      && reads_agree (sdata s) (obs_reads c)
  end.

(* ------------------------------------------------------------------ the specification on a case
   (written against map semantics: what a lookup of any key must return afterwards;
    no plan, no state machine) *)

Definition tab (c : pcase) (i : nat) (k : bytes) : option bytes :=
  match lookup (ctable c) i k EmptyString with
  | Some r => r
  | None => None
  end.

(* the evaluated pairs, in statement order; None if some key or value expression fails *)
Fixpoint spec_pairs (c : pcase) (is : list nat) : option (list kvp) :=
  match is with
  | [] => Some []
  | i :: is' =>
      match tab c (2 * i) EmptyString with
      | None => None
      | Some k =>
          match tab c (2 * i + 1) k with
          | None => None
          | Some v =>
              match spec_pairs c is' with
              | None => None
              | Some l => Some ((k, v) :: l)
              end
          end
      end
  end.

Fixpoint spec_keys (c : pcase) (is : list nat) : option (list bytes) :=
  match is with
  | [] => Some []
  | i :: is' =>
      match tab c i EmptyString with
      | None => None
      | Some k =>
          match spec_keys c is' with
          | None => None
          | Some l => Some (k :: l)
          end
      end
  end.

(* last binding of k in the pair list *)
Fixpoint last_binding (k : bytes) (kvs : list kvp) (acc : option bytes) : option bytes :=
  match kvs with
  | [] => acc
  | (k', v') :: kvs' => last_binding k kvs' (if String.eqb k k' then Some v' else acc)
  end.

Definition mem_bytes (k : bytes) (l : list bytes) : bool := existsb (String.eqb k) l.

Fixpoint strictly_sorted (st : store) : bool :=
  match st with
  | [] => true
  | (k, _) :: st' =>
      match st' with
      | [] => true
      | (k', _) :: _ => bltb k k' && strictly_sorted st'
      end
  end.

(* expected lookup after the statement *)
Definition expect_put (prior : store) (kvs : list kvp) (k : bytes) : option bytes :=
  last_binding k kvs (sget k prior).
Definition expect_remove (prior : store) (ks : list bytes) (k : bytes) : option bytes :=
  if mem_bytes k ks then None else sget k prior.

Definition lookups_agree (expect : bytes -> option bytes) (final : store) (universe : list bytes) : bool :=
  forallb (fun k => optbytes_eqb (sget k final) (expect k)) universe.

Definition first_is_exec_error (rs : list (option nat * nat)) : bool :=
  match rs with
  | (_, e) :: _ => Nat.eqb e 2
  | [] => false
  end.

Definition no_error (rs : list (option nat * nat)) : bool :=
  forallb (fun r => Nat.eqb (snd r) 0) rs.

(* 0 = the observed behaviour satisfies the property on this input;
   2 = final state is not "prior overwritten in order by the evaluated pairs" / "prior minus the keys";
   3 = the writes were not issued exactly once (one Put/BatchPut carrying exactly the evaluated
       pairs, one Delete/BatchDelete carrying exactly the evaluated keys), or a poll of the
       finished plan reported an error;
   4 = an expression failed to evaluate but a write was issued / the state changed / no error surfaced;
   5 = a following  select * where key = k  did not observe the write *)
Definition spec_code (c : pcase) : nat :=
  let idx := seq 0 (cn c) in
  let polled := negb (Nat.eqb (List.length (cpolls c)) 0) in
  let prior := cprior c in
  let final := obs_final c in
  if negb (strictly_sorted final) then 2 else
  if negb polled then
    (if store_eqb final prior then (if Nat.eqb (List.length (writes (obs_log c))) 0 then 0 else 3) else 2)
  else if Nat.eqb (ckind c) 0 then
    match spec_pairs c idx with
    | None =>
        if negb (Nat.eqb (List.length (writes (obs_log c))) 0) then 4
        else if negb (store_eqb final prior) then 4
        else if negb (first_is_exec_error (obs_res c)) then 4
        else if negb (reads_agree prior (obs_reads c)) then 5 else 0
    | Some kvs =>
        let expect := expect_put prior kvs in
        let universe := (map fst prior ++ map fst kvs ++ map fst final)%list in
        if negb (lookups_agree expect final universe) then 2
        else if negb (log_eqb (norm_log (writes (obs_log c)))
                        (match kvs with [] => [] | _ => [CBatchPut kvs] end)) then 3
        else if negb (no_error (obs_res c)) then 3
        else if negb (forallb (fun r => optbytes_eqb (snd r) (expect (fst r))) (obs_reads c)) then 5
        else 0
    end
  else
    match spec_keys c idx with
    | None =>
        if negb (Nat.eqb (List.length (writes (obs_log c))) 0) then 4
        else if negb (store_eqb final prior) then 4
        else if negb (first_is_exec_error (obs_res c)) then 4
        else if negb (reads_agree prior (obs_reads c)) then 5 else 0
    | Some ks =>
        let expect := expect_remove prior ks in
        let universe := (map fst prior ++ ks ++ map fst final)%list in
        if negb (lookups_agree expect final universe) then 2
        else if negb (log_eqb (norm_log (writes (obs_log c)))
                        (match ks with [] => [] | _ => [CBatchDelete ks] end)) then 3
        else if negb (no_error (obs_res c)) then 3
        else if negb (forallb (fun r => optbytes_eqb (snd r) (expect (fst r))) (obs_reads c)) then 5
        else 0
    end.

(* 0 = agree; 1 = twin and implementation differ; >= 2 = the implementation's own behaviour
   violates the property on this input (see [spec_code]) *)
Definition check_plain (c : pcase) : nat :=
  match spec_code c with
  | 0 => if twin_agrees c then 0 else 1
  | k => k
  end.

(* ------------------------------------------------------------------ FROM THE QUERY TEXT
   A text case = (statement text, what kvql.NewOptimizer(q).BuildPlan(store) returned, and -- in
   the shape of a plain case -- prior state, polling pattern, per-poll results, storage call log,
   final state, plus the evaluation table when the harness could parse the text as a PUT /
   REMOVE itself).  The Coq side runs Model/PipelineW.v write_text (lexer, statement parser,
   checker, call check, NO folding, PutPlan / RemovePlan over the evaluator twin) on the TEXT.

   code 1 : twin and implementation differ: accepted vs rejected, the error position, the poll
            results, the storage call log (Put k v = BatchPut [(k,v)], Delete k = BatchDelete [k]),
            the final state;
   code >= 2 : as for plain cases, from the table the harness recorded (spec_code);
   code 6 : BuildPlan returned an error, yet the storage was touched;
   code 99: outside the model (Model/PipelineW.v). *)
Inductive wbuild :=
  | WAccepted                  (* BuildPlan returned a plan *)
  | WRejected (pos : Z)        (* a *SyntaxError with this Pos *)
  | WBuildErr.                 (* any other error *)

Record wtcase := WTCase {
  wq : string;
  wbuilt : wbuild;
  wtable_ok : bool;            (* the table of [wobs] is usable: the spec verdict applies *)
  wobs : pcase
}.

Definition untouched (c : pcase) : bool :=
  Nat.eqb (List.length (obs_log c)) 0 && store_eqb (obs_final c) (cprior c).

Definition wspec_code (t : wtcase) : nat :=
  match wbuilt t with
  | WAccepted => if wtable_ok t then spec_code (wobs t) else 0
  | _ => if untouched (wobs t) then 0 else 6
  end.

Definition wtwin_code (t : wtcase) : nat :=
  let c := wobs t in
  match write_text prim_fops re_oom (wq t) (polls_of c) (sinit (cprior c) None) with
  | (TOom, _) => 99
  | (TReject p, s) =>
      match wbuilt t with
      | WRejected q => if Z.eqb p q && untouched c && store_eqb (sdata s) (cprior c) then 0 else 1
      | _ => 1
      end
  | (TOk rs, s) =>
      match wbuilt t with
      | WAccepted =>
          if list_eqb res_eqb (map proj_res rs) (obs_res c)
             && log_eqb (norm_log (slog s)) (norm_log (obs_log c))
             && store_eqb (sdata s) (obs_final c)
          then 0 else 1
      | _ => 1
      end
  | (_, _) => 1
  end.

Definition check_wtext (t : wtcase) : nat :=
  match wspec_code t with
  | 0 => wtwin_code t
  | k => k
  end.

Inductive case :=
  | Plain (c : pcase)          (* from the AST / the evaluation table *)
  | WText (t : wtcase).        (* from the query text *)

Definition check_case (c : case) : nat :=
  match c with
  | Plain c => check_plain c
  | WText t => check_wtext t
  end.

Fixpoint mism_from (i : nat) (cs : list case) : list (nat * nat) :=
  match cs with
  | [] => []
  | c :: cs' => match check_case c with
                | 0 => mism_from (S i) cs'
                | k => (i, k) :: mism_from (S i) cs'
                end
  end.
Definition mismatches (cs : list case) : list (nat * nat) := mism_from 0 cs.
