(* Corr/C13.v -- correspondence and spec verdict for C13 (SELECT is read-only, rejected
   statements touch nothing, storage errors surface), evaluated by vm_compute on the cases the
   harness observed on the implementation.

   One case = one statement on one store in one mode at one batch size: the fault-free run
   (call log, outcome, sizes of the returned batches, final data) and, for EVERY call index i of
   that run, the run with the storage failing at call i (outcome, log length, whether the log is
   the first i+1 calls of the fault-free log).  The plan tree is read off the built plan's public
   fields; the WHERE filter is given as the list of keys whose pair passes it (computed by the
   harness from the statement template, not by the implementation). *)
From Coq Require Import List String Bool Arith.
Import ListNotations.
From KV Require Import Base.Bytes Model.Storage Model.Write Model.ScanIO.
From KV Require Corr.C12.
From KV Require Corr.C13Batch.
Local Open Scope list_scope.
Local Open Scope nat_scope.

Record fobs := FObs {
  fidx : nat;              (* fault index *)
  fclass : nat;            (* error class returned: 0 none 1 storage 2 exec 3 syntax 4 other *)
  floglen : nat;           (* length of the call log of that run *)
  fprefix : bool;          (* its log = the first floglen calls of the fault-free log *)
  fnowrite_after : bool    (* data after the run = data after the same prefix of the fault-free run
                              (for a read-only log: unchanged) *)
}.

Record case := Case {
  ckind : nat;                         (* 0 rejected 1 select 2 delete (DeletePlan) 3 put 4 remove / delete-as-RemovePlan; 5 = stream batch-polls, see check_case *)
  cstore : store;
  cmatch : list bytes;                 (* keys whose pair passes the filter *)
  cfp : fplan;                         (* kind 1 *)
  cplan : plan;                        (* kind 2 *)
  cn : nat; ctable : list Corr.C12.entry;   (* kinds 3, 4: as in Corr/C12 *)
  cB : nat;
  cmode : nat;                         (* 0 row 1 batch *)
  obs_log : list scall;
  obs_class : nat;
  obs_sizes : list nat;
  obs_final : store;
  obs_faults : list fobs
}.

(* ------------------------------------------------------------------ the twin on a case *)

Definition flt_of (c : case) (kv : kvp) : bool := existsb (String.eqb (fst kv)) (cmatch c).

(* false: the scans as they are in /repo (no `done` flag, DESIGN §3 D23); set to true when that
   defect is repaired by a flag that Init resets *)
Definition scans_remember_end : bool := true.

Definition mode_of (c : case) : mode := if cmode c =? 0 then RowMode else BatchMode.

Definition stmt_of (c : case) : stmt :=
  match ckind c with
  | 0 => StRejected
  | 1 => StSelect (cfp c)
  | _ => StDelete (cplan c)
  end.

Definition class_of {A} (r : res A) : nat :=
  match r with Ok _ => 0 | Err e => err_code e end.

(* outcome of the twin: error class, sizes, final state *)
Definition model (c : case) (fault : option nat) : nat * list nat * sstate :=
  match ckind c with
  | 3 | 4 =>
      let pl := if ckind c =? 3 then WPut (Corr.C12.put_exprs (cn c)) else WRemove (Corr.C12.remove_exprs (cn c)) in
      let p := if cmode c =? 0 then PNext else PBatch in
      match wexec (Corr.C12.ev_table (ctable c)) pl [p; p] (sinit (cstore c) fault) with
      | (rs, s) =>
          match rs with
          | (_, Some e) :: _ => (err_code e, [], s)
          | _ => (0, [1], s)
          end
      end
  | _ =>
      match run_stmt scans_remember_end (flt_of c) snd (cB c) (stmt_fuel (stmt_of c) (cstore c)) (mode_of c) (stmt_of c) (sinit (cstore c) fault) with
      | (Ok sizes, s) => (0, sizes, s)
      | (Err e, s) => (err_code e, [], s)
      end
  end.

Definition natlist_eqb (a b : list nat) : bool := list_eqb Nat.eqb a b.

Definition norm_log := Corr.C12.norm_log.

Definition twin_agrees_free (c : case) : bool :=
  match model c None with
  | (cl, sizes, s) =>
      (if ckind c =? 0 then negb (obs_class c =? 0) && negb (obs_class c =? 1) else cl =? obs_class c)
      && (if obs_class c =? 0 then natlist_eqb sizes (obs_sizes c) else true)
      && (if ckind c =? 0
          then log_eqb (writes (slog s)) (writes (obs_log c))   (* a rejected statement: only mutating calls are the property's business *)
          else log_eqb (norm_log (slog s)) (norm_log (obs_log c)))
      && store_eqb (sdata s) (obs_final c)
  end.

Definition twin_agrees_fault (c : case) (f : fobs) : bool :=
  match model c (Some (fidx f)) with
  | (cl, _, s) =>
      (cl =? fclass f)
      && (List.length (slog s) =? floglen f)
      && (if fprefix f then log_eqb (norm_log (slog s)) (norm_log (firstn (floglen f) (obs_log c))) else true)
  end.

Definition twin_agrees (c : case) : bool :=
  twin_agrees_free c && ((ckind c =? 0) || forallb (twin_agrees_fault c) (obs_faults c)).

(* ------------------------------------------------------------------ the specification on a case *)

Definition find_fault (c : case) (i : nat) : option fobs :=
  find (fun f => fidx f =? i) (obs_faults c).

(* fault i of a run with n calls: the error returned is the storage error, the log stops at
   call i (length i+1, same calls as the fault-free run up to there), nothing is written after *)
Definition fault_ok (c : case) (i : nat) : bool :=
  match find_fault c i with
  | None => false                         (* every index must have been exercised *)
  | Some f => (fclass f =? 1) && (floglen f =? S i) && fprefix f && fnowrite_after f
  end.

(* 0 = the observed behaviour satisfies the property on this input;
   2 = a SELECT issued a mutating storage call or changed the data;
   3 = a rejected statement issued a mutating storage call or changed the data;
   4 = a storage error at some call index was not returned as such, or the statement went on
       issuing storage calls after it, or a call index was not reached deterministically *)
Definition spec_code (c : case) : nat :=
  if (ckind c =? 1) && negb (read_only (obs_log c) && store_eqb (obs_final c) (cstore c)) then 2
  else if (ckind c =? 0) && negb (read_only (obs_log c) && store_eqb (obs_final c) (cstore c)) then 3
  else if (ckind c =? 0) && ((obs_class c =? 0) || (obs_class c =? 1)) then 3   (* not rejected after all *)
  else if negb (forallb (fault_ok c) (seq 0 (List.length (obs_log c)))) then 4
  else 0.

(* KIND 5: the stream "batch-polls" (Corr/C13Batch.v: the storage calls and the rows of every
   single Next() / Batch() call of a SELECT on a fault-free storage).  The case record is not
   changed; a kind-5 case is encoded in its fields:
     ckind = 5, cstore, cmatch, cfp, cB, cmode as for kind 1 (cplan, cn, ctable unused);
     obs_log    = the whole call log of the run (BuildPlan, then every poll);
     obs_class  = 0;  obs_final = the store;
     obs_sizes  = rows returned per poll, the LAST poll (the empty answer) included;
     obs_faults = [FObs 0 0 b true true] for BuildPlan (b = number of storage calls it issued),
                  then one [FObs (i+1) 0 n_i true true] per poll i (n_i = number of storage
                  calls that poll issued): only [floglen] is read.
   Kind 5 never reaches [stmt_of] / [model] / [spec_code] (which would take it for a delete). *)
Definition batch_build_calls (c : case) : nat :=
  match obs_faults c with f :: _ => floglen f | [] => 0 end.

Definition batch_polls (c : case) : list (nat * nat) :=
  combine (map floglen (tl (obs_faults c))) (obs_sizes c).

Definition batch_encoding_ok (c : case) : bool :=
  (List.length (obs_faults c) =? S (List.length (obs_sizes c))) && (obs_class c =? 0)
  && store_eqb (obs_final c) (cstore c).

Definition check_case (c : case) : nat :=
  if ckind c =? 5 then
    (if batch_encoding_ok c
     then Corr.C13Batch.batch_check (cstore c) (cmatch c) (cfp c) (cB c) (cmode c) (obs_log c)
                                    (batch_polls c) (batch_build_calls c)
     else 1)
  else
  match spec_code c with
  | 0 => if twin_agrees c then 0 else 1
  | k => k
  end.

Fixpoint mism_from (i : nat) (cs : list case) : list (nat * nat) :=
  match cs with
  | [] => []
  | c :: cs' => match check_case c with
                | 0 => mism_from (S i) cs'
                | k => (i, k) :: mism_from (S i) cs'
                end
  end.
Definition mismatches (cs : list case) : list (nat * nat) := mism_from 0 cs.
