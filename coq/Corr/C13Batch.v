(* Corr/C13Batch.v -- correspondence stream "batch-polls" of C13: WHAT EVERY SINGLE Next() /
   Batch() CALL OF A BUILT SELECT PLAN DOES TO THE STORAGE, and how many rows it returns.

   Corr/C13.v compares the call log of the whole statement; a change that moves the batch
   boundaries (which storage calls belong to which Batch() call, how long every batch is) without
   changing the concatenation is invisible there.  Here the harness records, on a fault-free
   storage, the number of storage calls of BuildPlan and, per poll of the caller's loop
   (`rows := plan.Batch(ctx); if len(rows) == 0 break; ctx.Clear()`, or plan.Next in row mode),
   the number of storage calls that poll issued and the number of rows it returned -- the LAST
   poll is the one that answered "no more rows" and is included.  The twin is
   Model/ScanBatches.v [select_polls] (= ScanIO's programs polled one by one; proved to
   concatenate to ScanIO.run_stmt in Proofs/ScanBatchBoundaryProofs.v), run with the parameters
   of Corr/C13.v's [model].

   This file must not Require Corr.C13 (Corr/C13.v requires it); the checker takes plain
   components.  Verdict codes (Corr/C13.v's spec_code uses 2, 3, 4; kept apart):
     0  agree
     1  twin <> implementation: the calls of BuildPlan, the calls of some poll (the observed log
        cut by the observed per-poll lengths, Put k v = BatchPut [(k,v)] etc. as in Corr/C12
        [norm_log]), the rows of some poll, or the number of polls
     2  the SELECT issued a mutating storage call (same meaning as in Corr/C13.v)
     6  the observation is not the trace of a caller's poll loop: a poll other than the last one
        returned 0 rows, or more rows than a poll can return (row mode: 1; batch mode: the loose
        bound 4 * B -- scan_plan.go's Batch may return up to 2B-1 pairs, a pass is appended
        whole, and the limit nodes add a partly skipped batch on top, so B itself is NOT a
        bound), or the per-poll call counts do not add up to the length of the log
     7  the last poll returned rows (the loop did not end on the empty answer), or no poll at all *)
From Coq Require Import List String Bool Arith.
Import ListNotations.
From KV Require Import Base.Bytes Model.Storage Model.ScanIO Model.ScanBatches.
From KV Require Corr.C12.
Local Open Scope list_scope.
Local Open Scope nat_scope.

(* the WHERE filter, given as the keys whose pair passes it (as Corr/C13.v flt_of) *)
Definition flt_keys (ks : list bytes) (kv : kvp) : bool := existsb (String.eqb (fst kv)) ks.

(* the same switch as Corr/C13.v scans_remember_end (prefix / range scans have a `done` flag) *)
Definition remember_end : bool := true.

Definition mode_of_nat (m : nat) : mode := if m =? 0 then RowMode else BatchMode.

(* cut a log into consecutive pieces of the given lengths *)
Fixpoint cut (lens : list nat) (l : list scall) : list (list scall) :=
  match lens with
  | [] => []
  | n :: lens' => firstn n l :: cut lens' (skipn n l)
  end.

Definition sum (l : list nat) : nat := fold_right Nat.add 0 l.

Definition norm_log := Corr.C12.norm_log.

Definition seg_eqb (a b : list scall) : bool := log_eqb (norm_log a) (norm_log b).

(* ------------------------------------------------------------------ the twin *)

Definition twin_polls (st : store) (matchkeys : list bytes) (fp : fplan) (B mode : nat)
  : option (list scall * list (list scall * nat)) :=
  match select_polls remember_end (flt_keys matchkeys) snd B (stmt_fuel (StSelect fp) st)
                     (mode_of_nat mode) fp (sinit st None) with
  | (Ok r, _) => Some r
  | (Err _, _) => None
  end.

Definition twin_agrees (st : store) (matchkeys : list bytes) (fp : fplan) (B mode : nat)
                       (obs_log : list scall) (polls : list (nat * nat)) (build_calls : nat) : bool :=
  match twin_polls st matchkeys fp B mode with
  | None => false
  | Some (bseg, ps) =>
      seg_eqb bseg (firstn build_calls obs_log)
      && (List.length ps =? List.length polls)
      && list_eqb Nat.eqb (map snd ps) (map snd polls)
      && list_eqb seg_eqb (map fst ps) (cut (map fst polls) (skipn build_calls obs_log))
  end.

(* ------------------------------------------------------------------ the observation on its own *)

Definition max_rows (B mode : nat) : nat := if mode =? 0 then 1 else 4 * B.

(* every poll but the last returned between 1 and max_rows rows *)
Fixpoint nonfinal_ok (mx : nat) (rows : list nat) : bool :=
  match rows with
  | [] | [_] => true
  | r :: rows' => negb (r =? 0) && (r <=? mx) && nonfinal_ok mx rows'
  end.

Definition spec_code (B mode : nat) (obs_log : list scall) (polls : list (nat * nat)) (build_calls : nat) : nat :=
  if negb (read_only obs_log) then 2
  else if negb (build_calls + sum (map fst polls) =? List.length obs_log) then 6
  else if negb (nonfinal_ok (max_rows B mode) (map snd polls)) then 6
  else match rev polls with
       | (_, 0) :: _ => 0
       | _ => 7
       end.

Definition batch_check (st : store) (matchkeys : list bytes) (fp : fplan) (B mode : nat)
                       (obs_log : list scall) (polls : list (nat * nat)) (build_calls : nat) : nat :=
  match spec_code B mode obs_log polls build_calls with
  | 0 => if twin_agrees st matchkeys fp B mode obs_log polls build_calls then 0 else 1
  | k => k
  end.
