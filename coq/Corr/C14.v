(* Corr/C14.v -- correspondence and spec verdict for C14, evaluated by vm_compute on the
   statements the harness generated (as UNCHECKED trees, printed by the harness itself) and
   the behaviour it observed on the implementation (Optimizer.BuildPlan on a logging store,
   Parser.Parse for the tree the checker leaves behind, execution on generated stores).

   codes: 0 agree
          1 twin (Model/Checker.v build_check) and implementation differ: accept / reject,
            error position, or the checked tree (field references compared by name, not by
            their definition, which the Go checker shares and rewrites in place)
          2 the implementation accepted a statement the typing rules (Spec/Typing.v) reject
          3 the implementation rejected a statement the typing rules allow
          4 a rejected statement caused storage calls
          5 a well-typed, accepted statement raised an operand-type error at execution
          99 outside the model *)
From Coq Require Import List String ZArith Bool Arith.
Import ListNotations.
From KV Require Import Base.Bytes Base.Num Base.Flt Model.Ast Model.Value Model.Eval
                       Model.Checker Spec.Typing Proofs.CheckerProofs.

Fixpoint expr_eqb (a b : expr) {struct a} : bool :=
  let list_eqb :=
    fix go (x y : list expr) : bool :=
      match x, y with
      | [], [] => true
      | a' :: x', b' :: y' => expr_eqb a' b' && go x' y'
      | _, _ => false
      end in
  match a, b with
  | EBin p o l r, EBin p' o' l' r' => Nat.eqb p p' && op_eqb o o' && expr_eqb l l' && expr_eqb r r'
  | EField p KeyKW, EField p' KeyKW | EField p ValueKW, EField p' ValueKW => Nat.eqb p p'
  | EStr p s, EStr p' s' => Nat.eqb p p' && String.eqb s s'
  | ENot p r, ENot p' r' => Nat.eqb p p' && expr_eqb r r'
  | ECall p n l, ECall p' n' l' => Nat.eqb p p' && expr_eqb n n' && list_eqb l l'
  | EName p s, EName p' s' => Nat.eqb p p' && String.eqb s s'
  | ERef p s _, ERef p' s' _ => Nat.eqb p p' && String.eqb s s'      (* by name *)
  | ENum p s, ENum p' s' => Nat.eqb p p' && String.eqb s s'
  | EFloat p s, EFloat p' s' => Nat.eqb p p' && String.eqb s s'
  | EBool p x, EBool p' x' => Nat.eqb p p' && Bool.eqb x x'
  | EList p l, EList p' l' => Nat.eqb p p' && list_eqb l l'
  | EAccess p l f, EAccess p' l' f' => Nat.eqb p p' && expr_eqb l l' && expr_eqb f f'
  | _, _ => false
  end.

Fixpoint exprs_eqb (x y : list expr) : bool :=
  match x, y with
  | [], [] => true
  | a :: x', b :: y' => expr_eqb a b && exprs_eqb x' y'
  | _, _ => false
  end.

Fixpoint pairs_eqb (x y : list (expr * expr)) : bool :=
  match x, y with
  | [], [] => true
  | (a, b) :: x', (c, d) :: y' => expr_eqb a c && expr_eqb b d && pairs_eqb x' y'
  | _, _ => false
  end.

(* the observed statement carries no names / ORDER BY positions: only the trees are compared *)
Definition stmt_eqb (a b : stmt) : bool :=
  match a, b with
  | SSelect f w _, SSelect f' w' _ => exprs_eqb (map snd f) (map snd f') && expr_eqb w w'
  | SPut p, SPut p' => pairs_eqb p p'
  | SRemove k, SRemove k' => exprs_eqb k k'
  | SDelete w, SDelete w' => expr_eqb w w'
  | _, _ => false
  end.

(* the typing verdict of Spec/Typing.v on a statement (Proofs/CheckerProofs.v [stmt_typed]) with
   the primitive floats *)
Definition stmt_typed (s : stmt) : bool := CheckerProofs.stmt_typed prim_fops s.

Record case := Case {
  cstmt : stmt;               (* the unchecked statement *)
  cmode : nat;                (* 0 full comparison and verdict
                                 1 a known-finding shape: twin comparison only
                                 2 judged by the harness only (outside the twin) *)
  obs_cls : nat;              (* BuildPlan: 0 plan returned, 1 ExecuteError, 2 SyntaxError, 3 other *)
  obs_pos : Z;                (* position carried by the error *)
  obs_calls : nat;            (* storage calls made by BuildPlan *)
  obs_tree : option stmt;     (* Parser.Parse's statement after the checker ran, when accepted *)
  obs_typeerr : bool          (* some execution ended in an operand-type error *)
}.

Definition twin_vs_impl (c : case) : nat :=
  match build_check prim_fops true (cstmt c) with
  | OutOfModel => 99
  | Panic => 1
  | Ok s2 =>
      if negb (Nat.eqb (obs_cls c) 0) then 1
      else match obs_tree c with
           | Some t => if stmt_eqb s2 t then 0 else 1
           | None => 0
           end
  | Err (ESyntax p) =>
      if Nat.eqb (obs_cls c) 2 && Z.eqb (obs_pos c) (Z.of_nat p) then 0 else 1
  | Err _ => 1
  end.

Definition spec_verdict (c : case) : nat :=
  let typed := stmt_typed (cstmt c) in
  let accepted := Nat.eqb (obs_cls c) 0 in
  if accepted && negb typed then 2
  else if negb accepted && typed then 3
  else if negb accepted && negb (Nat.eqb (obs_calls c) 0) then 4
  else if accepted && typed && obs_typeerr c then 5
  else 0.

Definition check_case (c : case) : nat :=
  match cmode c with
  | 2 => 0
  | 1 => twin_vs_impl c
  | _ =>
      match twin_vs_impl c with
      | 99 => 99
      | t => match spec_verdict c with 0 => t | v => v end
      end
  end.

Fixpoint mism_from (i : nat) (cs : list case) : list (nat * nat) :=
  match cs with
  | [] => []
  | c :: cs' => match check_case c with
                | 0 => mism_from (S i) cs'
                | k => (i, k) :: mism_from (S i) cs'
                end
  end.
Definition mismatches (cs : list case) : list (nat * nat) := mism_from 0 cs.
