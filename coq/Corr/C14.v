(* Corr/C14.v -- correspondence and spec verdict for C14, evaluated by vm_compute on the
   statements the harness generated (as UNCHECKED trees, printed by the harness itself) and
   the behaviour it observed on the implementation (Optimizer.BuildPlan on a logging store,
   Parser.Parse for the tree the checker leaves behind, execution on generated stores).

   codes: 0 agree
          1 twin (Model/Checker.v build_check) and implementation differ: accept / reject,
            error position, or the checked tree (field references compared by name, not by
            their definition, which the Go checker shares and rewrites in place)
          2 the implementation accepted a statement the typing rules (Spec/Typing.v) reject
          3 the implementation rejected a statement the typing rules allow
          4 a rejected statement caused storage calls
          5 a well-typed, accepted statement raised an operand-type error at execution; also
            (task T1, evaluator part): a tree of an accepted statement that satisfies the premises
            of accepted_statement_type_safe_partial (node_okv and defs_ok node_okv: the checker's
            node tests, the covered language, documented parameter types, element kinds of
            list-valued IN) answered a stored pair / a chunk with an operand-type error or a panic
          99 outside the model

   T1, evaluator part.  For the statements that carry [obs_evals]: the trees the twin's
   build_check returns (WHERE = index 0, select field i = index i+1) are evaluated with the row
   twin on every stored pair and with the batch twin on the consecutive chunks of the store, and
   the outcome CLASS -- value / data-dependent failure by kind (division by zero, crossed
   BETWEEN bounds, distance function, regexp) / operand-type error / panic -- is compared with
   the class of what Expression.Execute / ExecuteBatch answered on the checked tree of
   Parser.Parse (code 1 on a difference, 99 where the twin is outside its model). *)
From Coq Require Import List String ZArith Bool Arith.
Import ListNotations.
From KV Require Import Base.Bytes Base.Num Base.Flt Model.Ast Model.Value Model.Eval Model.EvalVec
                       Model.Checker Spec.Typing Proofs.CheckerProofs
                       Proofs.TypeSafety2Proofs Proofs.TypeSafetyVecProofs.
From KV Require Model.Fold Model.FoldStmt Model.Pipeline.
From KV Require Corr.C14Agg.

Fixpoint expr_eqb (a b : expr) {struct a} : bool :=
  let list_eqb :=
    fix go (x y : list expr) : bool :=
      match x, y with
      | [], [] => true
      | a' :: x', b' :: y' => expr_eqb a' b' && go x' y'
      | _, _ => false
      end in
  match a, b with
  | EBin p o l r, EBin p' o' l' r' => Nat.eqb p p' && op_eqb o o' && expr_eqb l l' && expr_eqb r r'
  | EField p KeyKW, EField p' KeyKW | EField p ValueKW, EField p' ValueKW => Nat.eqb p p'
  | EStr p s, EStr p' s' => Nat.eqb p p' && String.eqb s s'
  | ENot p r, ENot p' r' => Nat.eqb p p' && expr_eqb r r'
  | ECall p n l, ECall p' n' l' => Nat.eqb p p' && expr_eqb n n' && list_eqb l l'
  | EName p s, EName p' s' => Nat.eqb p p' && String.eqb s s'
  | ERef p s _, ERef p' s' _ => Nat.eqb p p' && String.eqb s s'      (* by name *)
  | ENum p s, ENum p' s' => Nat.eqb p p' && String.eqb s s'
  | EFloat p s, EFloat p' s' => Nat.eqb p p' && String.eqb s s'
  | EBool p x, EBool p' x' => Nat.eqb p p' && Bool.eqb x x'
  | EList p l, EList p' l' => Nat.eqb p p' && list_eqb l l'
  | EAccess p l f, EAccess p' l' f' => Nat.eqb p p' && expr_eqb l l' && expr_eqb f f'
  | _, _ => false
  end.

Fixpoint exprs_eqb (x y : list expr) : bool :=
  match x, y with
  | [], [] => true
  | a :: x', b :: y' => expr_eqb a b && exprs_eqb x' y'
  | _, _ => false
  end.

Fixpoint pairs_eqb (x y : list (expr * expr)) : bool :=
  match x, y with
  | [], [] => true
  | (a, b) :: x', (c, d) :: y' => expr_eqb a c && expr_eqb b d && pairs_eqb x' y'
  | _, _ => false
  end.

(* the observed statement carries no names / ORDER BY positions: only the trees are compared *)
Definition stmt_eqb (a b : stmt) : bool :=
  match a, b with
  | SSelect f w _, SSelect f' w' _ => exprs_eqb (map snd f) (map snd f') && expr_eqb w w'
  | SPut p, SPut p' => pairs_eqb p p'
  | SRemove k, SRemove k' => exprs_eqb k k'
  | SDelete w, SDelete w' => expr_eqb w w'
  | _, _ => false
  end.

(* the typing verdict of Spec/Typing.v on a statement (Proofs/CheckerProofs.v [stmt_typed]) with
   the primitive floats *)
Definition stmt_typed (s : stmt) : bool := CheckerProofs.stmt_typed prim_fops s.

(* ---------------------------------------------------------------- T1: outcome classes *)
Inductive t1obs := TVal | TErr (cls : nat) (pos : Z) | TPanic.

Record evtree := EvTree {
  et_idx : nat;                          (* 0: WHERE, i+1: select field i *)
  et_rows : list t1obs;                  (* Execute on every stored pair, in store order *)
  et_batches : list (nat * list t1obs)   (* (B, ExecuteBatch on the consecutive chunks of B pairs) *)
}.

Record case := Case {
  cstmt : stmt;               (* the unchecked statement *)
  cmode : nat;                (* 0 full comparison and verdict
                                 1 a known-finding shape: twin comparison only
                                 2 judged by the harness only (outside the twin) *)
  obs_cls : nat;              (* BuildPlan: 0 plan returned, 1 ExecuteError, 2 SyntaxError, 3 other *)
  obs_pos : Z;                (* position carried by the error *)
  obs_calls : nat;            (* storage calls made by BuildPlan *)
  obs_tree : option stmt;     (* Parser.Parse's statement after the checker ran, when accepted *)
  obs_typeerr : bool;         (* some execution ended in an operand-type error *)
  obs_store : list (bytes * bytes);   (* T1: the pairs the trees were evaluated on *)
  obs_evals : list evtree     (* T1: observed outcome classes, [] = not observed *)
}.

Definition err_eqb (a b : err) : bool :=
  match a, b with
  | EExec p, EExec q | ESyntax p, ESyntax q => Nat.eqb p q
  | EOther, EOther => true
  | _, _ => false
  end.

Definition kind_code (k : fkind) : nat :=
  match k with FDivZero => 1 | FBetween => 2 | FDistance => 3 | FRegexp => 4 end.

Fixpoint find_kind (x : err) (l : list (fkind * err)) : option fkind :=
  match l with
  | [] => None
  | (k, y) :: l' => if err_eqb x y then Some k else find_kind x l'
  end.

(* 0 value, 1..4 data-dependent failure by kind, 10 operand-type error, 11 panic, 99 outside the model *)
Definition err_class (e : expr) (x : err) : nat :=
  match find_kind x (fsites e) with Some k => kind_code k | None => 10 end.

Definition res_class {A} (e : expr) (r : res A) : nat :=
  match r with Ok _ => 0 | Err x => err_class e x | Panic => 11 | OutOfModel => 99 end.

Definition obs_err (cls : nat) (pos : Z) : err :=
  match cls with 1 => EExec (Z.to_nat pos) | 2 => ESyntax (Z.to_nat pos) | _ => EOther end.

Definition obs_class (e : expr) (o : t1obs) : nat :=
  match o with TVal => 0 | TErr c p => err_class e (obs_err c p) | TPanic => 11 end.

Definition re_oom14 (pat text : bytes) : res bool := OutOfModel.

(* the premises of the type-safety theorems on one tree *)
Definition t1_prem (e : expr) : bool := node_okv prim_fops e && defs_ok (node_okv prim_fops) e.

Definition judge (prem : bool) (ct cg : nat) : nat :=
  if prem && (Nat.eqb cg 10 || Nat.eqb cg 11) then 5
  else if Nat.eqb ct 99 then 99
  else if Nat.eqb ct cg then 0 else 1.

Fixpoint worst14 (l : list nat) : nat :=
  match l with
  | [] => 0
  | x :: l' => let w := worst14 l' in
               if Nat.eqb x 0 then w else if Nat.eqb w 0 then x
               else if Nat.eqb x 99 then w else if Nat.eqb w 99 then x else Nat.max x w
  end.

Fixpoint zip_with {A B C} (f : A -> B -> C) (l : list A) (m : list B) : list C :=
  match l, m with
  | a :: l', b :: m' => f a b :: zip_with f l' m'
  | _, _ => []
  end.

Fixpoint chunks_of (fuel B : nat) (l : list (bytes * bytes)) : list (list (bytes * bytes)) :=
  match fuel, l with
  | S f, _ :: _ => firstn B l :: chunks_of f B (skipn B l)
  | _, _ => []
  end.

Definition check_tree (store : list (bytes * bytes)) (e : expr) (t : evtree) : nat :=
  let prem := t1_prem e in
  let rows := zip_with (fun kv o => judge prem (res_class e (eval prim_fops re_oom14 (fst kv) (snd kv) e))
                                               (obs_class e o)) store (et_rows t) in
  let batches :=
    map (fun bo : nat * list t1obs =>
           let B := Nat.max 1 (fst bo) in
           worst14 (zip_with (fun ch o => judge prem (res_class e (eval_batch prim_fops re_oom14 true e ch))
                                                      (obs_class e o))
                             (chunks_of (List.length store) B store) (snd bo)))
        (et_batches t) in
  worst14 (rows ++ batches).

(* (e) the FOLDED trees (harness/c14fold.go: EvTree entries with index 1000 + i).  The twin of what
   the plan evaluates is FoldStmt.exec_tree of the checked tree (Fold.fold plus the in-place state
   of the definitions references point to); the premises are those of the CHECKED tree
   (fold_keeps_type_safety: they carry over to the folded tree in their weak form); outcome classes
   are read off the data-dependent sites of the folded tree (a divisor folded to a literal
   reports the offset of the literal).  99 where the folder reaches a constant sub-tree the
   evaluator twin cannot evaluate (Pipeline.fold_oom). *)
Definition fold_base : nat := 1000.

Definition check_tree_folded (store : list (bytes * bytes)) (e : expr) (t : evtree) : nat :=
  if Pipeline.fold_oom prim_fops re_oom14 Fold.pf_fmt_v e then 99
  else
    let ef := FoldStmt.exec_tree prim_fops re_oom14 Fold.pf_fmt_v e in
    let prem := t1_prem e in
    let rows := zip_with (fun kv o => judge prem (res_class ef (eval prim_fops re_oom14 (fst kv) (snd kv) ef))
                                                 (obs_class ef o)) store (et_rows t) in
    let batches :=
      map (fun bo : nat * list t1obs =>
             let B := Nat.max 1 (fst bo) in
             worst14 (zip_with (fun ch o => judge prem (res_class ef (eval_batch prim_fops re_oom14 true ef ch))
                                                        (obs_class ef o))
                               (chunks_of (List.length store) B store) (snd bo)))
          (et_batches t) in
    worst14 (rows ++ batches).

Definition trees_of (s2 : stmt) : list expr :=
  match s2 with
  | SSelect f2 w2 _ => w2 :: map snd f2
  | SDelete w2 => [w2]
  | _ => []
  end.

Definition twin_vs_impl (c : case) : nat :=
  match build_check prim_fops true (cstmt c) with
  | OutOfModel => 99
  | Panic => 1
  | Ok s2 =>
      if negb (Nat.eqb (obs_cls c) 0) then 1
      else match obs_tree c with
           | Some t => if stmt_eqb s2 t then 0 else 1
           | None => 0
           end
  | Err (ESyntax p) =>
      if Nat.eqb (obs_cls c) 2 && Z.eqb (obs_pos c) (Z.of_nat p) then 0 else 1
  | Err _ => 1
  end.

Definition spec_verdict (c : case) : nat :=
  let typed := stmt_typed (cstmt c) in
  let accepted := Nat.eqb (obs_cls c) 0 in
  if accepted && negb typed then 2
  else if negb accepted && typed then 3
  else if negb accepted && negb (Nat.eqb (obs_calls c) 0) then 4
  else if accepted && typed && obs_typeerr c then 5
  else 0.

Definition check_evals (c : case) : nat :=
  match obs_evals c with
  | [] => 0
  | evs =>
      match build_check prim_fops true (cstmt c) with
      | Ok s2 =>
          let trees := trees_of s2 in
          worst14 (map (fun t => if Nat.leb fold_base (et_idx t)
                                 then match nth_error trees (et_idx t - fold_base) with
                                      | Some e => check_tree_folded (obs_store c) e t
                                      | None => 1
                                      end
                                 else
                                 match nth_error trees (et_idx t) with
                                 | Some e => check_tree (obs_store c) e t
                                 | None => 1
                                 end) evs)
      | OutOfModel => 99
      | _ => 1
      end
  end.

(* mode 3 (harness/c14agg.go): an aggregated SELECT TEXT, judged by Corr/C14Agg.v against
   Model/AggInit.parse_check_agg.  The text travels in obs_store (first pair, first component);
   obs_tree = Some _ says that the returned plan holds an AggregatePlan; obs_typeerr says that
   draining the accepted plan panicked; cstmt is not used. *)
Definition agg_case (c : case) : nat :=
  C14Agg.check_agg_text (match obs_store c with (q, _) :: _ => q | [] => ""%string end)
                        (obs_cls c) (obs_pos c) (obs_calls c)
                        (match obs_tree c with Some _ => true | None => false end) (obs_typeerr c).

Definition check_case (c : case) : nat :=
  match cmode c with
  | 3 => agg_case c
  | 2 => 0
  | 1 => worst14 [twin_vs_impl c; check_evals c]
  | _ =>
      match twin_vs_impl c with
      | 99 => 99
      | t => match spec_verdict c with
             | 0 => worst14 [t; check_evals c]
             | v => v
             end
      end
  end.

Fixpoint mism_from (i : nat) (cs : list case) : list (nat * nat) :=
  match cs with
  | [] => []
  | c :: cs' => match check_case c with
                | 0 => mism_from (S i) cs'
                | k => (i, k) :: mism_from (S i) cs'
                end
  end.
Definition mismatches (cs : list case) : list (nat * nat) := mism_from 0 cs.
