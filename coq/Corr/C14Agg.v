(* Corr/C14Agg.v -- correspondence and spec verdict for the aggregated SELECT texts of
   harness/c14agg.go (case mode 3 of Corr/C14.v): statement TEXTS with aggregate calls -- well and
   ill formed: every aggregate function x 0..3 arguments, constant-argument variants of quantile /
   group_concat, aggregates under operators / inside scalar calls / inside aggregates / in WHERE /
   ORDER BY / GROUP BY, fields missing from GROUP BY, ORDER BY + LIMIT heads, aggregate calls the
   constant folder removes -- against Model/AggInit.parse_check_agg (parse_check + the Init chain
   FinalOrderPlan.Init / AggregatePlan.Init / aggregate constructors), evaluated by vm_compute.

   observed: cls   BuildPlan: 0 plan returned, 1 ExecuteError, 2 SyntaxError, 3 other error
             pos   the position the error carries
             calls storage calls made by BuildPlan
             isagg the returned plan holds an AggregatePlan
             panicked  draining the accepted plan (row by row / in batches, three stores) panicked

   codes: 0  agree
          1  twin and implementation differ (accept / reject, error class, position, kind of plan)
          2  the implementation ACCEPTED a text that holds an aggregate call with a wrong number of
             arguments (C14: Properties/C14.v agg_arity_rejected)
          4  a rejected statement caused storage calls before the rejection
          5  an accepted aggregated statement panicked while its rows were computed
          6  a positional error of BuildPlan carries a position that is not -1, 0 or a token start
             inside the query (C17: agg_err_pos_is_token_start_and_in_query,
             agg_init_err_pos_is_token_start_and_in_query)
          99 outside the twin

   The twin is compared in its REPAIRED form (fxq = fxa = true).  A text on which the implementation
   differs from it but behaves as one of the PINNED variants (aggregate argument counts tested by
   AggregatePlan.Init only; quantile's parameter tested by `> 1.0` only) is not a code 1: whether
   that difference matters is decided by the verdicts 2 and 5 above, on the inputs where it does. *)
From Coq Require Import List String ZArith Bool Arith.
Import ListNotations.
From KV Require Import Base.Bytes Base.Num Base.Flt Model.Token Model.Ast Model.Value Model.Lexer
                       Model.ErrPos Model.StmtParser Model.ParseCheck Model.AggInit Model.Fold
                       Spec.CaretSpec Proofs.ErrPosProofs Corr.EvalCommon.
From KV Require Model.Checker.

Definition agg_twin (fxq fxa : bool) (q : string) : pares :=
  parse_check_agg prim_fops re_oom pf_fmt_v fxq fxa q.

(* 0 agree, 1 differ, 99 outside the twin *)
Definition agg_agree (r : pares) (cls : nat) (pos : Z) (isagg : bool) : nat :=
  match r with
  | PAOk _ _ a => if Nat.eqb cls 0 && Bool.eqb a isagg then 0 else 1
  | PAErr _ z => if Nat.eqb cls 2 && Z.eqb pos z then 0 else 1
  | PAInitErr (EExec p) => if Nat.eqb cls 1 && Z.eqb pos (Z.of_nat p) then 0 else 1
  | PAInitErr (ESyntax p) => if Nat.eqb cls 2 && Z.eqb pos (Z.of_nat p) then 0 else 1
  | PAInitErr EOther => if Nat.eqb cls 3 then 0 else 1
  | PAOutOfModel => 99
  | _ => 1
  end.

(* the fault, read off the PARSER's trees of the text (no checker, no folder involved) *)
Definition text_bad_arity (q : string) : bool :=
  match parse_real prim_fops (lex q) with
  | SOk s =>
      match to_check s with
      | Some c => existsb has_bad_aggr_arity (cstmt_exprs c)
      | None => false
      end
  | _ => false
  end.

Definition agg_pos_ok (q : string) (cls : nat) (pos : Z) : bool :=
  if Nat.eqb cls 1 || Nat.eqb cls 2
  then pos_is_token_start (zstarts (lex q)) pos && pos_in_query q pos
  else true.

Definition check_agg_text (q : string) (cls : nat) (pos : Z) (calls : nat) (isagg panicked : bool) : nat :=
  if negb (Nat.eqb cls 0) && negb (Nat.eqb calls 0) then 4
  else if Nat.eqb cls 0 && panicked then 5
  else if pc_oom prim_fops q (lex q) then 99
  else if negb (agg_pos_ok q cls pos) then 6
  else if Nat.eqb cls 0 && text_bad_arity q then 2
  else
    match agg_agree (agg_twin true true q) cls pos isagg with
    | 0 => 0
    | 99 => 99
    | _ =>
        if Nat.eqb (agg_agree (agg_twin true false q) cls pos isagg) 0
           || Nat.eqb (agg_agree (agg_twin false true q) cls pos isagg) 0
           || Nat.eqb (agg_agree (agg_twin false false q) cls pos isagg) 0
        then 0 else 1
    end.
