(* Corr/C15.v -- correspondence and spec verdict for C15, evaluated by vm_compute on the cases
   the harness observed on the implementation.

   A case is one query text as the implementation saw it:
     ctoks     Lexer.Split() of the query (the twin parser runs on exactly these tokens)
     cobs      what Parser.Parse() made of it: the WHERE expression, or the SyntaxError position
     ctext     Expression.String() of that expression
     crtoks    Lexer.Split() of ctext
     creparse  Parser.Parse() of "delete where " ++ ctext
     cprec     Token.Precedence() of every token of ctoks (kind 3)
   Codes: 0 agree; 1 twin <> implementation; >= 2 the implementation's own output violates the
   specification side (see props/C15.json). *)
From Coq Require Import List Arith Bool String ZArith.
Import ListNotations.
From KV Require Import Base.Num Model.Token Model.Ast Model.ExprParser Model.ErrPos Model.StmtParser.
From KV Require Corr.C15Text.

(* what Parser.Parse returned for a whole statement (kind 4), as the Go structs hold it:
   ORDER BY / GROUP BY items by Name (and direction), LIMIT as (Pos, Start, Count) *)
(* Start and Count in decimal (fmt %d), so that case files need no integer notation *)
Inductive golimit := GLimit (p : nat) (start count : string).
Inductive gostmt :=
  | GSelect (p : nat) (all : bool) (fields : list expr) (names : list string)
            (wpos : nat) (w : expr)
            (order : option (nat * list (string * bool)))     (* Pos, (Name, Order == DESC) *)
            (group : option (nat * list string))               (* Pos, Names *)
            (limit : option golimit)
  | GPut (p : nat) (pairs : list (expr * expr))
  | GRemove (p : nat) (keys : list expr)
  | GDelete (p : nat) (wpos : nat) (w : expr) (limit : option golimit).

Inductive obs := OTree (e : expr) | OErr (p : option nat) | ONone
  | OStmt (g : gostmt)      (* kind 4: the statement was accepted *)
  | OText (t : Corr.C15Text.tcase).   (* kind 5: text-level cases, see Corr/C15Text.v *)

Record case := Case {
  ckind : nat;          (* 0 raw parse (DELETE WHERE e, nothing type-checked)
                           1 accepted statement (WHERE e / SELECT .. WHERE e; ctoks from WHERE on)
                           2 flat operator sequence  a0 o1 a1 .. on  (DELETE WHERE ..)
                           3 precedence table
                           4 whole statement of any kind against Model/StmtParser.v:
                             cobs = OStmt (accepted) or OErr (rejected, by the parser or by the
                             checker); ctext .. cprec unused *)
  clexsafe : bool;      (* no literal of the tree needs or contains a quote character *)
  ctoks : list token;
  cobs : obs;
  ctext : string;
  crtoks : list token;
  creparse : obs;
  cprec : list nat
}.

Definition nat_list_eqb (a b : list nat) : bool :=
  if list_eq_dec Nat.eq_dec a b then true else false.

(* ---- 1: the twin against the implementation ------------------------------------------- *)

Definition twin_agrees (c : case) : bool :=
  match cobs c with
  | ONone => true
  | OTree e =>
      match parse_stmt (ctoks c) with
      | Some r => pres_eqb r (POk (unref e) [])
      | None => false
      end
  | OErr p =>
      (* a SyntaxError: the twin must refuse as well -- unless the text parses and the error sits
         at a node of the parsed tree: Parser.Parse also runs the type checker, whose refusals
         carry a node position (`where (false >= 0.25)`); the parser twin has no checker (the
         composition with the checker twin, accept / reject / position, is C17's parse_check).
         WHERE a syntax error is reported is the subject of C17 and is not compared here. *)
      match parse_stmt (ctoks c) with
      | Some (PErr _) => true
      | Some (POk e _) =>
          match p with
          | Some n => existsb (Nat.eqb n) (positions e)
          | None => false
          end
      | _ => false
      end
  | OStmt _ => false
  | OText _ => false
  end.

(* ---- 1, kind 4: the statement parser twin against Parser.Parse -------------------------- *)

Definition golimit_of (l : option limit_t) : option golimit :=
  match l with
  | Some x => Some (GLimit (l_pos x) (str_of_Z (l_start x)) (str_of_Z (l_count x)))
  | None => None
  end.

Definition is_desc (d : dir) : bool := match d with DDesc => true | DAsc => false end.

(* the twin's tree as the Go structs hold it *)
Definition project (s : stmt) : gostmt :=
  match s with
  | StSelect x =>
      GSelect (s_pos x) (s_all x) (s_fields x) (s_names x) (s_wpos x) (s_where x)
        (match s_order x with
         | Some o => Some (o_pos o, map (fun it => (item_name (fst it), is_desc (snd it))) (o_items o))
         | None => None
         end)
        (match s_group x with
         | Some g => Some (g_pos g, map item_name (g_items g))
         | None => None
         end)
        (golimit_of (s_limit x))
  | StPut p pairs => GPut p pairs
  | StRemove p keys => GRemove p keys
  | StDelete p wp w l => GDelete p wp w (golimit_of l)
  end.

Fixpoint exprs_eqb (a b : list expr) : bool :=
  match a, b with
  | [], [] => true
  | x :: a', y :: b' => expr_eqb x y && exprs_eqb a' b'
  | _, _ => false
  end.

Fixpoint strs_eqb (a b : list string) : bool :=
  match a, b with
  | [], [] => true
  | x :: a', y :: b' => String.eqb x y && strs_eqb a' b'
  | _, _ => false
  end.

Fixpoint pairs_eqb (a b : list (expr * expr)) : bool :=
  match a, b with
  | [], [] => true
  | (k, v) :: a', (k', v') :: b' => expr_eqb k k' && expr_eqb v v' && pairs_eqb a' b'
  | _, _ => false
  end.

Fixpoint oitems_eqb (a b : list (string * bool)) : bool :=
  match a, b with
  | [], [] => true
  | (n, d) :: a', (n', d') :: b' => String.eqb n n' && Bool.eqb d d' && oitems_eqb a' b'
  | _, _ => false
  end.

Definition golimit_eqb (a b : option golimit) : bool :=
  match a, b with
  | None, None => true
  | Some (GLimit p s c), Some (GLimit p' s' c') => Nat.eqb p p' && String.eqb s s' && String.eqb c c'
  | _, _ => false
  end.

(* twin tree [a] against the implementation's [b]; the checker has replaced field names by
   references in the implementation's trees ([unref]) *)
Definition gostmt_eqb (a b : gostmt) : bool :=
  match a, b with
  | GSelect p al fs ns wp w o g l, GSelect p' al' fs' ns' wp' w' o' g' l' =>
      Nat.eqb p p' && Bool.eqb al al' && exprs_eqb fs (map unref fs') && strs_eqb ns ns'
      && Nat.eqb wp wp' && expr_eqb w (unref w')
      && match o, o' with
         | None, None => true
         | Some (q, it), Some (q', it') => Nat.eqb q q' && oitems_eqb it it'
         | _, _ => false
         end
      && match g, g' with
         | None, None => true
         | Some (q, it), Some (q', it') => Nat.eqb q q' && strs_eqb it it'
         | _, _ => false
         end
      && golimit_eqb l l'
  | GPut p ps, GPut p' ps' =>
      Nat.eqb p p' && pairs_eqb ps (map (fun kv => (unref (fst kv), unref (snd kv))) ps')
  | GRemove p ks, GRemove p' ks' => Nat.eqb p p' && exprs_eqb ks (map unref ks')
  | GDelete p wp w l, GDelete p' wp' w' l' =>
      Nat.eqb p p' && Nat.eqb wp wp' && expr_eqb w (unref w') && golimit_eqb l l'
  | _, _ => false
  end.

(* The semantic tests parser.go runs in the middle of parsing (Model/StmtParser.hooks) are not
   modelled; for a statement the implementation rejected at offset p they are read off the
   observation (Model/StmtParser.observed_hooks). *)
Definition stmt_agrees (c : case) : bool :=
  match cobs c with
  | OStmt g =>
      (* accepted: the pure syntax accepts and builds the same statement *)
      match parse_statement (ctoks c) with
      | SOk s => gostmt_eqb (project s) g
      | _ => false
      end
  | OErr None =>
      (* rejected at end of input: only the syntax does that *)
      match parse_statement (ctoks c) with
      | SErr z => Z.eqb z (-1)
      | _ => false
      end
  | OErr (Some p) =>
      match parse_with (observed_hooks p) (ctoks c) with
      | SErr z => Z.eqb z (Z.of_nat p)           (* same offset *)
      | SOk s => mem_pos p (stmt_positions s)        (* the type checker refused it, at one of its nodes *)
      | _ => false
      end
  | _ => false
  end.

Definition render_agrees (c : case) : bool :=
  match cobs c with
  | OTree e =>
      String.eqb (render e) (ctext c) &&
      (negb (clexsafe c) || toks_eqb (map strip (crtoks c)) (rtoks e))
  | _ => true
  end.

Definition prec_agrees (c : case) : bool := nat_list_eqb (map precedence (ctoks c)) (cprec c).

(* ---- >= 2: the implementation's own output against the specification ------------------- *)

(* printed form re-parses to the same tree (positions erased, alias references as names) *)
Definition roundtrip_ok (c : case) : bool :=
  match cobs c, creparse c with
  | OTree e, OTree e' => expr_eqb (erase e) (erase e')
  | OTree _, _ => false
  | _, _ => true
  end.

(* flat sequence of single-token operands and binary operators -> operands and items *)
Fixpoint flat_items (ts : list token) : option (list item) :=
  match ts with
  | [] => Some []
  | o :: a :: ts' =>
      match atom_of a, flat_items ts' with
      | Some a', Some l => if Nat.ltb 0 (precedence o) then Some ((o, a') :: l) else None
      | _, _ => None
      end
  | _ => None
  end.

(* DELETE WHERE a0 o1 a1 ... : the tree the documentation prescribes *)
Definition flat_spec (ts : list token) : option expr :=
  match ts with
  | _ :: _ :: a0 :: rest =>
      match atom_of a0, flat_items rest with
      | Some x, Some l => Some (climb x l)
      | _, _ => None
      end
  | _ => None
  end.

Definition flat_ok (c : case) : bool :=
  match flat_spec (ctoks c), cobs c with
  | Some s, OTree e => expr_eqb s e
  | _, _ => false
  end.

Definition check_case (c : case) : nat :=
  match ckind c with
  | 3 => if prec_agrees c then 0 else 1
  | 4 => if stmt_agrees c then 0 else 1
  | 5 => match cobs c with OText t => Corr.C15Text.check_tcase t | _ => 1 end
  | k =>
      (* spec verdicts first: they are the arbiter *)
      if (Nat.eqb k 2) && negb (flat_ok c) then 4
      else if (Nat.eqb k 1) && negb (match cobs c with OTree e => rt_ok e | _ => true end) then 3
      else if clexsafe c && (Nat.eqb k 1 || match cobs c with OTree e => rt_ok e | _ => false end)
              && negb (roundtrip_ok c) then 2
      else if twin_agrees c && render_agrees c then 0 else 1
  end.

Fixpoint mism_from (i : nat) (cs : list case) : list (nat * nat) :=
  match cs with
  | [] => []
  | c :: cs' => match check_case c with
                | 0 => mism_from (S i) cs'
                | k => (i, k) :: mism_from (S i) cs'
                end
  end.
Definition mismatches (cs : list case) : list (nat * nat) := mism_from 0 cs.
