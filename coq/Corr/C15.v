(* Corr/C15.v -- correspondence and spec verdict for C15, evaluated by vm_compute on the cases
   the harness observed on the implementation.

   A case is one query text as the implementation saw it:
     ctoks     Lexer.Split() of the query (the twin parser runs on exactly these tokens)
     cobs      what Parser.Parse() made of it: the WHERE expression, or the SyntaxError position
     ctext     Expression.String() of that expression
     crtoks    Lexer.Split() of ctext
     creparse  Parser.Parse() of "delete where " ++ ctext
     cprec     Token.Precedence() of every token of ctoks (kind 3)
   Codes: 0 agree; 1 twin <> implementation; >= 2 the implementation's own output violates the
   specification side (see props/C15.json). *)
From Coq Require Import List Arith Bool String.
Import ListNotations.
From KV Require Import Model.Token Model.Ast Model.ExprParser.

Inductive obs := OTree (e : expr) | OErr (p : option nat) | ONone.

Record case := Case {
  ckind : nat;          (* 0 raw parse (DELETE WHERE e, nothing type-checked)
                           1 accepted statement (WHERE e / SELECT .. WHERE e; ctoks from WHERE on)
                           2 flat operator sequence  a0 o1 a1 .. on  (DELETE WHERE ..)
                           3 precedence table *)
  clexsafe : bool;      (* no literal of the tree needs or contains a quote character *)
  ctoks : list token;
  cobs : obs;
  ctext : string;
  crtoks : list token;
  creparse : obs;
  cprec : list nat
}.

Definition nat_list_eqb (a b : list nat) : bool :=
  if list_eq_dec Nat.eq_dec a b then true else false.

(* ---- 1: the twin against the implementation ------------------------------------------- *)

Definition twin_agrees (c : case) : bool :=
  match cobs c with
  | ONone => true
  | OTree e =>
      match parse_stmt (ctoks c) with
      | Some r => pres_eqb r (POk (unref e) [])
      | None => false
      end
  | OErr _ =>
      (* a SyntaxError: the twin must refuse as well.  WHERE the error is reported is the
         subject of C17, not an observable of this property, and is not compared. *)
      match parse_stmt (ctoks c) with
      | Some (PErr _) => true
      | _ => false
      end
  end.

Definition render_agrees (c : case) : bool :=
  match cobs c with
  | OTree e =>
      String.eqb (render e) (ctext c) &&
      (negb (clexsafe c) || toks_eqb (map strip (crtoks c)) (rtoks e))
  | _ => true
  end.

Definition prec_agrees (c : case) : bool := nat_list_eqb (map precedence (ctoks c)) (cprec c).

(* ---- >= 2: the implementation's own output against the specification ------------------- *)

(* printed form re-parses to the same tree (positions erased, alias references as names) *)
Definition roundtrip_ok (c : case) : bool :=
  match cobs c, creparse c with
  | OTree e, OTree e' => expr_eqb (erase e) (erase e')
  | OTree _, _ => false
  | _, _ => true
  end.

(* flat sequence of single-token operands and binary operators -> operands and items *)
Fixpoint flat_items (ts : list token) : option (list item) :=
  match ts with
  | [] => Some []
  | o :: a :: ts' =>
      match atom_of a, flat_items ts' with
      | Some a', Some l => if Nat.ltb 0 (precedence o) then Some ((o, a') :: l) else None
      | _, _ => None
      end
  | _ => None
  end.

(* DELETE WHERE a0 o1 a1 ... : the tree the documentation prescribes *)
Definition flat_spec (ts : list token) : option expr :=
  match ts with
  | _ :: _ :: a0 :: rest =>
      match atom_of a0, flat_items rest with
      | Some x, Some l => Some (climb x l)
      | _, _ => None
      end
  | _ => None
  end.

Definition flat_ok (c : case) : bool :=
  match flat_spec (ctoks c), cobs c with
  | Some s, OTree e => expr_eqb s e
  | _, _ => false
  end.

Definition check_case (c : case) : nat :=
  match ckind c with
  | 3 => if prec_agrees c then 0 else 1
  | k =>
      (* spec verdicts first: they are the arbiter *)
      if (Nat.eqb k 2) && negb (flat_ok c) then 4
      else if (Nat.eqb k 1) && negb (match cobs c with OTree e => rt_ok e | _ => true end) then 3
      else if clexsafe c && (Nat.eqb k 1 || match cobs c with OTree e => rt_ok e | _ => false end)
              && negb (roundtrip_ok c) then 2
      else if twin_agrees c && render_agrees c then 0 else 1
  end.

Fixpoint mism_from (i : nat) (cs : list case) : list (nat * nat) :=
  match cs with
  | [] => []
  | c :: cs' => match check_case c with
                | 0 => mism_from (S i) cs'
                | k => (i, k) :: mism_from (S i) cs'
                end
  end.
Definition mismatches (cs : list case) : list (nat * nat) := mism_from 0 cs.
