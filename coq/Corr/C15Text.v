(* Corr/C15Text.v -- correspondence for the TEXT-level part of C15 (kinds 5..7 of Corr/C15.v):
   the lexer twin (Model/Lexer.v) run on the rendering / on the EXPLAIN line, composed with the
   parser twin, against what Lexer.Split, Parser.Parse, Expression.String() and the scan nodes'
   Explain() did.

     TText e text toks re         e     a tree the library built (parsed, checked or folded)
                                  text  e.String()
                                  toks  Lexer.Split(text)
                                  re    the WHERE tree of Parser.Parse("delete where " + text)
     TCase q1 q2 toks1 toks2      q2 is q1 with the letter case of bytes outside quotes changed;
                                  toksi = Lexer.Split(qi)
     TExplain sc f line toks re   sc    the scan node of the plan (access path)
                                  f     the tree its FilterExec holds (what the node runs)
                                  line  the node's Explain() line
                                  toks  Lexer.Split of the filter text cut out of the line by the
                                        harness (between the head of known length and the final '})
                                  re    Parser.Parse("delete where " + that text)

   Codes: 0 agree; 1 twin <> implementation; 2 the rendering does not re-parse to the same tree;
   5 letter case outside quotes changed the tokens; 6 the filter EXPLAIN shows does not re-parse
   to the filter the node runs; 99 outside the lexer twin's model. *)
From Coq Require Import List Arith Bool String.
Import ListNotations.
From KV Require Import Base.Bytes Model.Token Model.Ast Model.Lexer Model.ExprParser Spec.LexSpec
                       Model.RenderText Model.ScanIO Model.ExplainText.

Inductive tcase :=
  | TText (e : expr) (text : string) (toks : list token) (re : option expr)
  | TCase (q1 q2 : string) (toks1 toks2 : list token)
  | TExplain (sc : scan) (f : expr) (line : string) (toks : list token) (re : option expr).

(* the twin's round trip on a text, judged against the tree it should give back *)
Definition twin_reparses (text : string) (e : expr) : bool :=
  match parse_expr_top (lex text) with
  | POk e' [] => expr_eqb (erase e') (erase e)
  | _ => false
  end.

Definition impl_reparses (re : option expr) (e : expr) : bool :=
  match re with
  | Some e2 => expr_eqb (erase e2) (erase e)
  | None => false
  end.

(* [viol]: the code reported when the implementation's own re-parse differs *)
Definition check_rendering (viol : nat) (e : expr) (text : string) (toks : list token)
           (re : option expr) : nat :=
  if lex_oom text then 99
  else if negb (String.eqb (render_text e) text) then 1
  else if negb (toks_eqb (lex text) toks) then 1
  else if txt_ok e then
    (* lex_render_rtoks: cannot fail once the two tests above have passed *)
    if negb (toks_eqb (map strip toks) (rtoks e)) then 1
    else if rt_ok e then
      if negb (impl_reparses re e) then viol
      else if twin_reparses text e then 0 else 1
    else 0
  else 0.

Definition check_tcase (t : tcase) : nat :=
  match t with
  | TText e text toks re => check_rendering 2 e text toks re
  | TCase q1 q2 toks1 toks2 =>
      if lex_oom q1 || lex_oom q2 then 99
      else if negb (toks_eqb toks1 toks2) then 5
      else if toks_eqb (lex q1) toks1 && toks_eqb (lex q2) toks2 then 0 else 1
  | TExplain sc f line toks re =>
      if negb (String.eqb (explain_scan sc f) line) then
        (if lex_oom (render_text f) then 99 else 1)
      else
        match explain_filter_text sc line with
        | None => (match toks, re with [], None => 0 | _, _ => 1 end)   (* EmptyResultPlan *)
        | Some txt => check_rendering 6 f txt toks re
        end
  end.
