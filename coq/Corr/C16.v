(* Corr/C16.v -- correspondence and spec verdict for C16, evaluated by vm_compute on the
   token lists the harness observed from Lexer.Split.

   code 0  agree (or out of model on both sides: counted by the harness, not compared)
        1  the twin (Model/Lexer.v) and the implementation return different tokens, or they
           disagree on whether the input is inside the modelled fragment
        2  a token of the implementation does not carry its true offset / text (Spec [tok_ok])
        3  tokens are not in source order or their spans overlap
        4  the tokens of a rendered lexeme sequence are not the lexemes' tokens (a literal split,
           truncated or merged, a two-character operator in two pieces, spacing changed the result)
        5  a byte that is not a blank belongs to no token (silently dropped)
        9  malformed case (the generator rendered the lexemes differently from Spec [render]) *)
From Coq Require Import String Ascii List Bool Arith.
From KV Require Import Base.Bytes Model.Token Model.Lexer Spec.LexSpec.
Import ListNotations.

Record case := Case {
  cq : string;                                   (* the query text *)
  citems : option (list item * string);          (* the lexemes and gaps it was rendered from *)
  coom : bool;                                   (* the harness classified it as out of model *)
  cobs : list token                              (* Lexer.Split() of the implementation *)
}.

Definition tokens_eqb (a b : list token) : bool := list_eqb token_eqb a b.

Definition model_cmp (q : string) (obs : list token) : nat :=
  if tokens_eqb (lex q) obs then 0 else 1.

Definition check_case (c : case) : nat :=
  let q := cq c in
  let obs := cobs c in
  if lex_oom q then (if coom c then 0 else 1)
  else if coom c then 1
  else if negb (forallb (tok_ok_b q) obs) then 2
  else if negb (ordered_from q 0 obs) then 3
  else if negb (tiles q obs) then 5
  else
    match citems c with
    | Some (items, tail) =>
        if negb (String.eqb (render items tail) q && admissible items tail) then 9
        else if negb (tokens_eqb obs (expected items 0)) then 4
        else model_cmp q obs
    | None => model_cmp q obs
    end.

(* Compact input syntax for the generated case files.  Elaborating string literals and
   implicit-argument list / pair notations dominated the cost of a shard; these first-order
   constructors (bytes as the constructors x00..xff of Init.Byte) are about 2.5x cheaper. *)
Inductive bl := BN | BC (b : Init.Byte.byte) (r : bl).
Fixpoint bl_string (l : bl) : string :=
  match l with
  | BN => EmptyString
  | BC b r => String (Ascii.ascii_of_byte b) (bl_string r)
  end.

Inductive tl := TN | TC (t : toktype) (d : bl) (p : nat) (r : tl).
Fixpoint tl_tokens (l : tl) : list token :=
  match l with
  | TN => []
  | TC t d p r => Tok t (bl_string d) p :: tl_tokens r
  end.

Inductive lx := XW (w : bl) | XQ (c : Init.Byte.byte) (b : bl) | XS (s : bl).
Definition lx_lexeme (x : lx) : lexeme :=
  match x with
  | XW w => LWord (bl_string w)
  | XQ c b => LQuote (Ascii.ascii_of_byte c) (bl_string b)
  | XS s => LSym (bl_string s)
  end.

Inductive il := IN_ | IC (g : bl) (x : lx) (r : il).
Fixpoint il_items (l : il) : list item :=
  match l with
  | IN_ => []
  | IC g x r => (bl_string g, lx_lexeme x) :: il_items r
  end.

Inductive io := NoItems | Items (i : il) (tail : bl).

Definition mk (q : bl) (i : io) (o : bool) (obs : tl) : case :=
  Case (bl_string q)
       (match i with NoItems => None | Items l t => Some (il_items l, bl_string t) end)
       o (tl_tokens obs).

Fixpoint mism_from (i : nat) (cs : list case) : list (nat * nat) :=
  match cs with
  | [] => []
  | c :: cs' => match check_case c with
                | 0 => mism_from (S i) cs'
                | k => (i, k) :: mism_from (S i) cs'
                end
  end.
Definition mismatches (cs : list case) : list (nat * nat) := mism_from 0 cs.
