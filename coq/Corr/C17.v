(* Corr/C17.v -- correspondence and spec verdict for C17, evaluated by vm_compute on the cases
   the harness observed on the implementation.

   A case is one positional error (SyntaxError / ExecuteError) together with the query it was
   bound to, the padding that was set, and the full text err.Error() returned.

   codes: 0 agree (or input outside the model, counted by the harness);
          1 the twin renders a different text than the implementation (correspondence broken);
          2 the position is neither -1 nor a byte offset inside the query      (property violated)
          3 a parse/check error's position is not -1, 0 or a token start        (property violated;
            token starts as the lexer twin computes them from the query text, where it covers it)
          4 the rendered text does not show the surrounding stretch with the caret under the
            byte at the position                                                (property violated)
          5 rendering the error panicked                                        (property violated)
   A case with corigin = 4 (PA) is one statement TEXT with what Optimizer.BuildPlan did with it:
   the composite twin Model/ParseCheck.parse_check (lexer, parser with the real mid-parse tests,
   checker, call validation, the folder on the select fields, buildFinalPlan's tests on the
   folded fields) is run on the text and compared -- accepted
   / rejected, the error position, the stage that rejected (inside Parser.Parse or after it),
   and for accepted statements the checked trees (field references by name) and every
   statement / clause position; the references between the fields of a statement that passed the
   cycle test can be ranked (the premise of C14's statement theorems).  A difference is code 1, a rejection position outside the
   query code 2, one that is no token start code 3, a text outside the model code 99.
   A case with corigin = 5 (T3) is an ACCEPTED statement text that fails while its plan is
   drained, with the store, the batch size and the class / Pos of the error of the row drain and
   of the batch drain: parse_check, the statement-level folder twin (Model/FoldStmt.exec_tree) and
   the drain twins (Model/ScanProj.select_row / select_batch) are run on the same text and store;
   a different class or position is code 1, a Pos outside the query code 2 (see t3_code below).
   A case with corigin = 6 (G2) is an ACCEPTED statement text of ANY shape (GROUP BY / aggregates /
   ORDER BY / LIMIT) that fails while its plan is drained (or a text AggregatePlan.Init rejects),
   encoded like corigin = 5; the text twin of Model/PipelineS.v with the completion errors of
   Model/AggErrPos.v (select_stmt_text_stp) is run on the same text and store (see g2_code below).
   A case with corigin = 3 is an accepted statement: its trees (before and after constant
   folding) and statement positions are checked against the provenance invariant of
   Model/ErrPos.v (every Pos is 0 or a token's Pos, token offsets inside the query); a failure
   is code 1 (the hypothesis under which err_pos_is_token_start_partial is stated does not hold
   of the implementation). *)
From Coq Require Import String Ascii ZArith NArith List Bool.
From KV Require Import Model.Token Model.Ast Model.ErrRender Model.ErrPos Spec.CaretSpec Model.Lexer.
From KV Require Import Base.Flt Model.StmtParser Model.ParseCheck.
From KV Require Model.Checker Proofs.SelectProofs.
From KV Require Model.Value Model.Fold.
Import ListNotations.
Local Open Scope string_scope.
Local Open Scope Z_scope.

Record ncase := NCase {
  cerr : nat;             (* 0 SyntaxError, 1 ExecuteError *)
  corigin : nat;          (* 0 constructed by the harness (renderer grid), 1 returned by BuildPlan
                             (parse / check / plan construction), 2 returned while executing,
                             3 no error: accepted statement, provenance of its trees,
                             4 statement text vs parse_check, 5 failing run vs the evaluator twins,
                             6 failing run of any SELECT shape vs the text twin *)
  cquery : string;        (* the text passed to BindQuery *)
  cpos : Z;               (* .Pos *)
  cpad : Z;               (* SetPadding *)
  cmsg : string;          (* .Message, opaque *)
  ctoks : list Z;         (* Pos of every token of Lexer.Split(query) *)
  cobs : option string;   (* err.Error(); None = it panicked *)
  croots : list expr;     (* corigin = 3: the statement's expression trees *)
  cspos : list nat        (* corigin = 3: Pos of the statement and of its clauses *)
}.

Definition case_error (c : ncase) : qerror :=
  QError (match cerr c with O => SyntaxErr | _ => ExecuteErr end)
         (cquery c) (cmsg c) (cpos c) (cpad c).

Definition model_text (c : ncase) : outcome string := error_text true (case_error c).

(* ---- reading the two lines back from the observed text ---- *)
Fixpoint strip_list (p l : list ascii) : option (list ascii) :=
  match p with
  | [] => Some l
  | a :: p' => match l with
               | b :: l' => if Ascii.eqb a b then strip_list p' l' else None
               | [] => None
               end
  end.

Fixpoint count_sp (l : list ascii) (n : nat) : nat * list ascii :=
  match l with
  | a :: l' => if Ascii.eqb a " " then count_sp l' (S n) else (n, l)
  | [] => (n, [])
  end.

Definition rev_bytes (s : string) : list ascii := rev (list_ascii_of_string s).

(* obs = line1 ++ "\n" ++ spaces c ++ "^--\n" ++ tail  ==>  Some (line1, c) *)
Definition parse_render (tail obs : string) : option (string * Z) :=
  match strip_list (rev_bytes tail) (rev_bytes obs) with
  | None => None
  | Some r1 =>
      match strip_list (rev_bytes ("^--" ++ nl)) r1 with
      | None => None
      | Some r2 =>
          match count_sp r2 0 with
          | (c, a :: r4) =>
              if Ascii.eqb a (ascii_of_N 10)
              then Some (string_of_list_ascii (rev r4), Z.of_nat c) else None
          | _ => None
          end
      end
  end.

Definition tail_of (c : ncase) : string :=
  generate_pads (cpad c) ++ kind_label (e_kind (case_error c)) ++ cmsg c.

Definition spec_caret (c : ncase) (obs : string) : bool :=
  if String.eqb (cquery c) "" then true          (* nothing bound: no rendering *)
  else if caret_applies (cquery c) (cpos c) (cpad c) then
    match parse_render (tail_of c) obs with
    | Some (line1, col) => caret_ok (cquery c) (cpos c) (cpad c) line1 col
    | None => false
    end
  else true.

(* the token starts of the query: where the lexer twin (Model/Lexer.v, proved against the
   lexical specification in C16) covers the text, ITS offsets -- the property speaks of the
   query's tokens, not of whatever offsets Lexer.Split reports; otherwise the reported ones *)
Definition true_starts (c : ncase) : list Z :=
  if lex_oom (cquery c) then ctoks c
  else map (fun t => Z.of_nat (pos t)) (lex (cquery c)).

Definition zlist_eqb (a b : list Z) : bool :=
  Nat.eqb (List.length a) (List.length b) && forallb (fun p => Z.eqb (fst p) (snd p)) (combine a b).

Definition spec_code (c : ncase) : nat :=
  match cobs c with
  | None => 5
  | Some obs =>
      if (0 <? corigin c)%nat && negb (pos_in_query (cquery c) (cpos c)) then 2
      else if (corigin c =? 1)%nat && negb (pos_is_token_start (true_starts c) (cpos c)) then 3
      else if (corigin c =? 1)%nat && negb (zlist_eqb (true_starts c) (ctoks c)) then 1
      else if negb (spec_caret c obs) then 4
      else 0
  end.

Definition corr_code (c : ncase) : nat :=
  match cobs c, model_text c with
  | Some obs, Ok m => if String.eqb obs m then 0 else 1
  | None, Panic => 0
  | _, _ => 1
  end.

Definition prov_code (c : ncase) : nat :=
  let starts := map Z.to_nat (ctoks c) in
  if stmt_prov_b starts (croots c) (cspos c)
     && starts_in_query (String.length (cquery c)) starts
     && forallb (fun z => 0 <=? z) (ctoks c)
  then 0 else 1.

(* ---- corigin = 4: query text -> accept / reject through the composite twin ---- *)

(* the parameters of the folder inside parse_check (buildFinalPlan looks at the FOLDED select
   fields): no regular expression is modelled here -- a constant `=~` inside a select field puts
   the text outside the model (ParseCheck.plan_oom), code 99 --, floats are printed by
   Fold.pf_fmt_v *)
Definition t3_re (pat text : string) : Value.res bool := Value.OutOfModel.
Definition pa_parse_check (q : string) : pcres := parse_check prim_fops t3_re Fold.pf_fmt_v q.

Fixpoint pa_expr_eqb (a b : expr) {struct a} : bool :=
  let list_eqb :=
    fix go (x y : list expr) : bool :=
      match x, y with
      | [], [] => true
      | a' :: x', b' :: y' => pa_expr_eqb a' b' && go x' y'
      | _, _ => false
      end in
  match a, b with
  | EBin p o l r, EBin p' o' l' r' => Nat.eqb p p' && op_eqb o o' && pa_expr_eqb l l' && pa_expr_eqb r r'
  | EField p KeyKW, EField p' KeyKW | EField p ValueKW, EField p' ValueKW => Nat.eqb p p'
  | EStr p s, EStr p' s' => Nat.eqb p p' && String.eqb s s'
  | ENot p r, ENot p' r' => Nat.eqb p p' && pa_expr_eqb r r'
  | ECall p n l, ECall p' n' l' => Nat.eqb p p' && pa_expr_eqb n n' && list_eqb l l'
  | EName p s, EName p' s' => Nat.eqb p p' && String.eqb s s'
  | ERef p s _, ERef p' s' _ => Nat.eqb p p' && String.eqb s s'      (* by name *)
  | ENum p s, ENum p' s' => Nat.eqb p p' && String.eqb s s'
  | EFloat p s, EFloat p' s' => Nat.eqb p p' && String.eqb s s'
  | EBool p x, EBool p' x' => Nat.eqb p p' && Bool.eqb x x'
  | EList p l, EList p' l' => Nat.eqb p p' && list_eqb l l'
  | EAccess p l f, EAccess p' l' f' => Nat.eqb p p' && pa_expr_eqb l l' && pa_expr_eqb f f'
  | _, _ => false
  end.

Fixpoint pa_exprs_eqb (x y : list expr) : bool :=
  match x, y with
  | [], [] => true
  | a :: x', b :: y' => pa_expr_eqb a b && pa_exprs_eqb x' y'
  | _, _ => false
  end.

Fixpoint pa_nats_eqb (x y : list nat) : bool :=
  match x, y with
  | [], [] => true
  | a :: x', b :: y' => Nat.eqb a b && pa_nats_eqb x' y'
  | _, _ => false
  end.

(* the observation, packed into the fields of a case:
     cerr   0 BuildPlan returned a plan, 1 SyntaxError, 2 ExecuteError, 3 any other error
     cpos   the error's Pos
     cspos  stage :: positions;  stage 0 = Parser.Parse itself returned the error,
            1 = Parse accepted, the error came later in BuildPlan, 2 = accepted;
            positions (accepted only; [] = not recorded) = Pos of the statement and its clauses
     croots (accepted only; [] = not recorded) the trees of Parser.Parse's statement: fields ++
            [where] / pairs / keys / [where] *)
Definition pa_stage (c : ncase) : nat := match cspos c with s :: _ => s | [] => 9 end.
Definition pa_spos (c : ncase) : list nat := match cspos c with _ :: l => l | [] => [] end.

Definition pa_kind_stage (k : pckind) : nat :=
  match k with
  | KSyntax | KMidParse | KCheck => 0
  | KCalls | KPlan => 1
  end.

Definition pa_accept_code (c : ncase) (s : stmt) (cs : Checker.stmt) : nat :=
  if match croots c with [] => false | _ => negb (pa_exprs_eqb (cstmt_exprs cs) (croots c)) end then 1
  else if match pa_spos c with [] => false | l => negb (pa_nats_eqb (stmt_own_positions s) l) end then 1
  else 0.

Definition pa_spec_code (c : ncase) : nat :=
  if ((cerr c =? 1) || (cerr c =? 2))%nat then
    if negb (pos_in_query (cquery c) (cpos c)) then 2
    else if negb (pos_is_token_start (map (fun t => Z.of_nat (pos t)) (lex (cquery c))) (cpos c)) then 3
    else 0
  else 0.

(* A statement that passed checkFieldCycles (every statement parse_check does not reject in the
   middle of parsing): the references between its fields can be ranked -- the premise
   [fields_ranked] of C14's statement theorems (Properties/C14.v), in its computable form
   SelectProofs.ranked_b, evaluated here on every accepted statement; failing it is code 1 (the
   cycle test let through a statement the theorems do not cover). *)
Definition pa_ranked (s : stmt) : bool :=
  match s with
  | StSelect x =>
      (* (a field that is only a field name is never resolved and the cycle test skips it:
         outside the theorems by their second premise, fields_no_bare) *)
      negb (SelectProofs.no_bare_b (combine (s_names x) (s_fields x)))
      || SelectProofs.ranked_b (combine (s_names x) (s_fields x))
  | _ => true
  end.

Definition pa_code (c : ncase) : nat :=
  match pa_parse_check (cquery c) with
  | PCOutOfModel => 99
  | PCPanic | PCFuel | PCOther => 1
  | PCErr k z =>
      match pa_spec_code c with
      | O => if (cerr c =? 1)%nat && (cpos c =? z) && (pa_stage c =? pa_kind_stage k)%nat then 0 else 1
      | v => v
      end
  | PCOk s cs aggr =>
      if negb (pa_ranked s) then 1
      else if (cerr c =? 0)%nat then pa_accept_code c s cs
      else if aggr && (pa_stage c =? 1)%nat then 99      (* AggregatePlan.Init: not modelled *)
      else match pa_spec_code c with O => 1 | v => v end
  end.

(* who decided, for the measured distribution: 0 accepted, 1 syntax, 2 mid-parse test, 3 checker,
   4 call validation, 5 buildFinalPlan, 9 outside the model *)
Definition pa_class (q : string) : nat :=
  match pa_parse_check q with
  | PCOk _ _ _ => 0
  | PCErr KSyntax _ => 1 | PCErr KMidParse _ => 2 | PCErr KCheck _ => 3 | PCErr KCalls _ => 4
  | PCErr KPlan _ => 5
  | _ => 9
  end.

(* ---- corigin = 5 (T3): execution errors of ACCEPTED statements, through the composite twin ----
   One case = one statement text that BuildPlan accepts, one store, one batch size, and what the
   drain of the plan did in row mode (Next until nil) and in batch mode (Batch until empty): no
   error, or the class and Pos of the error.  The twin side: parse_check on the text, the trees
   the plan executes (Model/FoldStmt.exec_tree: the constant folder applied to WHERE and to every
   field, references re-pointed to the field objects as the folder left them), and the scan +
   filter + projection drain of Model/ScanProj.v (select_row / select_batch) on the store.
     cerr / cpos   row mode:   0 no error, 1 ExecuteError, 2 SyntaxError, 3 other error, 4 panic; Pos
     cspos         [class of the batch-mode outcome; batch size; 1 = the plan is ProjectionPlan over
                   FullScanPlan (every stored pair is a slot, in key order), 0 = a narrowed scan]
     cpad          batch mode: Pos
     croots        the store: EStr 0 key; EStr 0 value; ... in key order
   codes: 2 an execution error's Pos is neither -1 nor inside the query; 1 the twin reports
   another outcome (other class, other position) than the implementation; 99 outside the twins
   (parse_check, ORDER BY / GROUP BY / LIMIT / aggregates, regular expressions, floats outside
   the model).  With a narrowed scan the slots are not modelled here (C02 / C18): the observed
   position must then be one of the positions of the executed trees (what Properties/C17.v
   select_err_pos proves of every drain). *)
From KV Require Model.Value Model.Eval Model.EvalVec Model.Fold Model.FoldStmt Model.ScanProj.

Fixpoint t3_slots (l : list expr) : list (option EvalVec.kvpair) :=
  match l with
  | EStr _ k :: EStr _ v :: l' => Some (k, v) :: t3_slots l'
  | _ => []
  end.

(* outcome of a drain against the observed (class, Pos) *)
Definition t3_cmp {A} (r : Value.res A) (cls : nat) (p : Z) : nat :=
  match r with
  | Value.OutOfModel => 99%nat
  | Value.Ok _ => if (cls =? 0)%nat then 0%nat else 1%nat
  | Value.Err (Value.EExec n) => if (cls =? 1)%nat && (p =? Z.of_nat n)%Z then 0%nat else 1%nat
  | Value.Err (Value.ESyntax n) => if (cls =? 2)%nat && (p =? Z.of_nat n)%Z then 0%nat else 1%nat
  | Value.Err Value.EOther => if (cls =? 3)%nat then 0%nat else 1%nat
  | Value.Panic => if (cls =? 4)%nat then 0%nat else 1%nat
  end.

Definition t3_worst (a b : nat) : nat :=
  if ((a =? 1) || (b =? 1))%nat then 1%nat
  else if ((a =? 99) || (b =? 99))%nat then 99%nat
  else Nat.max a b.

(* narrowed scan: a positional error must carry a position of the executed trees *)
Definition t3_member (allowed : list nat) (cls : nat) (p : Z) : nat :=
  if ((cls =? 1) || (cls =? 2))%nat
  then (if existsb (fun n => (p =? Z.of_nat n)%Z) allowed then 0%nat else 1%nat)
  else 0%nat.

Definition t3_spec_code (c : ncase) (bcls : nat) : nat :=
  if (((cerr c =? 1) || (cerr c =? 2))%nat && negb (pos_in_query (cquery c) (cpos c)))
     || (((bcls =? 1) || (bcls =? 2))%nat && negb (pos_in_query (cquery c) (cpad c)))
  then 2%nat else 0%nat.

Definition t3_code (c : ncase) : nat :=
  match cspos c with
  | [bcls; B; full] =>
      match t3_spec_code c bcls with
      | S _ => 2%nat
      | O =>
        match pa_parse_check (cquery c) with
        | PCOutOfModel => 99%nat
        | PCOk (StSelect x) (Checker.SSelect fields w _) false =>
            match s_order x, s_group x, s_limit x with
            | None, None, None =>
                let ex := FoldStmt.exec_tree prim_fops t3_re Fold.pf_fmt_v in
                let w' := ex w in
                let fs := if s_all x then None else Some (map (fun nf => ex (snd nf)) fields) in
                if (0 <? full)%nat then
                  let slots := t3_slots (croots c) in
                  t3_worst (t3_cmp (ScanProj.select_row prim_fops t3_re w' fs slots) (cerr c) (cpos c))
                           (t3_cmp (ScanProj.select_batch prim_fops t3_re B w' fs slots) bcls (cpad c))
                else
                  let allowed := (positions w' ++ match fs with Some l => flat_map positions l | None => [] end)%list in
                  t3_worst (t3_member allowed (cerr c) (cpos c)) (t3_member allowed bcls (cpad c))
            | _, _, _ => 99%nat
            end
        | PCOk _ _ _ => 99%nat
        | _ => 1%nat
        end
      end
  | _ => 1%nat
  end.

(* ---- corigin = 6 (G2): execution errors of ACCEPTED statements of EVERY shape -- GROUP BY /
   aggregates / ORDER BY / LIMIT -- through the text twin of Model/PipelineS.v with the positions
   of the completion errors of AggregatePlan.next / batch (Model/AggErrPos.v
   select_stmt_text_stp).  Fields as for corigin = 5; the third entry of cspos is 1 when
   BuildPlan accepted the text (the outcomes are those of the two drains) and 0 when BuildPlan
   itself returned the error (AggregatePlan.Init: both outcomes are that error).  The scan node
   and its slots are computed by the twin from the text and the store (PipelineS.scan_slots), so
   narrowed scans are compared like full scans.  codes as for corigin = 5. *)
From KV Require Model.Storage Model.Pipeline Model.PipelineS Model.AggErrPos Model.Order Corr.C03Stmt.

Fixpoint g2_store (l : list expr) : Storage.store :=
  match l with
  | EStr _ k :: EStr _ v :: l' => (k, v) :: g2_store l'
  | _ => []
  end.

Definition g2_cmp (built : bool) (r : PipelineS.stres (list Order.row)) (cls : nat) (p : Z) : nat :=
  match r with
  | PipelineS.STOom => 99%nat
  | PipelineS.STOk _ => if built && (cls =? 0)%nat then 0%nat else 1%nat
  | PipelineS.STRunErr e => if built then t3_cmp (@Value.Err unit e) cls p else 1%nat
  | PipelineS.STRunPanic => if built && (cls =? 4)%nat then 0%nat else 1%nat
  | PipelineS.STReject z => if negb built && (cls =? 2)%nat && (p =? z)%Z then 0%nat else 1%nat
  | PipelineS.STBuildErr e => if negb built then t3_cmp (@Value.Err unit e) cls p else 1%nat
  | _ => 1%nat
  end.

Definition g2_run (q : string) (d : Storage.store) (m : Pipeline.tmode) : PipelineS.stres (list Order.row) :=
  AggErrPos.select_stmt_text_stp prim_fops t3_re Fold.pf_fmt_v C03Stmt.ag64 C03Stmt.q_pint C03Stmt.q_pfloat q d m.

Definition g2_code (c : ncase) : nat :=
  match cspos c with
  | [bcls; B; built] =>
      match t3_spec_code c bcls with
      | S _ => 2%nat
      | O =>
          let d := g2_store (croots c) in
          let b := (0 <? built)%nat in
          t3_worst (g2_cmp b (g2_run (cquery c) d Pipeline.MRow) (cerr c) (cpos c))
                   (g2_cmp b (g2_run (cquery c) d (Pipeline.MBatch B)) bcls (cpad c))
      end
  | _ => 1%nat
  end.

Definition check_ncase (c : ncase) : nat :=
  if (corigin c =? 6)%nat then g2_code c
  else if (corigin c =? 5)%nat then t3_code c
  else if (corigin c =? 4)%nat then pa_code c
  else if (corigin c =? 3)%nat then prov_code c
  else if negb (trim_in_model (cquery c)) then 0
  else match spec_code c with
       | O => corr_code c
       | k => k
       end.

(* ---- wire format of a case ----
   Type-checking long string literals dominates the cost of a case file, so the harness writes
   texts as segments: literal pieces, runs of blanks, newlines and (in the observed text only)
   stretches of the case's own query.  [decode] is the exact inverse of the harness's encoder
   (which checks decode(encode(x)) = x before it writes a case), so the comparison below is
   still on the full text of err.Error(), byte for byte. *)
Inductive seg :=
  | Lit (s : string)
  | Sp (n : nat)            (* n blanks *)
  | NL                      (* "\n" *)
  | Tab                     (* "\t" *)
  | Sub (off len : nat).    (* query[off : off+len] *)

Definition seg_text (q : string) (s : seg) : string :=
  match s with
  | Lit t => t
  | Sp n => spaces n
  | NL => nl
  | Tab => String (ascii_of_N 9) EmptyString
  | Sub off len => String.substring off len q
  end.

Definition decode (q : string) (l : list seg) : string :=
  fold_right (fun s acc => seg_text q s ++ acc) "" l.

Record case := Case {
  x_err : nat; x_origin : nat;
  x_query : list seg;
  x_pos : Z; x_pad : Z;
  x_msg : list seg;
  x_toks : list Z;
  x_obs : option (list seg);
  x_roots : list expr;
  x_spos : list nat
}.

Definition decode_case (c : case) : ncase :=
  let q := decode "" (x_query c) in
  NCase (x_err c) (x_origin c) q (x_pos c) (x_pad c) (decode "" (x_msg c)) (x_toks c)
        (option_map (decode q) (x_obs c)) (x_roots c) (x_spos c).

Definition check_case (c : case) : nat := check_ncase (decode_case c).

Fixpoint mism_from (i : nat) (cs : list case) : list (nat * nat) :=
  match cs with
  | [] => []
  | c :: cs' => match check_case c with
                | O => mism_from (S i) cs'
                | k => (i, k) :: mism_from (S i) cs'
                end
  end.
Definition mismatches (cs : list case) : list (nat * nat) := mism_from 0 cs.
