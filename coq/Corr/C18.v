(* Corr/C18.v -- correspondence and spec verdict for C18.
   case = (checked WHERE tree, region of the built scan node, keys read from storage by a
   full drain: point reads and cursor reads, in order).
   code 1: the implementation's region differs (as a set of keys over the universe) from the
           twin's region -- for C18 the tie is equality, not inclusion;
   code 2: a key read from storage lies outside the twin's region other than the single key
           that ends a scan (the first stored key after the region, read last), or a point-read shape used the cursor, or REmpty read anything. *)
From Coq Require Import List String Bool Arith.
Import ListNotations.
From KV Require Import Base.Bytes Model.Ast Model.FilterOpt.

Record case := Case {
  cexpr : expr;
  cobs : region;
  cgets : list bytes;       (* keys of Get calls *)
  cnexts : list bytes;      (* keys returned by cursor Next calls *)
  ccursor : nat             (* number of Cursor / Seek calls *)
}.

Definition count_outside (r : region) (ks : list bytes) : nat :=
  List.length (filter (fun k => negb (covers r k)) ks).

Definition same_on (univ : list bytes) (a b : region) : bool :=
  forallb (fun k => Bool.eqb (covers a k) (covers b k)) univ.

(* the one key outside the region a scan may read is the key that ENDS it: it lies after the
   region, it is the last key read, and no stored key lies between the region and it (a scan that
   starts somewhere else -- a cursor left over from an earlier run, a seek that did not happen --
   reads one key too, but not that one) *)
Definition above (r : region) (k : bytes) : bool :=
  match r with
  | RPrefix p => bltb p k && negb (has_prefix p k)
  | RRange _ (Some e) => bltb e k
  | _ => false
  end.

Definition end_key_ok (univ : list bytes) (r : region) (nexts : list bytes) : bool :=
  match filter (fun k => negb (covers r k)) nexts with
  | [] => true
  | [o] => above r o
           && (match rev nexts with x :: _ => String.eqb x o | [] => false end)
           && forallb (fun u => negb (above r u && bltb u o)) univ
  | _ => false
  end.

Definition check_case (univ : list bytes) (c : case) : nat :=
  let m := optimize (cexpr c) in
  let bad :=
    match m with
    | REmpty => negb (Nat.eqb (List.length (cgets c) + List.length (cnexts c) + ccursor c) 0)
    | RMget ks => negb (Nat.eqb (List.length (cnexts c) + ccursor c) 0) ||
                  negb (Nat.eqb (count_outside m (cgets c)) 0)
    | RFull => false
    | _ => negb (Nat.eqb (List.length (cgets c)) 0) || negb (end_key_ok univ m (cnexts c))
    end in
  if bad then 2
  else if same_on (univ ++ cgets c ++ cnexts c) m (cobs c) then 0 else 1.

Fixpoint mism_from (univ : list bytes) (i : nat) (cs : list case) : list (nat * nat) :=
  match cs with
  | [] => []
  | c :: cs' => match check_case univ c with
                | 0 => mism_from univ (S i) cs'
                | k => (i, k) :: mism_from univ (S i) cs'
                end
  end.
Definition mismatches_with (univ : list bytes) (cs : list case) := mism_from univ 0 cs.
