(* Corr/C18.v -- correspondence and spec verdict for C18.
   case = (checked WHERE tree, region of the built scan node, keys read from storage by a
   full drain: point reads and cursor reads, in order).
   code 1: the implementation's region differs (as a set of keys over the universe) from the
           twin's region -- for C18 the tie is equality, not inclusion;
   code 2: a key read from storage lies outside the twin's region other than the single key
           that ends a scan, or a point-read shape used the cursor, or REmpty read anything. *)
From Coq Require Import List String Bool Arith.
Import ListNotations.
From KV Require Import Base.Bytes Model.Ast Model.FilterOpt.

Record case := Case {
  cexpr : expr;
  cobs : region;
  cgets : list bytes;       (* keys of Get calls *)
  cnexts : list bytes;      (* keys returned by cursor Next calls *)
  ccursor : nat             (* number of Cursor / Seek calls *)
}.

Definition count_outside (r : region) (ks : list bytes) : nat :=
  List.length (filter (fun k => negb (covers r k)) ks).

Definition same_on (univ : list bytes) (a b : region) : bool :=
  forallb (fun k => Bool.eqb (covers a k) (covers b k)) univ.

Definition check_case (univ : list bytes) (c : case) : nat :=
  let m := optimize (cexpr c) in
  let bad :=
    match m with
    | REmpty => negb (Nat.eqb (List.length (cgets c) + List.length (cnexts c) + ccursor c) 0)
    | RMget ks => negb (Nat.eqb (List.length (cnexts c) + ccursor c) 0) ||
                  negb (Nat.eqb (count_outside m (cgets c)) 0)
    | RFull => false
    | _ => negb (Nat.eqb (List.length (cgets c)) 0) || Nat.ltb 1 (count_outside m (cnexts c))
    end in
  if bad then 2
  else if same_on (univ ++ cgets c ++ cnexts c) m (cobs c) then 0 else 1.

Fixpoint mism_from (univ : list bytes) (i : nat) (cs : list case) : list (nat * nat) :=
  match cs with
  | [] => []
  | c :: cs' => match check_case univ c with
                | 0 => mism_from univ (S i) cs'
                | k => (i, k) :: mism_from univ (S i) cs'
                end
  end.
Definition mismatches_with (univ : list bytes) (cs : list case) := mism_from univ 0 cs.
