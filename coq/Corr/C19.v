(* Corr/C19.v -- correspondence and direct verdicts for C19, evaluated by vm_compute on what the
   harness observed.

   Diff    : one concurrent run of n statements-lists on n goroutines (race-instrumented binary
             or not): per goroutine the digest of everything its statements returned when run
             alone and when run concurrently, and the number of race-detector reports
             attributed to the run.
   Sched   : a point-operation workload whose storage traffic was recorded: the initial store,
             per goroutine the storage operations issued alone and concurrently, the
             linearization order of the concurrent run (goroutine index per operation, as
             serialised by the store's mutex), the values the Gets returned, and the final
             content of the keys.  The twin [kv_run] is evaluated on the recorded schedule.
   Foot    : one row of the footprint table: a package-level variable of package kvql (or an
             object type reachable from one) and every function that writes it, with
             allow-listed / reachable-from-the-statement-API flags.
   RaceRun : summary of one race-detector child process.
   Crash   : a child process was aborted by the Go runtime while statements ran concurrently.

   Codes: 0 agree; 1 the twin (storage model on the recorded linearization, premises of the
   theorem) does not explain what was observed; >=2 the implementation violates C19 on this
   input: 2 a statement returned something else concurrently than alone, 3 a statement issued
   different storage operations concurrently than alone, 4 package-level state is written on a
   statement's execution path, 5 the race detector reported a data race, 6 the Go runtime aborted the process during a
   concurrent run (fatal error: concurrent map writes / read and write). *)
From Coq Require Import List Arith Bool String.
Import ListNotations.
From KV Require Import Base.Bytes Model.Interleave.
Open Scope string_scope.

Inductive case :=
| Diff (race : bool) (workload n gomaxprocs : nat) (alone conc : list string) (races : nat)
| Sched (n : nat) (st : list (string * string))
        (progs_alone progs_conc : list (list op)) (sched : list nat)
        (obs_alone obs_conc : list (list (option string)))
        (final_keys : list string) (final_conc : list (option string))
| Foot (target : string) (writers : list (string * (bool * bool)))   (* function, (allow-listed, reachable) *)
| RaceRun (available : bool) (runs reports : nat)
| Crash (race : bool) (exitcode : nat).               (* the Go runtime aborted a concurrent run *)

Fixpoint leqb {A} (eqb : A -> A -> bool) (a b : list A) : bool :=
  match a, b with
  | [], [] => true
  | x :: a', y :: b' => eqb x y && leqb eqb a' b'
  | _, _ => false
  end.

Definition ostr_eqb (a b : option string) : bool :=
  match a, b with
  | None, None => true
  | Some x, Some y => String.eqb x y
  | _, _ => false
  end.

Definition kv_eqb (a b : string * string) : bool :=
  String.eqb (fst a) (fst b) && String.eqb (snd a) (snd b).

Definition op_eqb (a b : op) : bool :=
  match a, b with
  | OGet x, OGet y => String.eqb x y
  | OPut x, OPut y => leqb kv_eqb x y
  | ODel x, ODel y => leqb String.eqb x y
  | _, _ => false
  end.

Definition outs_eqb := leqb (leqb ostr_eqb).
Definition progs_eqb := leqb (leqb op_eqb).

Definition model_conc (ps : list (list op)) (sched : list nat) (st : list (string * string))
  : list (list (option string)) :=
  let m := kv_run ps sched st in map (fun i => kout i m) (seq 0 (List.length ps)).

Fixpoint model_alone_from (i : nat) (ps : list (list op)) (st : list (string * string))
  : list (list (option string)) :=
  match ps with
  | [] => []
  | p :: r => kout i (kv_alone i p (List.length p) st) :: model_alone_from (S i) r st
  end.

Fixpoint complete_from (i : nat) (ps : list (list op)) (sched : list nat) : bool :=
  match ps with
  | [] => true
  | p :: r => Nat.eqb (steps_of i sched) (List.length p) && complete_from (S i) r sched
  end.

Definition check_case (c : case) : nat :=
  match c with
  | Diff _ _ n _ alone conc races =>
      if negb (Nat.eqb races 0) then 5
      else if negb (Nat.eqb (List.length alone) n && Nat.eqb (List.length conc) n) then 1
      else if leqb String.eqb alone conc then 0 else 2
  | Sched n st pa pc sched oa oc fk fc =>
      if negb (progs_eqb pa pc) then 3
      else if negb (outs_eqb oa oc) then 2
      else if negb (Nat.eqb (List.length pc) n) then 1
      else if negb (indep_b pc) then 1                      (* outside the theorem's premise *)
      else if negb (complete_from 0 pc sched) then 1        (* recorded schedule incomplete *)
      else if negb (outs_eqb (model_conc pc sched st) oc) then 1
      else if negb (outs_eqb (model_alone_from 0 pa st) oa) then 1
      else if negb (leqb ostr_eqb (kcells (kv_run pc sched st) fk) fc) then 1
      else 0
  | Foot _ writers =>
      if existsb (fun w => snd (snd w)) writers then 4 else 0
  | RaceRun available _ reports =>
      if available && negb (Nat.eqb reports 0) then 5 else 0
  | Crash _ _ => 6
  end.

Fixpoint mism_from (i : nat) (cs : list case) : list (nat * nat) :=
  match cs with
  | [] => []
  | c :: cs' => match check_case c with
                | 0 => mism_from (S i) cs'
                | k => (i, k) :: mism_from (S i) cs'
                end
  end.
Definition mismatches (cs : list case) : list (nat * nat) := mism_from 0 cs.
