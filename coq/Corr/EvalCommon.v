(* Corr/EvalCommon.v -- comparing the row evaluator twin with observations of
   Expression.Execute: values by content (canon), errors by class and position. *)
From Coq Require Import List String ZArith Bool.
Import ListNotations.
From KV Require Import Base.Bytes Base.Num Base.Flt Model.Ast Model.Value Model.Eval.

Inductive obs :=
  | OVal (c : canon)
  | OErr (cls : nat) (pos : Z)      (* 1 ExecuteError, 2 SyntaxError, 3 any other error *)
  | OPanic.

(* identity of a finite non-zero float given as sign, mantissa, exponent = Base/Flt.pf_bits *)
Definition fcode (s : bool) (m e : Z) : Z :=
  let code := (m * 8192 + (e + 4096))%Z in
  if s then (- (code * 8 + 7))%Z else (code * 8 + 7)%Z.

(* regular expressions are not modelled by the twin *)
Definition re_oom (pat text : bytes) : res bool := OutOfModel.

Definition eval_prim := eval prim_fops re_oom.

(* 0 agree; 1 differ in an error (class / position), or the twin reports an error where the
   implementation returns a value; 2 the twin computes a value and the implementation returns
   a different one or fails (the twin's value is the documented one: Properties/C10.v);
   99 outside the model *)
Definition cmp_obs (r : res (value prim_fops)) (o : obs) : nat :=
  match r with
  | OutOfModel => 99
  | Panic => match o with OPanic => 0 | _ => 1 end
  | Err (EExec p) => match o with OErr 1 q => if Z.eqb (Z.of_nat p) q then 0 else 1 | _ => 1 end
  | Err (ESyntax p) => match o with OErr 2 q => if Z.eqb (Z.of_nat p) q then 0 else 1 | _ => 1 end
  | Err EOther => match o with OErr 3 _ => 0 | _ => 1 end
  | Ok v => match o with OVal c => if canon_eqb (canon_of prim_fops v) c then 0 else 2 | _ => 2 end
  end.

Fixpoint worst (l : list nat) : nat :=
  match l with
  | [] => 0
  | x :: l' => let w := worst l' in
               if Nat.eqb x 0 then w else if Nat.eqb w 0 then x
               else if Nat.eqb x 99 then w else if Nat.eqb w 99 then x else Nat.max x w
  end.

Definition check_eval (e : expr) (rows : list (bytes * bytes * obs)) : nat :=
  worst (map (fun r => match r with (k, v, o) => cmp_obs (eval_prim k v e) o end) rows).
