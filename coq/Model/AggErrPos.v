(* Model/AggErrPos.v -- WHICH error, at WHICH position, AggregatePlan.next / batch return when a
   group's row cannot be completed.  A thin layer NEXT TO Model/Aggregate.v / AggregateLazy.v
   (which answer `None` / `Err EOther` for "completing this group failed" and are left as they
   are: C09, C03, C05 reason over them), from the aggregate plan and the prepared group rows to
   the error the Go code reports.

   aggregate_plan.go, next() / batch(): for the group rows in the order of a.aggrRows, for the
   columns left to right; a column with aggregate calls:
       for i, f := range col.Funcs { val, err := f.Complete(); if err != nil { return nil, err } ... }
       row[i], err = a.execGroupExpr(col, ctx)            = col.Expr.Execute(col.First, ctx)
   - Complete fails only for json_arrayagg (json.Marshal of NaN / Inf): a plain Go error, no Pos;
   - col.Expr is the FOLDED select field (Model/PipelineS.v exec_of), a tree of BinaryOpExpr over
     aggregate calls (their Result filled in) and integer literals; BinaryOpExpr.execMath
     evaluates Left, then Right, then utils.go executeMathOp(left, right, op, e.Right):
         `Divide by zero`  NewExecuteError(rightExpr.GetPos(), ...)   -- the Pos of the DIVISOR node
         `Invalid operator %v left or right parameter type`  fmt.Errorf -- no Pos
     (the error of an operand is returned as it is: the innermost, leftmost failing node).
   The drain stops at the FIRST group, in a.aggrRows order, whose row cannot be completed (next /
   batch complete the rows in that order; a pushed-down LIMIT only decides whether that group is
   reached at all -- which Model/AggregateLazy.v decides, not this file).

   The aggregate functors' Update raises no error of its own (aggr_func.go: the only error of an
   Update is the error of args[0].Execute, which the evaluator twin reports with its position),
   the constructors' errors (quantile / group_concat second parameter) are raised by
   AggregatePlan.Init inside BuildPlan (Model/PipelineS.v afun_of: STReject / STBuildErr).  The
   two NewExecuteError(0, ...) of aggregate_plan.go: `Cannot cast expression to function call
   expression` needs a non-key column without calls (Init never builds one), `Expression result
   type not support` needs a list / JSON value in a GROUP BY expression or key field (outside the
   aggregate twin: SelectPlans.gval answers OutOfModel).

   [select_stmt_text_stp] is PipelineS.select_stmt_text_st with `STRunErr EOther` refined to the
   error of the completion where the drain got that far; nothing else changes
   (Proofs/ExecPosStmtProofs.v stp_refines_st, stp_same_tres).  No proofs in this file. *)
From Coq Require Import List String ZArith Bool Arith.
Import ListNotations.
From KV Require Import Base.Bytes Model.Ast Model.Value Model.Eval Model.EvalVec Model.ScanProj Model.LimitLazy Model.LimitLazy
                       Model.AggregateLazy Model.SelectPlans Model.Storage Model.Pipeline Model.PipelineS.
From KV Require Model.Aggregate Model.Order Spec.Group.
Local Open Scope nat_scope.
Local Open Scope list_scope.

(* ================================================================ one group row *)
Section RowErr.
Variable F : Type.
Variable fadd fsub fmul fdiv : F -> F -> F.
Variable fis0 : F -> bool.
Variable of_Z : Z -> F.
Variable json_f : F -> option bytes.
Variable json_s : bytes -> bytes.

Notation gvalue := (Group.value F).
Notation eval_aexpr := (Aggregate.eval_aexpr fadd fsub fmul fdiv fis0 of_Z).
Notation complete := (Aggregate.complete fdiv of_Z json_f json_s).
Notation finish_row := (Aggregate.finish_row fadd fsub fmul fdiv fis0 of_Z json_f json_s).

(* the error of executeMathOp(left, right, op, rightExpr) when it returns one: both operands
   numbers (int64 / float64 in any mix) -> the division by zero, at rightExpr.GetPos();
   otherwise fmt.Errorf *)
Definition math_err (left right : gvalue) (rpos : nat) : Value.err :=
  match Aggregate.convertToInt left, Aggregate.convertToInt right with
  | Some _, Some _ => Value.EExec rpos
  | liok, riok =>
      match Aggregate.convertToFloat left, Aggregate.convertToFloat right with
      | Some _, Some _ => Value.EExec rpos
      | lfok, rfok =>
          match liok, rfok, lfok, riok with
          | Some _, Some _, _, _ => Value.EExec rpos
          | _, _, Some _, Some _ => Value.EExec rpos
          | _, _, _, _ => Value.EOther
          end
      end
  end.

(* col.Expr.Execute when it fails: [e] the select field, [a] what AggregatePlan.Init made of it
   (PipelineS.aexpr_of translates node by node), [results] the Results of its calls *)
Fixpoint aexpr_err (e : expr) (a : Group.aexpr F) (results : list gvalue) : Value.err :=
  match e, a with
  | EBin _ _ l r, Group.AEBin _ al ar =>
      match eval_aexpr al results with
      | None => aexpr_err l al results
      | Some lv =>
          match eval_aexpr ar results with
          | None => aexpr_err r ar results
          | Some rv => math_err lv rv (epos r)
          end
      end
  | _, _ => Value.EOther
  end.

(* one column: None = it is completed *)
Definition col_err (f : expr) (c : Aggregate.col F) : option Value.err :=
  match c with
  | Aggregate.CKey _ => None
  | Aggregate.CAgg a _ sts =>
      match Group.seq_opt (map complete sts) with
      | None => Some Value.EOther                                   (* Complete: json.Marshal *)
      | Some results =>
          match eval_aexpr a results with
          | Some _ => None
          | None => Some (aexpr_err f a results)
          end
      end
  end.

(* the columns of a group row next to the plan's Fields, left to right *)
Fixpoint row_err (fields : list expr) (row : list (Aggregate.col F)) : Value.err :=
  match fields, row with
  | f :: fields', c :: row' =>
      match col_err f c with
      | Some e => e
      | None => row_err fields' row'
      end
  | _, _ => Value.EOther
  end.

(* the first group row, in aggrRows order, that cannot be completed *)
Fixpoint rows_err (fields : list expr) (rows : Aggregate.aggr_rows F) : Value.err :=
  match rows with
  | [] => Value.EOther
  | kr :: rows' =>
      match finish_row (snd kr) with
      | None => row_err fields (snd kr)
      | Some _ => rows_err fields rows'
      end
  end.

End RowErr.

(* ================================================================ the statement *)
Section Stmt.
Variable fo : fops.
Variable re_match : bytes -> bytes -> Value.res bool.
Variable fmt_v : F fo -> string.
Variable ag : aggops fo.
Variable parse_int parse_float : bytes -> option Z.

(* the AggregatePlan of a shape buildFinalPlan builds: its Start / Limit *)
Fixpoint shape_agg (sh : shape) : option (nat * option nat) :=
  match sh with
  | SProj => None
  | SAgg st l => Some (st, l)
  | SOrder _ c => shape_agg c
  | SLimit _ _ c => shape_agg c
  end.

(* a.aggrRows after prepare / prepareBatch *)
Definition prepared_rows (c : cstmt fo) (p : Group.plan (F fo)) (m : tmode) (sl : list (option kvpair))
  : Value.res (Aggregate.aggr_rows (F fo)) :=
  match m with
  | MRow =>
      do obs <- sdrain_row (sel_frow fo re_match (q_where fo c))
                           (c_lobs_row fo re_match ag (q_group fo c) (q_keys fo c) (q_args fo c) p) [] sl;
      Value.Ok (Aggregate.prepare (fadd fo) (fltb fo) (f_of_Z fo) (a_to_Z fo ag) (f_fmt fo) (a_bits fo ag)
                            (a_parse fo ag) true true p obs)
  | MBatch B =>
      do chunks <- sdrain_batch (filter_batch fo re_match true (q_where fo c))
                                (c_lobs_batch fo re_match ag (q_group fo c) (q_keys fo c) (q_args fo c) p) B [] sl;
      Value.Ok (Aggregate.prepareBatch (fadd fo) (fltb fo) (f_of_Z fo) (a_to_Z fo ag) (f_fmt fo) (a_bits fo ag)
                                 (a_parse fo ag) true true p chunks)
  end.

(* AggregatePlan.Fields *)
Definition agg_fields (c : cstmt fo) : list expr :=
  match q_fields fo c with Some l => l | None => [] end.

(* the error next / batch return for the first group they cannot complete *)
Definition completion_err (c : cstmt fo) (sh : shape) (m : tmode) (sl : list (option kvpair)) : Value.err :=
  match shape_agg sh with
  | None => Value.EOther
  | Some (st, l) =>
      match prepared_rows c (stmt_plan (F fo) (q_stmt fo c) st l) m sl with
      | Value.Ok rows =>
          rows_err (F fo) (fadd fo) (fsub fo) (fmul fo) (fdiv fo) (a_is0 fo ag) (f_of_Z fo) (a_json_f fo ag) (a_json_s fo ag)
                   (agg_fields c) rows
      | _ => Value.EOther
      end
  end.

(* an error without a position (Model/AggregateLazy.v exec_res: "completing a group failed";
   also every plain Go error of the evaluators) refined by [e] *)
Definition refine_other {A} (r : Value.res A) (e : Value.err) : Value.res A :=
  match r with
  | Value.Err Value.EOther => Value.Err e
  | _ => r
  end.

Definition drain_planned_pos (pl : splanned fo) (d : store) (m : tmode) : Value.res (list Order.row) :=
  refine_other (drain_planned fo re_match ag parse_int parse_float pl d m)
               (completion_err (sp_q fo pl) (sp_shape fo pl) m (scan_slots (sp_scan fo pl) d)).

(* NewOptimizer(q).BuildPlan(store), drained: errors with class and position, the errors of
   AggregatePlan.next / batch included *)
Definition select_stmt_text_stp (q : string) (d : store) (m : tmode) : stres (list Order.row) :=
  stbind (plan_stmt_text fo re_match fmt_v q) (fun pl => of_drain (drain_planned_pos pl d m)).

End Stmt.
