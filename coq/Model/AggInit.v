(* Model/AggInit.v -- what BuildPlan does with an aggregated SELECT after Model/ParseCheck.v's
   [parse_check] has accepted it and BEFORE the first storage call: the Init chain

       FinalLimitPlan.Init -> FinalOrderPlan.Init -> AggregatePlan.Init -> <scan>.Init

   of limit_plan.go / order_plan.go / aggregate_plan.go, with the aggregate function constructors
   of aggr_func.go (func.go aggrFuncMap: NumArgs / VarArgs / Body).  Everything here is STATIC:
   it depends on the statement only (the constructors of quantile and group_concat EXECUTE their
   second argument, on the pair (nil, nil) with a nil context -- the evaluator twin on ("", ""),
   as the constant folder does, Model/Fold.v const_eval).

     aggr_info          aggrFuncMap: name -> (NumArgs, VarArgs)
     order_init_check   FinalOrderPlan.Init: findOrderIdx of every ORDER BY item in FieldNames
                        (SyntaxError at the item) -- runs BEFORE the child's Init
     spine_calls        AggregatePlan.listAggrFuncs: the calls reached from a select field through
                        BinaryOpExpr nodes only
     body_check         newAggrQuantileFunc / newAggrGroupConcatFunc (the other constructors test
                        nothing).  `args[1]` is an unguarded index: [Panic] when there is no second
                        argument (unreachable: the argument count is tested first,
                        Proofs/AggInitProofs.v agg_init_total)
     aggr_call_check    one iteration of listAggrFunctions: GetAggrFunctionByName ("Cannot find
                        aggregate function", ExecuteError at the call), the argument count
                        (ExecuteError at the call), functor.Body(args)
     agg_init_check     AggregatePlan.Init over a.Fields = the FOLDED select fields
                        (ParseCheck.fold_fields: optimizeSelectExpressions has run); after it
                        a.ChildPlan.Init() is the first storage call (Cursor / Seek)
     init_check         the chain for a checked statement (ORDER BY items, then the fields)

   and the call validation of optimizer.go AFTER the repair of the defect found here:

     check_calls_fx     checkFunctionCalls(field, allowAggr = true) with the argument count of
                        AGGREGATE functions tested next to the scalar ones (reported as
                        AggregatePlan.Init reports it: ExecuteError at the call, so that nothing
                        changes for a statement whose only fault is the count).  Before the repair
                        (Checker.check_calls) aggregate argument counts were tested by
                        AggregatePlan.Init only, i.e. on the folded fields:
                        `select (count(1,2) > 0) & false where true` is folded to `select false`,
                        no aggregate is left, a ProjectionPlan is built and the statement RUNS
                        (C14: a wrong argument count must be rejected wherever it sits).
     quantile_param_ok  fxq = true: 0 <= p <= 1 (after the repair); fxq = false: !(p > 1), the
                        pinned test, which lets negative and NaN parameters through -- the
                        quantile stream then panics (index out of range) while the rows are
                        computed (C06).

     parse_check_agg fxa fxq q
                        [parse_check] with the call validation chosen by fxa (true: repaired,
                        false: pinned = parse_check's own) followed by [init_check] when
                        buildFinalPlan builds an AggregatePlan.  parse_check itself is unchanged;
                        Proofs/AggInitProofs.v parse_check_agg_pinned_is_parse_check_then_init
                        states the relation.

   No proofs in this file. *)
From Coq Require Import String List Arith Bool ZArith.
Import ListNotations.
From KV Require Import Base.Bytes Base.Num Model.Token Model.Ast Model.Value Model.Eval Model.Lexer
                       Model.ExprParser Model.ErrPos Model.StmtParser Model.ParseCheck.
From KV Require Model.Checker Model.Fold Model.FoldStmt Model.Pipeline.
Local Open Scope string_scope.
Local Open Scope list_scope.

(* ------------------------------------------------------------------ func.go: aggrFuncMap *)

(* name -> (NumArgs, VarArgs) *)
Definition aggr_info (nm : string) : option (nat * bool) :=
  if String.eqb nm "count" || String.eqb nm "sum" || String.eqb nm "avg" ||
     String.eqb nm "min" || String.eqb nm "max" || String.eqb nm "json_arrayagg"
  then Some (1, false)
  else if String.eqb nm "quantile" || String.eqb nm "group_concat" then Some (2, false)
  else None.

(* (!VarArgs && len(args) != NumArgs) || (VarArgs && len(args) < NumArgs) *)
Definition arity_bad (nargs : nat) (varargs : bool) (cnt : nat) : bool :=
  (negb varargs && negb (Nat.eqb cnt nargs)) || (varargs && Nat.ltb cnt nargs).

(* ------------------------------------------------------------------ optimizer.go, repaired:
   checkFunctionCalls(expr, allowAggr = true) *)

Fixpoint calls_list_false (l : list expr) : res unit :=
  match l with
  | [] => Ok tt
  | a :: l' => do _ <- Checker.check_calls false a; calls_list_false l'
  end.

Fixpoint check_calls_fx (e : expr) {struct e} : res unit :=
  match e with
  | EBin _ _ l r => do _ <- check_calls_fx l; check_calls_fx r
  | ECall p n args =>
      match n with
      | EName _ _ =>
          match call_name n with
          | None => OutOfModel
          | Some nm =>
              do _ <- (match func_info nm with
                       | Some (nargs, varargs, _) =>
                           if arity_bad nargs varargs (List.length args) then Checker.serr p else Ok tt
                       | None =>
                           match aggr_info nm with
                           | Some (nargs, varargs) =>
                               (* NewExecuteError(e.GetPos(), "Function %s require %d arguments but got %d"):
                                  the error AggregatePlan.Init reports *)
                               if arity_bad nargs varargs (List.length args) then Err (EExec p) else Ok tt
                           | None => Checker.serr p
                           end
                       end);
              calls_list_false args
          end
      | _ => Checker.serr p
      end
  | _ => Checker.check_calls true e     (* NotExpr / FieldAccessExpr / ListExpr: allowAggr is dropped *)
  end.

Fixpoint calls_fields_fx (l : list (string * expr)) : res unit :=
  match l with
  | [] => Ok tt
  | (_, f) :: l' => do _ <- check_calls_fx f; calls_fields_fx l'
  end.

(* checkStatementFunctionCalls: only select fields are visited with allowAggr = true *)
Definition check_stmt_calls_fx (s : Checker.stmt) : res unit :=
  match s with
  | Checker.SSelect fields w _ => do _ <- Checker.check_calls false w; calls_fields_fx fields
  | _ => Checker.check_stmt_calls s
  end.

(* ------------------------------------------------------------------ order_plan.go *)

(* FinalOrderPlan.Init: for _, o := range p.Orders { findOrderIdx(o) } *)
Fixpoint order_init_check (names : list string) (order : list (nat * string)) : res unit :=
  match order with
  | [] => Ok tt
  | (p, n) :: order' =>
      if existsb (String.eqb n) names then order_init_check names order'
      else Err (ESyntax p)                      (* "Cannot find field: %s" at o.Field.GetPos() *)
  end.

(* ------------------------------------------------------------------ aggregate_plan.go *)

(* listAggrFuncs: BinaryOpExpr -> both sides; FunctionCallExpr -> itself; anything else -> none *)
Fixpoint spine_calls (e : expr) : list expr :=
  match e with
  | EBin _ _ l r => spine_calls l ++ spine_calls r
  | ECall _ _ _ => [e]
  | _ => []
  end.

Section AggInit.
Variable fo : fops.
Variable re_match : bytes -> bytes -> res bool.
Variable fmt_v : F fo -> string.
Variable fxq : bool.       (* the quantile parameter test: true = repaired, false = pinned *)

(* args[1].Execute(NewKVP(nil, nil), nil) *)
Definition const_arg (a : expr) : res (value fo) := eval fo re_match "" "" a.

Definition quantile_param_ok (p : F fo) : bool :=
  if fxq then fleb fo (f_zero fo) p && fleb fo p (f_one fo)    (* !(percent >= 0.0 && percent <= 1.0) rejects *)
  else negb (fltb fo (f_one fo) p).                             (* percent > 1.0 rejects *)

(* functor.Body(args) *)
Definition body_check (nm : string) (args : list expr) : res unit :=
  if String.eqb nm "quantile" then
    match nth_error args 1 with
    | None => Panic                                             (* args[1]: index out of range *)
    | Some a =>
        if negb (ty_eqb (rtype a) TNumber) then Err (ESyntax (epos a))
        else
          do v <- const_arg a;
          match v with
          | VFlt p => if quantile_param_ok p then Ok tt else Err (EExec (epos a))
          | _ => Err (EExec (epos a))                           (* convertToFloat: float32 / float64 only *)
          end
    end
  else if String.eqb nm "group_concat" then
    match nth_error args 1 with
    | None => Panic
    | Some a =>
        if negb (ty_eqb (rtype a) TStr) then Err (ESyntax (epos a))
        else do _ <- const_arg a; Ok tt
    end
  else Ok tt.

(* one call of the spine: is it an aggregate call (listAggrFuncs), and if so the loop body of
   listAggrFunctions.  A call whose name is not a NameExpr never gets here (Check rejects it);
   a name with a byte >= 0x80 is outside the model (pc_oom). *)
Definition aggr_call_check (c : expr) : res bool :=
  match c with
  | ECall p n args =>
      match n with
      | EName _ _ =>
          match call_name n with
          | None => OutOfModel
          | Some nm =>
              match aggr_rtype nm with                          (* IsAggrFunc(fname) *)
              | None => Ok false
              | Some _ =>
                  match aggr_info nm with                       (* GetAggrFunctionByName(fname) *)
                  | None => Err (EExec p)
                  | Some (nargs, varargs) =>
                      if negb varargs && negb (Nat.eqb nargs (List.length args)) then Err (EExec p)
                      else do _ <- body_check nm args; Ok true
                  end
              end
          end
      | _ => OutOfModel
      end
  | _ => Ok false
  end.

Fixpoint aggr_calls_check (l : list expr) : res unit :=
  match l with
  | [] => Ok tt
  | c :: l' => do _ <- aggr_call_check c; aggr_calls_check l'
  end.

(* switch e := f.(type) { case *FunctionCallExpr, *BinaryOpExpr: listAggrFunctions(e) } *)
Definition agg_field_check (f : expr) : res unit :=
  match f with
  | ECall _ _ _ | EBin _ _ _ _ => aggr_calls_check (spine_calls f)
  | _ => Ok tt
  end.

(* AggregatePlan.Init up to a.ChildPlan.Init(); [fields] = a.Fields (folded) *)
Fixpoint agg_init_check (fields : list expr) : res unit :=
  match fields with
  | [] => Ok tt
  | f :: fields' => do _ <- agg_field_check f; agg_init_check fields'
  end.

(* the Init chain above the scan node for a checked SELECT whose final plan is an AggregatePlan *)
Definition init_check (c : Checker.stmt) : res unit :=
  match c with
  | Checker.SSelect fields _ order =>
      do _ <- order_init_check (map fst fields) order;
      agg_init_check (map snd (fold_fields fo re_match fmt_v fields))
  | _ => Ok tt
  end.

(* ------------------------------------------------------------------ the composite *)

Inductive pares :=
  | PAOk (s : stmt) (c : Checker.stmt) (aggregate_plan : bool)
  | PAErr (k : pckind) (z : Z)       (* rejected before any plan node is initialised, as parse_check *)
  | PAInitErr (e : err)              (* rejected by the Init chain -- or, with the repaired call validation,
                                        by its aggregate argument count test, which reports the
                                        ExecuteError AggregatePlan.Init reported: class (+ position) *)
  | PAOutOfModel
  | PAPanic
  | PAFuel
  | PAOther.

Variable fxa : bool.       (* aggregate argument counts in checkFunctionCalls: true = repaired *)

Definition stmt_calls (c : Checker.stmt) : res unit :=
  if fxa then check_stmt_calls_fx c else Checker.check_stmt_calls c.

Definition plan_stage_agg (s : stmt) (c2 : Checker.stmt) : pares :=
  if plan_oom fo re_match fmt_v c2 then PAOutOfModel
  else
    match plan_check fo re_match fmt_v s c2 with
    | PlErr z => PAErr KPlan z
    | PlProjection => PAOk s c2 false
    | PlAggregate =>
        match init_check c2 with
        | Ok _ => PAOk s c2 true
        | Err e => PAInitErr e
        | Panic => PAPanic
        | OutOfModel => PAOutOfModel
        end
    end.

Definition check_parsed_agg (s : stmt) : pares :=
  match to_check s with
  | None => PAOutOfModel
  | Some c =>
      match Checker.check_stmt fo true c with
      | Ok c2 =>
          match stmt_calls c2 with
          | Ok _ => plan_stage_agg s c2
          | Err (ESyntax p) => PAErr KCalls (Z.of_nat p)
          | Err (EExec p) => PAInitErr (EExec p)     (* repaired validation: an aggregate argument count *)
          | Err _ => PAOther
          | Panic => PAPanic
          | OutOfModel => PAOutOfModel
          end
      | Err (ESyntax p) => PAErr KCheck (Z.of_nat p)
      | Err _ => PAOther
      | Panic => PAPanic
      | OutOfModel => PAOutOfModel
      end
  end.

Definition parse_check_agg (q : string) : pares :=
  let ts := lex q in
  if pc_oom fo q ts then PAOutOfModel
  else
    match parse_real fo ts with
    | SErr z => PAErr (if sres_is_err (parse_statement ts) z then KSyntax else KMidParse) z
    | SPanic => PAPanic
    | SFuel => PAFuel
    | SOk s => check_parsed_agg s
    end.

End AggInit.

(* ------------------------------------------------------------------ the fault C14 names:
   a call of an aggregate function with a wrong number of arguments, anywhere in a tree (under
   operators, !, call arguments, list items, the base of a field access -- the nodes
   checkFunctionCalls visits; a FieldReferenceExpr is not entered: what it refers to is a select
   field of its own) *)
Definition wrong_aggr_arity (p : nat) (n : expr) (args : list expr) : bool :=
  match call_name n with
  | Some nm =>
      match func_info nm with
      | Some _ => false
      | None =>
          match aggr_info nm with
          | Some (nargs, varargs) => arity_bad nargs varargs (List.length args)
          | None => false
          end
      end
  | None => false
  end.

Fixpoint has_bad_aggr_arity (e : expr) {struct e} : bool :=
  match e with
  | EBin _ _ l r => has_bad_aggr_arity l || has_bad_aggr_arity r
  | ENot _ r => has_bad_aggr_arity r
  | ECall p n args =>
      wrong_aggr_arity p n args ||
      (fix go (l : list expr) : bool :=
         match l with
         | [] => false
         | a :: l' => has_bad_aggr_arity a || go l'
         end) args
  | EList _ items =>
      (fix go (l : list expr) : bool :=
         match l with
         | [] => false
         | a :: l' => has_bad_aggr_arity a || go l'
         end) items
  | EAccess _ l _ => has_bad_aggr_arity l
  | _ => false
  end.
