(* Model/Aggregate.v -- executable twin of aggregate_plan.go and aggr_func.go (and of
   utils.go: executeMathOp, func.go: toString), function by function.

   What is NOT modelled here (oracle, see CONVENTIONS / DESIGN 5 C09): the evaluation of the
   GROUP BY expressions, of the non-aggregate select fields and of the aggregate arguments on a
   pair.  The harness records these values for every scanned pair ([pobs]) and hands them to
   the twin.  Values of list / JSON type (for which convertToBytes returns an execution error)
   are outside [value]; the harness never produces them.

   The skip/limit arithmetic of AggregatePlan.Next/Batch is the code of Model/Limit.v (C08) and
   is reused, not modelled again.

   [fix_key]    = true : group key with length-prefixed parts (after the fix: commit for D17);
                  false: the pinned plain concatenation (kept for group_partition_refuted).
   [fix_minmax] = true : min/max compare as floats as soon as either side is a float (after
                  the fix: commit); false: the pinned comparison of truncated values. *)
From Coq Require Import List String Ascii ZArith Bool Arith.
From KV Require Import Base.Bytes Spec.Group Model.Limit.
Import ListNotations.

Set Implicit Arguments.

(* strconv.ParseInt(s, 10, 64): optional sign, one or more decimal digits, int64 range *)
Definition digit_of (c : ascii) : option Z :=
  let n := N_of_ascii c in
  if (48 <=? n)%N && (n <=? 57)%N then Some (Z.of_N (n - 48)) else None.
Fixpoint parse_digits (s : string) (acc : Z) : option Z :=
  match s with
  | EmptyString => Some acc
  | String c s' => match digit_of c with
                   | Some d => parse_digits s' (acc * 10 + d)%Z
                   | None => None
                   end
  end.
Definition parse_uint (s : string) : option Z :=
  match s with EmptyString => None | _ => parse_digits s 0%Z end.
Definition parse_int (s : string) : option Z :=
  match s with
  | String "-" r =>
      match parse_uint r with
      | Some z => if (z <=? 2 ^ 63)%Z then Some (- z)%Z else None
      | None => None
      end
  | String "+" r =>
      match parse_uint r with
      | Some z => if (z <? 2 ^ 63)%Z then Some z else None
      | None => None
      end
  | _ =>
      match parse_uint s with
      | Some z => if (z <? 2 ^ 63)%Z then Some z else None
      | None => None
      end
  end.

(* fmt.Sprintf("%d", v) *)
Definition fmt_d (z : Z) : bytes := dec z.

Section Aggregate.
Variable F : Type.
Variable fadd fsub fmul fdiv : F -> F -> F.
Variable fltb : F -> F -> bool.
Variable fis0 : F -> bool.
Variable of_Z : Z -> F.
Variable to_Z : F -> Z.
Variable fmt_f : F -> bytes.
Variable bits_f : F -> bytes.            (* strconv.FormatUint(math.Float64bits(f), 16) *)
Variable json_f : F -> option bytes.
Variable parse_f : bytes -> option F.
Variable json_s : bytes -> bytes.
Variable fix_key : bool.
Variable fix_minmax : bool.

Notation value := (value F).
Notation pobs := (pobs F).
Notation field := (field F).
Notation plan := (plan F).
Notation aexpr := (aexpr F).

(* ---------------------------------------------------------------- aggr_func.go *)

(* convertToNumber: (int64, float64, isFloat) *)
Definition convert_text (s : bytes) : Z * F * bool :=
  match parse_int s with
  | Some i => (i, of_Z i, false)
  | None => match parse_f s with
            | Some f => (to_Z f, f, true)
            | None => (0%Z, of_Z 0, false)
            end
  end.
Definition convertToNumber (v : value) : Z * F * bool :=
  match v with
  | VStr s => convert_text s
  | VBytes s => convert_text s
  | VInt z => (z, of_Z z, false)
  | VFlt f => (to_Z f, f, true)
  | VBool true => (1%Z, of_Z 1, false)
  | VBool false => (0%Z, of_Z 0, false)
  | VNil => (0%Z, of_Z 0, false)
  end.

(* func.go toString *)
Definition toString (v : value) : bytes :=
  match v with
  | VStr s => s
  | VBytes s => s
  | VInt z => fmt_d z
  | VFlt f => fmt_f f
  | VBool true => "true"
  | VBool false => "false"
  | VNil => "<nil>"
  end%string.

Inductive jitem := JInt (z : Z) | JFlt (f : F) | JStr (s : bytes) | JBool (b : bool).

(* the structs aggrCountFunc, aggrSumFunc, aggrAvgFunc, aggrMinFunc, aggrMaxFunc,
   aggrJsonArrayAggFunc, aggrGroupConcatFunc with their fields *)
Inductive astate :=
  | SCount (counter : Z)
  | SSum (isum : Z) (fsum : F) (isFloat : bool)
  | SAvg (isum : Z) (fsum : F) (count : Z) (isFloat : bool)
  | SMin (imin : Z) (fmin : F) (isFloat first : bool)
  | SMax (imax : Z) (fmax : F) (isFloat first : bool)
  | SJson (items : list jitem)
  | SConcat (sep : bytes) (items : list bytes).

(* newAggr*Func / Clone *)
Definition new_state (f : afun) : astate :=
  match f with
  | ACount => SCount 0
  | ASum => SSum 0 (of_Z 0) false
  | AAvg => SAvg 0 (of_Z 0) 0 false
  | AMin => SMin 0 (of_Z 0) false false
  | AMax => SMax 0 (of_Z 0) false false
  | AJsonArrayAgg => SJson []
  | AGroupConcat sep => SConcat sep []
  end.

(* Update, with [v] the value of args[0] on the pair *)
Definition update (st : astate) (v : value) : astate :=
  match st with
  | SCount c => SCount (wrap64 (c + 1))
  | SSum isum fsum isF =>
      match convertToNumber v with
      | (ival, fval, isFloat) =>
          SSum (wrap64 (isum + ival)) (fadd fsum fval) (if negb isF && isFloat then true else isF)
      end
  | SAvg isum fsum cnt isF =>
      match convertToNumber v with
      | (ival, fval, isFloat) =>
          SAvg (wrap64 (isum + ival)) (fadd fsum fval) (wrap64 (cnt + 1))
               (if negb isF && isFloat then true else isF)
      end
  | SMin imin fmin isF first =>
      match convertToNumber v with
      | (ival, fval, isFloat) =>
          if negb first then SMin ival fval isFloat true
          else if isF || (fix_minmax && isFloat) then
                 if fltb fval fmin then SMin ival fval isFloat first else st
               else
                 if (ival <? imin)%Z then SMin ival fval isFloat first else st
      end
  | SMax imax fmax isF first =>
      match convertToNumber v with
      | (ival, fval, isFloat) =>
          if negb first then SMax ival fval isFloat true
          else if isF || (fix_minmax && isFloat) then
                 if fltb fmax fval then SMax ival fval isFloat first else st
               else
                 if (imax <? ival)%Z then SMax ival fval isFloat first else st
      end
  | SJson items =>
      let it := match v with
                | VInt z => JInt z
                | VFlt f => JFlt f
                | VBytes s => JStr s
                | VBool b => JBool b
                | _ => JStr (toString v)
                end in
      SJson (items ++ [it])%list
  | SConcat sep items => SConcat sep (items ++ [toString v])%list
  end.

Definition json_item (it : jitem) : option bytes :=
  match it with
  | JInt z => Some (fmt_d z)
  | JFlt f => json_f f
  | JStr s => Some (json_s s)
  | JBool true => Some "true"%string
  | JBool false => Some "false"%string
  end.

(* Complete; None = Complete returns an error (json.Marshal of NaN / Inf) *)
Definition complete (st : astate) : option value :=
  match st with
  | SCount c => Some (VInt c)
  | SSum isum fsum isF => Some (if isF then VFlt fsum else VInt isum)
  | SAvg isum fsum cnt isF =>
      Some (VFlt (if isF then fdiv fsum (of_Z cnt) else fdiv (of_Z isum) (of_Z cnt)))
  | SMin imin fmin isF _ => Some (if isF then VFlt fmin else VInt imin)
  | SMax imax fmax isF _ => Some (if isF then VFlt fmax else VInt imax)
  | SJson items =>
      match seq_opt (map json_item items) with
      | Some l => Some (VStr ("[" ++ join "," l ++ "]")%string)
      | None => None
      end
  | SConcat sep items => Some (VStr (join sep items))
  end.

(* ---------------------------------------------------------------- utils.go executeMathOp *)
Definition convertToInt (v : value) : option Z := match v with VInt z => Some z | _ => None end.
Definition convertToFloat (v : value) : option F := match v with VFlt f => Some f | _ => None end.

Definition float_op (op : arith) (l r : F) : option value :=
  match op with
  | Plus => Some (VFlt (fadd l r))
  | Minus => Some (VFlt (fsub l r))
  | Times => Some (VFlt (fmul l r))
  | Divide => if fis0 r then None else Some (VFlt (fdiv l r))
  end.

Definition executeMathOp (left right : value) (op : arith) : option value :=
  match convertToInt left, convertToInt right with
  | Some lint, Some rint =>
      match op with
      | Plus => Some (VInt (wrap64 (lint + rint)))
      | Minus => Some (VInt (wrap64 (lint - rint)))
      | Times => Some (VInt (wrap64 (lint * rint)))
      | Divide => if (rint =? 0)%Z then None else Some (VInt (wrap64 (Z.quot lint rint)))
      end
  | liok, riok =>
      match convertToFloat left, convertToFloat right with
      | Some lfloat, Some rfloat => float_op op lfloat rfloat
      | lfok, rfok =>
          match liok, rfok, lfok, riok with
          | Some lint, Some rfloat, _, _ => float_op op (of_Z lint) rfloat
          | _, _, Some lfloat, Some rint => float_op op lfloat (of_Z rint)
          | _, _, _, _ => None
          end
      end
  end.

(* Expression.Execute on such a field after the Results were filled in *)
Fixpoint eval_aexpr (e : aexpr) (results : list value) : option value :=
  match e with
  | AEInt z => Some (VInt z)
  | AEFlt f => Some (VFlt f)
  | AECall i => nth_error results i
  | AEBin op l r =>
      match eval_aexpr l results with
      | None => None
      | Some lv => match eval_aexpr r results with
                   | None => None
                   | Some rv => executeMathOp lv rv op
                   end
      end
  end.

(* ---------------------------------------------------------------- aggregate_plan.go *)

(* [pobs]: what the oracle recorded for one scanned pair; [field]: AggrPlanField as set up by
   Init (IsKey with its index into p_k, or Expr / FuncExprs / Funcs); [plan]: the AggregatePlan
   fields AggrAll, Fields, Start, Limit (None = -1) -- all defined in Spec/Group.v *)

(* convertToBytes *)
Definition convertToBytes (v : value) : bytes :=
  match v with
  | VBool true => "true"
  | VBool false => "false"
  | VBytes s => s
  | VStr s => s
  | VInt z => fmt_d z
  | VFlt f => fmt_f f
  | VNil => EmptyString
  end%string.

(* aggrKeyBytes: a float is keyed by its exact value (its bits), everything else by its text *)
Definition aggrKeyBytes (v : value) : bytes :=
  match v with
  | VFlt f => bits_f f
  | _ => convertToBytes v
  end.

(* appendAggrKeyPart *)
Definition appendAggrKeyPart (key val : bytes) : bytes :=
  if fix_key then (key ++ fmt_d (Z.of_nat (String.length val)) ++ ":" ++ val)%string
  else (key ++ val)%string.

Definition defaultAggrKey : bytes := "*"%string.

(* getAggrKey / one element of batchGetAggrKeys *)
Definition getAggrKey (p : plan) (o : pobs) : bytes :=
  if pl_all p then defaultAggrKey
  else fold_left (fun gkey v => appendAggrKeyPart gkey (aggrKeyBytes v)) (p_g o) EmptyString.

(* one column of a group row: []*AggrPlanField *)
Inductive col := CKey (v : bytes) | CAgg (e : aexpr) (calls : list call) (sts : list astate).

(* createAggrRow *)
Definition createAggrRow (p : plan) (o : pobs) : list col :=
  map (fun f => match f with
                | FKey k => CKey (convertToBytes (nth k (p_k o) VNil))
                | FAgg e calls => CAgg e calls (map (fun c => new_state (c_fun c)) calls)
                end) (pl_fields p).

(* updateRowAggrFunc *)
Fixpoint update_calls (calls : list call) (sts : list astate) (o : pobs) : list astate :=
  match calls, sts with
  | c :: calls', st :: sts' => update st (nth (c_arg c) (p_a o) VNil) :: update_calls calls' sts' o
  | _, _ => sts
  end.
Definition updateRowAggrFunc (row : list col) (o : pobs) : list col :=
  map (fun c => match c with
                | CKey _ => c
                | CAgg e calls sts => CAgg e calls (update_calls calls sts o)
                end) row.

(* aggrMap + aggrRows: the rows in creation order, each with its map key *)
Definition aggr_rows := list (bytes * list col).

Fixpoint lookup (k : bytes) (rows : aggr_rows) : option (list col) :=
  match rows with
  | [] => None
  | (k', r) :: rows' => if String.eqb k' k then Some r else lookup k rows'
  end.
Fixpoint replace (k : bytes) (r : list col) (rows : aggr_rows) : aggr_rows :=
  match rows with
  | [] => []
  | (k', r') :: rows' => if String.eqb k' k then (k', r) :: rows' else (k', r') :: replace k r rows'
  end.

(* body of the loop of prepare / of the inner loop of prepareBatch *)
Definition aggr_step (p : plan) (rows : aggr_rows) (aggrKey : bytes) (o : pobs) : aggr_rows :=
  match lookup aggrKey rows with
  | Some row => replace aggrKey (updateRowAggrFunc row o) rows
  | None => (rows ++ [(aggrKey, updateRowAggrFunc (createAggrRow p o) o)])%list
  end.

(* prepare: row at a time *)
Definition prepare (p : plan) (pairs : list pobs) : aggr_rows :=
  fold_left (fun rows o => aggr_step p rows (getAggrKey p o) o) pairs [].

(* prepareBatch: per chunk, all keys first (batchGetAggrKeys), then the rows *)
Definition prepare_chunk (p : plan) (rows : aggr_rows) (chunk : list pobs) : aggr_rows :=
  let aggrKeys := map (getAggrKey p) chunk in
  fold_left (fun rows ko => aggr_step p rows (fst ko) (snd ko)) (combine aggrKeys chunk) rows.
Definition prepareBatch (p : plan) (chunks : list (list pobs)) : aggr_rows :=
  fold_left (prepare_chunk p) chunks [].

(* the body of next / batch for one group row: Complete every function, store the Results,
   Execute the field expression.  None = an execution error (surfaces from Next / Batch). *)
Definition finish_col (c : col) : option value :=
  match c with
  | CKey v => Some (VBytes v)
  | CAgg e _ sts =>
      match seq_opt (map complete sts) with
      | Some results => eval_aexpr e results
      | None => None
      end
  end.
Definition finish_row (row : list col) : option (list value) := seq_opt (map finish_col row).

(* all result rows.  Go completes them lazily, [PlanBatchSize] at a time; an error therefore
   surfaces after the rows of earlier batches were returned.  The twin reports an error for
   the whole statement (the property says nothing about failing statements). *)
Definition finish_all (rows : aggr_rows) : option (list (list value)) :=
  seq_opt (map (fun kr => finish_row (snd kr)) rows).

(* batch(): the prepared rows in chunks of PlanBatchSize *)
Fixpoint chunks_fuel (X : Type) (fuel B : nat) (l : list X) : list (list X) :=
  match fuel with
  | 0 => []
  | S f => match l with
           | [] => []
           | _ => firstn B l :: chunks_fuel f B (skipn B l)
           end
  end.
Definition chunks_of (X : Type) (B : nat) (l : list X) : list (list X) :=
  chunks_fuel (List.length l) B l.

(* drain Next until nil *)
Definition run_row (p : plan) (pairs : list pobs) : option (list (list value)) :=
  match finish_all (prepare p pairs) with
  | None => None
  | Some rows =>
      match pl_limit p with
      | None => Some rows
      | Some n => drain_row (pl_start p) n rows
      end
  end.

(* drain Batch until it returns no rows; [chunks] = the batches of the child plan *)
Definition run_batch (p : plan) (B : nat) (chunks : list (list pobs)) : option (list (list value)) :=
  match finish_all (prepareBatch p chunks) with
  | None => None
  | Some rows =>
      match pl_limit p with
      | None => Some (List.concat (chunks_of B rows))
      | Some n => option_map (@List.concat _) (drain_batch true B (pl_start p) n (chunks_of B rows))
      end
  end.

End Aggregate.

Arguments CKey {F} v.
