(* Model/AggregateFloat.v -- the instance used to RUN the twin of Model/Aggregate.v: Coq's
   primitive binary64 floats (evaluated by the kernel VM on the host FPU, the arithmetic Go
   uses on amd64) and executable versions of the Go library functions the aggregate code calls
   (strconv / fmt / encoding/json), each on a stated fragment:

     fmt %f               exact for every float (exact decimal expansion, round half even);
     float64(int64)       exact (of_uint63 rounds to nearest even like the hardware);
     int64(float64)       truncation; values outside int64 give -2^63 (amd64);
     strconv.ParseFloat   [sign] digits [ . digits ] with at most 15 digits: one correctly
                          rounded division (the classical fast path); anything else = None,
                          so the harness must only produce such texts or texts that are
                          certainly not numbers;
     json float           finite, |x| < 2^31, at most 6 fractional decimal digits; other finite
                          floats give a sentinel text that never equals Go's output;
     json string          printable ASCII with the escapes of encoding/json for the quote, backslash, less, greater and ampersand;
                          other bytes give the sentinel.
   No theorem depends on this file: the theorems are stated over an abstract float type. *)
From Coq Require Import List String Ascii ZArith Bool Floats Uint63.
From KV Require Import Base.Bytes Spec.Group Model.Aggregate.
Import ListNotations.

Definition f_of_Z (z : Z) : float :=
  if (z <=? - 2 ^ 63)%Z then (- (Z.ldexp 1 63))%float
  else if (z <? 0)%Z then (- (of_uint63 (Uint63.of_Z (- z))))%float
  else of_uint63 (Uint63.of_Z z).

Definition f_to_Z (f : float) : Z :=
  match Prim2SF f with
  | S754_zero _ => 0%Z
  | S754_finite s m e =>
      let a := if (0 <=? e)%Z then (Zpos m * 2 ^ e)%Z else (Zpos m / 2 ^ (- e))%Z in
      if (2 ^ 63 <=? a)%Z then (- 2 ^ 63)%Z else if s then (- a)%Z else a
  | _ => (- 2 ^ 63)%Z
  end.

Definition f_ltb (a b : float) : bool := PrimFloat.ltb a b.
Definition f_is0 (a : float) : bool := PrimFloat.eqb a 0%float.

Fixpoint zeros (n : nat) : string :=
  match n with 0 => EmptyString | S n' => String "0" (zeros n') end.
Definition pad6 (s : string) : string := (zeros (6 - String.length s) ++ s)%string.

(* m * 2^e * 10^6 rounded half-even to an integer *)
Definition scaled6 (m : positive) (e : Z) : Z * bool :=
  let num := if (0 <=? e)%Z then (Zpos m * 2 ^ e * 10 ^ 6)%Z else (Zpos m * 10 ^ 6)%Z in
  let den := if (0 <=? e)%Z then 1%Z else (2 ^ (- e))%Z in
  let q := (num / den)%Z in
  let r := (num mod den)%Z in
  if (r =? 0)%Z then (q, true)
  else if (2 * r <? den)%Z then (q, false)
  else if (den <? 2 * r)%Z then ((q + 1)%Z, false)
  else if Z.even q then (q, false) else ((q + 1)%Z, false).

Definition f_fmt (f : float) : bytes :=
  match Prim2SF f with
  | S754_nan => "NaN"
  | S754_infinity false => "+Inf"
  | S754_infinity true => "-Inf"
  | S754_zero s => (if s then "-" else "") ++ "0.000000"
  | S754_finite s m e =>
      let q := fst (scaled6 m e) in
      (if s then "-" else "") ++ dec (q / 10 ^ 6) ++ "." ++ pad6 (dec (q mod 10 ^ 6))
  end%string.

Definition json_oom : bytes := "<json-out-of-model>"%string.

(* m * 2^e * 10^k rounded half-even to an integer, and whether that was exact *)
Definition scaledk (m : positive) (e : Z) (k : nat) : Z * bool :=
  let p10 := (10 ^ Z.of_nat k)%Z in
  let num := if (0 <=? e)%Z then (Zpos m * 2 ^ e * p10)%Z else (Zpos m * p10)%Z in
  let den := if (0 <=? e)%Z then 1%Z else (2 ^ (- e))%Z in
  let q := (num / den)%Z in
  let r := (num mod den)%Z in
  if (r =? 0)%Z then (q, true)
  else if (2 * r <? den)%Z then (q, false)
  else if (den <? 2 * r)%Z then ((q + 1)%Z, false)
  else if Z.even q then (q, false) else ((q + 1)%Z, false).

Definition padk (k : nat) (s : string) : string := (zeros (k - String.length s) ++ s)%string.

(* strconv.AppendFloat(f, 'f', -1, 64) as used by encoding/json: the fewest fractional
   digits k (searched up to 6) whose nearest k-digit decimal reads back as the same float *)
Fixpoint json_search (fuel k : nat) (x : float) (m : positive) (e : Z) : option (Z * nat * bool) :=
  match fuel with
  | 0 => None
  | S fuel' =>
      match scaledk m e k with
      | (q, exact) =>
          if exact || PrimFloat.eqb (of_uint63 (Uint63.of_Z q) / of_uint63 (Uint63.of_Z (10 ^ Z.of_nat k)))%float x
          then Some (q, k, exact)
          else json_search fuel' (S k) x m e
      end
  end.

Definition f_json (f : float) : option bytes :=
  match Prim2SF f with
  | S754_nan | S754_infinity _ => None
  | S754_zero s => Some (if s then "-0" else "0")%string
  | S754_finite s m e =>
      if (PrimFloat.ltb (abs f) 2147483648 && PrimFloat.leb 0x1.0c6f7a0b5ed8dp-20 (abs f))%bool then
        match json_search 7 0 (abs f) m e with
        | Some (q, k, exact) =>
            if negb exact && Pos.eqb m 4503599627370496 then Some json_oom
            else
              let p10 := (10 ^ Z.of_nat k)%Z in
              Some ((if s then "-" else "") ++ dec (q / p10) ++
                    (match k with 0 => EmptyString | _ => "." ++ padk k (dec (q mod p10)) end))%string
        | None => Some json_oom
        end
      else Some json_oom
  end.

(* strconv.ParseFloat on the fragment [sign] digits [. digits] *)
Fixpoint split_dot (s : string) (acc : string) : string * option string :=
  match s with
  | EmptyString => (acc, None)
  | String "." r => (acc, Some r)
  | String c r => split_dot r (acc ++ String c EmptyString)%string
  end.
Definition parse_ufloat (s : string) : option float :=
  match split_dot s EmptyString with
  | (ip, None) =>
      match parse_uint ip with
      | Some z => if (String.length ip <=? 15)%nat then Some (f_of_Z z) else None
      | None => None
      end
  | (ip, Some fp) =>
      if ((String.length ip + String.length fp <=? 15) && (1 <=? String.length ip) && (1 <=? String.length fp))%nat then
        match parse_digits (ip ++ fp)%string 0%Z with
        | Some z => Some (f_of_Z z / f_of_Z (10 ^ Z.of_nat (String.length fp)))%float
        | None => None
        end
      else None
  end.
Definition f_parse (s : bytes) : option float :=
  match s with
  | String "-" r => match parse_ufloat r with Some f => Some (- f)%float | None => None end
  | String "+" r => parse_ufloat r
  | _ => parse_ufloat s
  end.

(* encoding/json string encoder (escapeHTML = true), on printable ASCII *)
Fixpoint json_body (s : string) : option string :=
  match s with
  | EmptyString => Some EmptyString
  | String c r =>
      match json_body r with
      | None => None
      | Some r' =>
          let n := N_of_ascii c in
          if (n =? 34)%N then Some ("\""" ++ r')%string
          else if (n =? 92)%N then Some ("\\" ++ r')%string
          else if (n =? 60)%N then Some ("\u003c" ++ r')%string
          else if (n =? 62)%N then Some ("\u003e" ++ r')%string
          else if (n =? 38)%N then Some ("\u0026" ++ r')%string
          else if (32 <=? n)%N && (n <=? 126)%N then Some (String c r')
          else None
      end
  end.
Definition f_json_s (s : bytes) : bytes :=
  match json_body s with
  | Some b => ("""" ++ b ++ """")%string
  | None => json_oom
  end.

(* a float from its 64 bits (the harness prints floats this way) *)
Definition fb (bits : Z) : float :=
  let s := (2 ^ 63 <=? bits)%Z in
  let e := ((bits / 2 ^ 52) mod 2 ^ 11)%Z in
  let m := (bits mod 2 ^ 52)%Z in
  let mag :=
    if (e =? 0)%Z then Z.ldexp (f_of_Z m) (-1074)
    else if (e =? 2047)%Z then (if (m =? 0)%Z then infinity else nan)
    else Z.ldexp (f_of_Z (m + 2 ^ 52)) (e - 1075) in
  if s then (- mag)%float else mag.

(* same bits (all NaNs identified) *)
Definition f_same (a b : float) : bool :=
  match Prim2SF a, Prim2SF b with
  | S754_zero s, S754_zero t => Bool.eqb s t
  | S754_infinity s, S754_infinity t => Bool.eqb s t
  | S754_nan, S754_nan => true
  | S754_finite s m e, S754_finite t n g => Bool.eqb s t && Pos.eqb m n && Z.eqb e g
  | _, _ => false
  end.

(* strconv.FormatUint(math.Float64bits(f), 16): lower-case hex, no leading zeros.  NaNs (whose
   payload the twin does not track) are never generated. *)
Definition hexchar (d : Z) : ascii :=
  ascii_of_N (Z.to_N (if (d <? 10)%Z then 48 + d else 87 + d)%Z).
Fixpoint hex_digits (fuel : nat) (z : Z) (acc : string) : string :=
  match fuel with
  | 0 => acc
  | S fuel' => if (z =? 0)%Z then acc else hex_digits fuel' (z / 16)%Z (String (hexchar (z mod 16)%Z) acc)
  end.
Definition hex (z : Z) : string := if (z =? 0)%Z then "0"%string else hex_digits 16 z EmptyString.

Definition bits_of (f : float) : Z :=
  match Prim2SF f with
  | S754_zero s => if s then (2 ^ 63)%Z else 0%Z
  | S754_infinity s => ((if s then 2 ^ 63 else 0) + 2047 * 2 ^ 52)%Z
  | S754_nan => (2047 * 2 ^ 52 + 2 ^ 51 + 1)%Z
  | S754_finite s m e =>
      let sg := (if s then 2 ^ 63 else 0)%Z in
      if (2 ^ 52 <=? Zpos m)%Z then (sg + (e + 1075) * 2 ^ 52 + (Zpos m - 2 ^ 52))%Z
      else (sg + Zpos m)%Z
  end.
Definition f_bits (f : float) : bytes := hex (bits_of f).

(* the twin on binary64 *)
Definition fvalue := value float.
Definition fplan := plan float.
Definition fpobs := pobs float.

Definition run_row64 (fix_key fix_minmax : bool) :=
  @run_row float PrimFloat.add PrimFloat.sub PrimFloat.mul PrimFloat.div f_ltb f_is0 f_of_Z f_to_Z
           f_fmt f_bits f_json f_parse f_json_s fix_key fix_minmax.
Definition run_batch64 (fix_key fix_minmax : bool) :=
  @run_batch float PrimFloat.add PrimFloat.sub PrimFloat.mul PrimFloat.div f_ltb f_is0 f_of_Z f_to_Z
             f_fmt f_bits f_json f_parse f_json_s fix_key fix_minmax.
