(* Model/AggregateLazy.v -- WHICH expression AggregatePlan evaluates on WHICH pair, in which
   order, and WHEN a group's row is completed: the evaluation discipline of aggregate_plan.go /
   aggr_func.go, function by function.  Model/Aggregate.v is the twin of what the plan does WITH
   the values (group key, aggrMap / aggrRows, the accumulators, Complete, the arithmetic around
   the calls); this file is the twin of what it ASKS FOR, and of the laziness of next / batch.
   No proofs here (Proofs/AggregateLazyProofs.v).

   ROW MODE -- AggregatePlan.prepare, one iteration per pair [kv] the child's Next yields (the
   child is the scan with the WHERE clause: its filter runs on the pairs in scan order, and the
   filter of the NEXT pair runs only after everything below succeeded on this one):
     1. getAggrKey(kv):  AggrAll (no GROUP BY): nothing is evaluated, the key is "*".
        Otherwise for every GROUP BY expression, left to right: Execute on kv, then aggrKeyBytes
        of the value; the first error ends the statement.
     2. if the key is NOT in aggrMap -- kv is the FIRST pair of its group -- createAggrRow(kv):
        for every select field, left to right, that holds no aggregate call (IsKey): Execute on kv
        and convertToBytes; the first error ends the statement.  On every later pair of the group
        NO non-aggregate field is evaluated.
     3. updateRowAggrFunc(row, kv): for every select field with aggregate calls, left to right,
        for every call in it in the order of listAggrFuncs (left operand before right operand):
        Funcs[i].Update(kv, Args).  aggrCountFunc.Update increments its counter and evaluates
        NOTHING; every other functor Executes Args[0] on kv first; the first error ends the
        statement.
   BATCH MODE -- AggregatePlan.prepareBatch, one iteration per non-empty chunk the child's Batch
   yields:
     1. batchGetAggrKeys(chunk): AggrAll: nothing.  Otherwise for every GROUP BY expression, left
        to right, ExecuteBatch on the WHOLE chunk (first error ends the statement); only then,
        pair by pair and expression by expression, aggrKeyBytes of the values.
     2. then for every pair of the chunk, in order: steps 2 and 3 of row mode, with Execute (the
        non-aggregate fields and the aggregate arguments are NOT evaluated by ExecuteBatch).
   So both modes evaluate the same set of (expression, pair) combinations -- GROUP BY expressions
   on every pair, non-aggregate fields on the first pair of every group only, the first argument
   of every aggregate call other than count on every pair, the argument of count never -- and
   differ in the ORDER only: batch mode evaluates the GROUP BY expressions of a whole chunk
   (column by column) before the first field / argument of the chunk's first pair.  Which error
   surfaces when several evaluations would fail therefore differs; whether one surfaces does not.

   The twin hands Model/Aggregate.v a [pobs] per pair in which a value that was NOT evaluated is
   absent ([p_k] = [] on a later pair of a group) or the placeholder nil ([p_a] at the indices no
   non-count call reads).  Model/Aggregate.v never looks at them (createAggrRow runs on a group's
   first pair only, update of SCount ignores its value), which is what
   Proofs/AggregateLazyProofs.v [prepare_blank] states.

   COMPLETING ROWS -- next() / batch() complete ONE group row / up to PlanBatchSize group rows per
   call (Complete of every functor, then Execute of the field expression around the Results); an
   error (x / 0, an unencodable float) surfaces from the call that completes the failing group.
     * Limit < 0: Next is next, Batch is batch; a drain completes every group, the statement fails
       iff some group fails (Model/Aggregate.v [finish_all]).  FinalOrderPlan over the
       AggregatePlan drains it completely in both modes.
     * Limit >= 0 (LIMIT without ORDER BY, pushed into the plan): Next / Batch are the code of
       limit_plan.go over next / batch (Model/LimitLazy.v [lnext] / [lbatch] over [anext] /
       [abatch]): row mode completes the first min(Start + Limit, #groups) groups and never a
       later one; batch mode completes whole runs of PlanBatchSize groups until Start + Limit rows
       were seen.  A group that would fail beyond that is never completed. *)
From Coq Require Import List String ZArith Bool Arith.
Import ListNotations.
From KV Require Import Base.Bytes Model.Value Model.ScanProj Model.LimitLazy Spec.Group.
From KV Require Model.Limit Model.Aggregate.
Local Open Scope nat_scope.
Local Open Scope list_scope.

Set Implicit Arguments.

(* Model/Aggregate.v answers None for an execution error *)
Definition exec_res {A} (o : option A) : res A := match o with Some a => Ok a | None => Err EOther end.

(* ================================================================ the loops of prepare / prepareBatch *)
(* over the scan of Model/ScanProj.v.  [T] is the part of the plan's state the evaluations depend
   on (the keys of aggrMap); [orow t kv] is everything one iteration of prepare evaluates on [kv],
   [obatch t chunk] everything one iteration of prepareBatch evaluates on [chunk]. *)
Section Drains.
Variable P R T : Type.
Variable frow : P -> res bool.
Variable fbatch : list P -> res (list bool).
Variable orow : T -> P -> res (R * T).
Variable obatch : T -> list P -> res (list R * T).

(* for { k, v, err := a.ChildPlan.Next(nil); if k == nil && v == nil break; ... } *)
Fixpoint sdrain_row_fuel (fuel : nat) (t : T) (rest : list (option P)) : res (list R) :=
  match fuel with
  | 0 => OutOfModel
  | Datatypes.S f =>
      do kr <- scan_next frow rest;
      match kr with
      | (None, _) => Ok []
      | (Some kv, rest') =>
          do ot <- orow t kv;
          do out <- sdrain_row_fuel f (snd ot) rest';
          Ok (fst ot :: out)
      end
  end.
Definition sdrain_row (t : T) (rest : list (option P)) : res (list R) :=
  sdrain_row_fuel (Datatypes.S (List.length rest)) t rest.

(* for { kvps, err := a.ChildPlan.Batch(ctx); if len(kvps) == 0 break; ... } *)
Fixpoint sdrain_batch_fuel (fuel B : nat) (t : T) (rest : list (option P)) : res (list (list R)) :=
  match fuel with
  | 0 => OutOfModel
  | Datatypes.S f =>
      do kr <- scan_batch fbatch B rest;
      match kr with
      | ([], _) => Ok []
      | (kvs, rest') =>
          do ot <- obatch t kvs;
          do outs <- sdrain_batch_fuel f B (snd ot) rest';
          Ok (fst ot :: outs)
      end
  end.
Definition sdrain_batch (B : nat) (t : T) (rest : list (option P)) : res (list (list R)) :=
  sdrain_batch_fuel (Datatypes.S (List.length rest)) B t rest.

(* [orow] on the pairs of a list, threading the state (what row mode does on the pairs of a chunk) *)
Fixpoint smap_res (t : T) (l : list P) : res (list R * T) :=
  match l with
  | [] => Ok ([], t)
  | kv :: l' =>
      do ot <- orow t kv;
      do rest <- smap_res (snd ot) l';
      Ok (fst ot :: fst rest, snd rest)
  end.

End Drains.

Arguments sdrain_row_fuel {P R T} frow orow fuel t rest.
Arguments sdrain_row {P R T} frow orow t rest.
Arguments sdrain_batch_fuel {P R T} fbatch obatch fuel B t rest.
Arguments sdrain_batch {P R T} fbatch obatch B t rest.
Arguments smap_res {P R T} orow t l.

(* ================================================================ what is evaluated on a pair *)
Section LazyObs.
Variable F : Type.
Variable fmt_f : F -> bytes.
Variable bits_f : F -> bytes.
Variable P : Type.                                        (* a pair *)

Notation gvalue := (Group.value F).
Notation pobs := (Group.pobs F).
Notation plan := (Group.plan F).

(* the evaluators (parameters: the expression evaluator twins in Model/SelectPlans.v, recorded
   outcomes in Corr/C09.v).
   [eval_g kv]   getAggrKey's loop: Execute + aggrKeyBytes for every GROUP BY expression;
   [batch_g ch]  batchGetAggrKeys: ExecuteBatch per GROUP BY expression on the chunk, then
                 aggrKeyBytes per pair: one list of values per pair;
   [eval_k kv]   createAggrRow's evaluations: Execute + convertToBytes for every non-aggregate field;
   [eval_a need kv]  updateRowAggrFunc's evaluations: Execute of the first argument of the calls
                 whose index satisfies [need] (indices and order of Model/Aggregate.v's [c_arg]:
                 the calls in field order, inside a field in listAggrFuncs order); the result has
                 one entry per call, nil where nothing was evaluated *)
Variable eval_g : P -> res (list gvalue).
Variable batch_g : list P -> res (list (list gvalue)).
Variable eval_k : P -> res (list gvalue).
Variable eval_a : (nat -> bool) -> P -> res (list gvalue).

(* the keys of a.aggrMap *)
Definition seen := list bytes.
Definition seen_mem (k : bytes) (t : seen) : bool := existsb (String.eqb k) t.

(* aggrCountFunc.Update does not look at its arguments; every other Update Executes Args[0] *)
Definition call_evaluates (c : call) : bool := match c_fun c with ACount => false | _ => true end.
Definition field_calls (f : Group.field F) : list call :=
  match f with FKey _ => [] | FAgg _ calls => calls end.
Definition plan_calls (p : plan) : list call := flat_map field_calls (pl_fields p).
Definition arg_needed (p : plan) (i : nat) : bool :=
  existsb (fun c => call_evaluates c && Nat.eqb (c_arg c) i) (plan_calls p).

(* the key of the pair whose GROUP BY values are [g] (getAggrKey / one entry of batchGetAggrKeys) *)
Definition lkey (p : plan) (g : list gvalue) : bytes :=
  Aggregate.getAggrKey fmt_f bits_f true p (PObs g [] []).

(* `row, have := a.aggrMap[aggrKey]; if !have { createAggrRow }; updateRowAggrFunc` *)
Definition lobs_tail (p : plan) (t : seen) (kv : P) (g : list gvalue) : res (pobs * seen) :=
  let key := lkey p g in
  if seen_mem key t then
    do a <- eval_a (arg_needed p) kv; Ok (PObs g [] a, t)
  else
    do k <- eval_k kv;
    do a <- eval_a (arg_needed p) kv;
    Ok (PObs g k a, t ++ [key]).

(* one iteration of prepare *)
Definition lobs_row (p : plan) (t : seen) (kv : P) : res (pobs * seen) :=
  do g <- (if pl_all p then Ok [] else eval_g kv);
  lobs_tail p t kv g.

(* one iteration of prepareBatch: all keys of the chunk first *)
Fixpoint lobs_zip (p : plan) (t : seen) (ch : list P) (gss : list (list gvalue)) : res (list pobs * seen) :=
  match ch, gss with
  | [], _ => Ok ([], t)
  | kv :: ch', g :: gss' =>
      do ot <- lobs_tail p t kv g;
      do rest <- lobs_zip p (snd ot) ch' gss';
      Ok (fst ot :: fst rest, snd rest)
  | _ :: _, [] => Panic
  end.
Definition lobs_batch (p : plan) (t : seen) (ch : list P) : res (list pobs * seen) :=
  do gss <- (if pl_all p then Ok (map (fun _ => []) ch) else batch_g ch);
  lobs_zip p t ch gss.

End LazyObs.

Arguments seen_mem k t : simpl never.

(* ================================================================ completing the rows *)
Section LazyFinish.
Variable F : Type.
Variable fadd fsub fmul fdiv : F -> F -> F.
Variable fltb : F -> F -> bool.
Variable fis0 : F -> bool.
Variable of_Z : Z -> F.
Variable to_Z : F -> Z.
Variable fmt_f : F -> bytes.
Variable bits_f : F -> bytes.
Variable json_f : F -> option bytes.
Variable parse_f : bytes -> option F.
Variable json_s : bytes -> bytes.

Notation gvalue := (Group.value F).
Notation pobs := (Group.pobs F).
Notation plan := (Group.plan F).
Notation aggr_rows := (Aggregate.aggr_rows F).
Notation finish_row := (Aggregate.finish_row fadd fsub fmul fdiv fis0 of_Z json_f json_s).
Notation finish_all := (Aggregate.finish_all fadd fsub fmul fdiv fis0 of_Z json_f json_s).
Notation prepare := (Aggregate.prepare fadd fltb of_Z to_Z fmt_f bits_f parse_f true true).
Notation prepareBatch := (Aggregate.prepareBatch fadd fltb of_Z to_Z fmt_f bits_f parse_f true true).

(* the state of next / batch is a.pos: the group rows not handed out yet *)

(* next(): `if a.pos >= len(a.aggrRows) return nil, nil`; complete aggrRows[a.pos]; a.pos++ *)
Definition anext (rows : aggr_rows) : res (option (list gvalue) * aggr_rows) :=
  match rows with
  | [] => Ok (None, [])
  | kr :: rest => do r <- exec_res (finish_row (snd kr)); Ok (Some r, rest)
  end.

(* batch(): up to PlanBatchSize rows, an error while completing any of them fails the call *)
Definition abatch (B : nat) (rows : aggr_rows) : res (list (list gvalue) * aggr_rows) :=
  match rows with
  | [] => Ok ([], [])
  | _ => do rs <- exec_res (seq_opt (map (fun kr => finish_row (snd kr)) (firstn B rows)));
         Ok (rs, skipn B rows)
  end.

(* Next until nil / Batch until the empty batch, on the prepared rows *)
Definition adrain_row (p : plan) (rows : aggr_rows) : res (list (list gvalue)) :=
  match pl_limit p with
  | None => exec_res (finish_all rows)
  | Some n => ldrain_row anext (pl_start p) n rows
  end.
Definition adrain_batch (p : plan) (B : nat) (rows : aggr_rows) : res (list (list gvalue)) :=
  match pl_limit p with
  | None => exec_res (finish_all rows)
  | Some n =>
      do outs <- ldrain_batch_fuel (abatch B) (Datatypes.S (Datatypes.S (List.length rows))) B
                                   (pl_start p) n Limit.linit rows;
      Ok (List.concat outs)
  end.

(* the AggregatePlan drained by Next / by Batch, on the observations of the scanned pairs *)
Definition lrun_row (p : plan) (pairs : list pobs) : res (list (list gvalue)) :=
  adrain_row p (prepare p pairs).
Definition lrun_batch (p : plan) (B : nat) (chunks : list (list pobs)) : res (list (list gvalue)) :=
  adrain_batch p B (prepareBatch p chunks).

End LazyFinish.
