(* Model/AliasText.v -- C05 FROM THE QUERY TEXT: the syntactic expansion of the field names of a
   PARSED SELECT statement, and the text pipeline of Model/PipelineS.v restarted from a parsed
   statement.

   [expand_stmt x]: every use of a select-field name is replaced by the defining expression of
   the FIRST select field carrying that name (Checker.get_named: findFieldInSelect /
   CheckCtx.GetNamedExpr return the first), at exactly the places where the Go code turns a name
   into a FieldReferenceExpr:
     - inside the select fields: the places SelectStmt.resolveFieldNames rewrites
       (Checker.resolve: both sides of a binary operator, the operand of !, call arguments --
       aggregate arguments included --, list items, the left side of a field access; not the
       function-name position of a call; not the ROOT of a field: `zq1 as zq0` stays the name
       zq1, the Go code never resolves it);
     - in the WHERE clause: the places Expression.Check rewrites (the same ones) and the root
       (Parser.Parse resolves a WHERE clause that is a field name alone);
   to a fixpoint for chains of names ([expand_n] unfolds as often as there are fields, as
   Checker.link does for the references; checkFieldCycles has passed on an accepted statement,
   so that no chain is longer).
   The select fields KEEP their names (`expr AS name` with expr expanded).  ORDER BY and GROUP BY
   items are NOT rewritten: an item is not an expression that is evaluated but a NAME that
   findFieldInSelect looks up among the select fields (the first field of that name; key and
   value stand for themselves in GROUP BY), and the field it finds is the expanded field of the
   expanded statement.  LIMIT is kept.

   [run_select_st x d m]: Model/PipelineS.select_stmt_text_st from the point where Parser.Parse
   has built the statement x (PipelineS.front_s after the parser: to_check_s, the checker, call
   validation; then plan_of_front and the drain).  The semantic tests the parser runs in the
   middle of parsing (cycle test, ORDER BY / GROUP BY lookups) are those of the text the
   statement came from.
   [expanded_text_st q d m]: the text q through the front end, then the EXPANDED statement of
   the statement Parser.Parse built for q through the rest of the pipeline.

   No proofs in this file (Proofs/AliasTextProofs.v). *)
From Coq Require Import List String ZArith Bool Arith.
Import ListNotations.
From KV Require Import Base.Bytes Base.Num Model.Token Model.Ast Model.Value Model.Eval Model.EvalVec
                       Model.Lexer Model.ExprParser Model.StmtParser Model.ParseCheck Model.Fold
                       Model.Storage Model.ScanSem Model.ScanProj
                       Model.SelectPlans Model.Pipeline Model.PipelineW Model.PipelineS.
From KV Require Model.Checker Model.Order.
Local Open Scope string_scope.
Local Open Scope list_scope.

(* a name that is a select-field name -> the definition of the first field of that name
   (Checker.rewrite_name without the reference node) *)
Definition sub_name (defs : list (string * expr)) (e : expr) : expr :=
  match e with
  | EName _ s => match Checker.get_named defs s with Some d => d | None => e end
  | _ => e
  end.

(* Checker.resolve with the definition written in place of the reference *)
Fixpoint subst (defs : list (string * expr)) (e : expr) {struct e} : expr :=
  match e with
  | EBin p o l r => EBin p o (sub_name defs (subst defs l)) (sub_name defs (subst defs r))
  | ENot p r => ENot p (sub_name defs (subst defs r))
  | ECall p nm args => ECall p nm (map (fun a => sub_name defs (subst defs a)) args)
  | EList p items => EList p (map (fun a => sub_name defs (subst defs a)) items)
  | EAccess p l f => EAccess p (sub_name defs (subst defs l)) (subst defs f)
  | _ => e
  end.

(* chains: Checker.link_n *)
Fixpoint expand_n (k : nat) (raw : list (string * expr)) : list (string * expr) :=
  match k with
  | 0 => raw
  | S k' => map (fun nf => (fst nf, subst (expand_n k' raw) (snd nf))) raw
  end.

Definition expand_defs (raw : list (string * expr)) : list (string * expr) :=
  expand_n (List.length raw) raw.

(* the WHERE clause: the operands, and the root *)
Definition expand_where (defs : list (string * expr)) (w : expr) : expr :=
  sub_name defs (subst defs w).

Definition expand_stmt (x : select_t) : select_t :=
  if negb (Nat.eqb (List.length (StmtParser.s_names x)) (List.length (s_fields x))) then x
  else
    let defs := expand_defs (combine (StmtParser.s_names x) (s_fields x)) in
    Select (s_pos x) (s_all x) (map snd defs) (StmtParser.s_names x) (s_wpos x)
           (expand_where defs (s_where x)) (StmtParser.s_order x) (s_group x) (StmtParser.s_limit x).

(* no name is left where a reference would be made: what "every use is replaced" means for the
   result (a name that is no select-field name -- an unknown identifier -- stays) *)
Fixpoint uses_name (names : list string) (e : expr) {struct e} : bool :=
  let at_operand (a : expr) :=
    match a with EName _ s => existsb (String.eqb s) names | _ => uses_name names a end in
  match e with
  | EBin _ _ l r => at_operand l || at_operand r
  | ENot _ r => at_operand r
  | ECall _ _ args => existsb at_operand args
  | EList _ items => existsb at_operand items
  | EAccess _ l f => at_operand l || uses_name names f
  | _ => false
  end.

(* the exclusion of C14's statement theorems (fields_no_bare): no select field is a bare name *)
Definition is_bare_name (e : expr) : bool := match e with EName _ _ => true | _ => false end.
Definition no_bare_fields (x : select_t) : bool := negb (existsb is_bare_name (s_fields x)).

Section AliasText.
Variable fo : fops.
Variable re_match : bytes -> bytes -> Value.res bool.
Variable fmt_v : F fo -> string.
Variable ag : aggops fo.
Variable parse_int parse_float : bytes -> option Z.

(* PipelineS.front_s from the parsed statement on *)
Definition front_of_select (x : select_t) : stres (select_t * list (string * expr) * expr) :=
  match to_check_s x with
  | None => STOom
  | Some c =>
      stbind (of_front (Checker.check_stmt fo true c)) (fun c2 =>
      stbind (of_front (Checker.check_stmt_calls c2)) (fun _ =>
        match c2 with
        | Checker.SSelect fields w _ => STOk (x, fields, w)
        | _ => STPanic
        end))
  end.

Definition plan_select_st (x : select_t) : stres (splanned fo) :=
  stbind (front_of_select x) (fun r => plan_of_front fo re_match fmt_v (fst (fst r)) (snd (fst r)) (snd r)).

Definition run_select_st (x : select_t) (d : store) (m : tmode) : stres (list Order.row) :=
  stbind (plan_select_st x) (fun pl =>
    of_drain (drain_planned fo re_match ag parse_int parse_float pl d m)).

(* the accepted text q, its statement expanded, the rest of the pipeline *)
Definition expanded_text_st (q : string) (d : store) (m : tmode) : stres (list Order.row) :=
  stbind (front_s fo q) (fun r => run_select_st (expand_stmt (fst (fst r))) d m).

(* the trees the plan of the text evaluates, with every reference replaced by its definition
   (Model/Cache.v expand on the checked and folded trees) -- see Proofs/AliasTextProofs.v *)

End AliasText.
