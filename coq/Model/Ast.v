(* Model/Ast.v -- expression and statement trees of expression.go / statement.go.
   Numbers and floats keep their source text (the value is computed by the evaluator twin);
   positions are byte offsets (token starts). *)
From Coq Require Import String List ZArith.
Import ListNotations.

Inductive kvkw := KeyKW | ValueKW.

Inductive op :=
  | OAnd | OOr | ONot | OEq | ONotEq | OPrefixMatch | ORegExpMatch | OAdd | OSub | OMul | ODiv
  | OGt | OGte | OLt | OLte | OIn | OBetween | OKWAnd | OKWOr.

Definition op_code (o : op) : nat :=
  match o with
  | OAnd => 1 | OOr => 2 | ONot => 3 | OEq => 4 | ONotEq => 5 | OPrefixMatch => 6
  | ORegExpMatch => 7 | OAdd => 8 | OSub => 9 | OMul => 10 | ODiv => 11 | OGt => 12 | OGte => 13
  | OLt => 14 | OLte => 15 | OIn => 16 | OBetween => 17 | OKWAnd => 18 | OKWOr => 19
  end.
Definition op_eqb (a b : op) : bool := Nat.eqb (op_code a) (op_code b).

(* OperatorToString *)
Definition op_text (o : op) : string :=
  match o with
  | OAnd => "&" | OOr => "|" | ONot => "!" | OEq => "=" | ONotEq => "!=" | OPrefixMatch => "^="
  | ORegExpMatch => "~=" | OAdd => "+" | OSub => "-" | OMul => "*" | ODiv => "/" | OGt => ">"
  | OGte => ">=" | OLt => "<" | OLte => "<=" | OIn => "in" | OBetween => "between"
  | OKWAnd => "and" | OKWOr => "or"
  end%string.

Inductive expr :=
  | EBin (pos : nat) (o : op) (l r : expr)          (* BinaryOpExpr *)
  | EField (pos : nat) (f : kvkw)                    (* FieldExpr: key / value *)
  | EStr (pos : nat) (s : string)                    (* StringExpr *)
  | ENot (pos : nat) (r : expr)                      (* NotExpr *)
  | ECall (pos : nat) (name : expr) (args : list expr)  (* FunctionCallExpr *)
  | EName (pos : nat) (s : string)                   (* NameExpr *)
  | ERef (pos : nat) (name : string) (def : expr)    (* FieldReferenceExpr: alias use, with its definition *)
  | ENum (pos : nat) (data : string)                 (* NumberExpr *)
  | EFloat (pos : nat) (data : string)               (* FloatExpr *)
  | EBool (pos : nat) (b : bool)                     (* BoolExpr *)
  | EList (pos : nat) (l : list expr)                (* ListExpr *)
  | EAccess (pos : nat) (l : expr) (fname : expr).   (* FieldAccessExpr  l[fname] *)

Definition epos (e : expr) : nat :=
  match e with
  | EBin p _ _ _ | EField p _ | EStr p _ | ENot p _ | ECall p _ _ | EName p _ | ERef p _ _
  | ENum p _ | EFloat p _ | EBool p _ | EList p _ | EAccess p _ _ => p
  end.
