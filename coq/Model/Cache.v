(* Model/Cache.v -- executable twin of the field cache (plan.go ExecuteCtx) and of the code that
   uses it, as it is in /repo after the fix: commits for D6, D7, D8, D19 and the three cache
   defects found while building C05 (stale per-chunk entries after filtering, aggregation never
   clearing, a second field with the same name served from the cache).

   Row mode (modelled in full, on top of Model/Eval.v's helper functions):
     eval_c          Expression.Execute WITH the per-row cache as state: the same case analysis as
                     Model/Eval.eval, sub-expressions evaluated in the same order, the cache
                     threaded through; FieldReferenceExpr.Execute = GetFieldResult / SetFieldResult
     filter_row_c    FilterExec.Filter (ctx.Clear() at entry: the D6 fix; [d6 = false] is the
                     pinned code, kept for the regression witness)
     scan_next       FullScanPlan / PrefixScanPlan / RangeScanPlan / MultiGetPlan .Next: the loop
                     over the pairs the access path yields (which pairs those are is C02 / C18)
     project_row     ProjectionPlan.processProjection (a field is served from the cache only if
                     it is the first field with that name; [dupfix = false] is the pinned code)
     proj_next       ProjectionPlan.Next (ctx.Clear(), child Next, projection)
     drain_row       Next until nil
   [on] is ExecuteCtx.EnableCache.

   Batch mode: only the chunk-cache bookkeeping is modelled (FieldChunkCaches, bidx /
   chooseIdxes, AdjustChunkCache, the column lookup of processProjectionBatch), over an abstract
   per-row value function: the vector evaluator twin is C03's (Model/EvalVec.v) and is not used
   here.  [advance = false] is the pinned MultiGetPlan.Batch, which never advanced bidx (D8).

   No proofs in this file. *)
From Coq Require Import List String Ascii ZArith Bool Arith.
Import ListNotations.
From KV Require Import Base.Bytes Base.Num Model.Ast Model.Value Model.Eval.
Open Scope string_scope.

(* ------------------------------------------------------------------ syntactic equality of trees *)

Definition kvkw_eqb (a b : kvkw) : bool :=
  match a, b with KeyKW, KeyKW | ValueKW, ValueKW => true | _, _ => false end.

Section ListEqb.
Variable A : Type.
Variable eqb : A -> A -> bool.
Fixpoint leqb (l m : list A) {struct l} : bool :=
  match l, m with
  | [], [] => true
  | x :: l', y :: m' => eqb x y && leqb l' m'
  | _, _ => false
  end.
End ListEqb.

Fixpoint expr_eqb (a b : expr) {struct a} : bool :=
  match a, b with
  | EBin p o l r, EBin p' o' l' r' => Nat.eqb p p' && op_eqb o o' && expr_eqb l l' && expr_eqb r r'
  | EField p f, EField p' f' => Nat.eqb p p' && kvkw_eqb f f'
  | EStr p s, EStr p' s' => Nat.eqb p p' && String.eqb s s'
  | ENot p r, ENot p' r' => Nat.eqb p p' && expr_eqb r r'
  | ECall p n args, ECall p' n' args' => Nat.eqb p p' && expr_eqb n n' && leqb expr expr_eqb args args'
  | EName p s, EName p' s' => Nat.eqb p p' && String.eqb s s'
  | ERef p s d, ERef p' s' d' => Nat.eqb p p' && String.eqb s s' && expr_eqb d d'
  | ENum p s, ENum p' s' => Nat.eqb p p' && String.eqb s s'
  | EFloat p s, EFloat p' s' => Nat.eqb p p' && String.eqb s s'
  | EBool p x, EBool p' x' => Nat.eqb p p' && Bool.eqb x x'
  | EList p l, EList p' l' => Nat.eqb p p' && leqb expr expr_eqb l l'
  | EAccess p l f, EAccess p' l' f' => Nat.eqb p p' && expr_eqb l l' && expr_eqb f f'
  | _, _ => false
  end.

(* ------------------------------------------------------------------ the select list as an alias environment *)

(* CheckCtx.GetNamedExpr: the FIRST field carrying the name *)
Fixpoint lookup (env : list (string * expr)) (a : string) : option expr :=
  match env with
  | [] => None
  | (n, d) :: env' => if String.eqb n a then Some d else lookup env' a
  end.

(* Every alias use below [e] carries the definition the environment gives its name, and so do
   the uses inside that definition (what the checker builds: tryRewriteExpr takes the
   definition from GetNamedExpr).  A finite tree cannot refer to itself: the cyclic "trees"
   of the pinned code (D19) are rejected by checkFieldCycles and have no Coq counterpart. *)
Fixpoint coherent (env : list (string * expr)) (e : expr) {struct e} : bool :=
  match e with
  | EBin _ _ l r => coherent env l && coherent env r
  | ENot _ r => coherent env r
  | ECall _ n args => coherent env n && forallb (coherent env) args
  | ERef _ a d =>
      match lookup env a with
      | Some d' => expr_eqb d d' && coherent env d
      | None => false
      end
  | EList _ l => forallb (coherent env) l
  | EAccess _ l f => coherent env l && coherent env f
  | EField _ _ | EStr _ _ | EName _ _ | ENum _ _ | EFloat _ _ | EBool _ _ => true
  end.

(* ------------------------------------------------------------------ replacing alias uses by their definitions *)

(* function-name and index positions are left alone: the checker never resolves a name there *)
Fixpoint expand (e : expr) : expr :=
  match e with
  | EBin p o l r => EBin p o (expand l) (expand r)
  | ENot p r => ENot p (expand r)
  | ECall p n args => ECall p n (map expand args)
  | ERef _ _ d => expand d
  | EList p l => EList p (map expand l)
  | EAccess p l f => EAccess p (expand l) f
  | EField _ _ | EStr _ _ | EName _ _ | ENum _ _ | EFloat _ _ | EBool _ _ => e
  end.

(* the node an alias use finally stands for *)
Fixpoint strip (e : expr) : expr :=
  match e with ERef _ _ d => strip d | _ => e end.

Definition is_list_node (e : expr) : bool := match e with EList _ _ => true | _ => false end.

(* No alias stands for a parenthesised list: `(1, 2) as l` is a field the projection cannot
   return, and IN / BETWEEN treat a written list and an alias differently. *)
Fixpoint no_list_alias (e : expr) : bool :=
  match e with
  | EBin _ _ l r => no_list_alias l && no_list_alias r
  | ENot _ r => no_list_alias r
  | ECall _ n args => no_list_alias n && forallb no_list_alias args
  | ERef _ _ d => negb (is_list_node (strip d)) && no_list_alias d
  | EList _ l => forallb no_list_alias l
  | EAccess _ l f => no_list_alias l && no_list_alias f
  | EField _ _ | EStr _ _ | EName _ _ | ENum _ _ | EFloat _ _ | EBool _ _ => true
  end.

Section Cache.
Variable fo : fops.
Variable re_match : bytes -> bytes -> res bool.

Notation value := (value fo).

(* ------------------------------------------------------------------ ExecuteCtx.FieldCaches *)

(* map[string]any as an association list; SetFieldResult puts the binding in front *)
Definition cache := list (string * value).

Fixpoint cache_get (c : cache) (a : string) : option value :=
  match c with
  | [] => None
  | (n, x) :: c' => if String.eqb n a then Some x else cache_get c' a
  end.

Definition cache_set (c : cache) (a : string) (x : value) : cache := (a, x) :: c.

(* ------------------------------------------------------------------ evaluation with the cache as state *)

Definition M (A : Type) := cache -> res (A * cache).

Definition ret {A} (a : A) : M A := fun c => Ok (a, c).
Definition lift {A} (r : res A) : M A :=
  fun c => match r with Ok a => Ok (a, c) | Err e => Err e | Panic => Panic | OutOfModel => OutOfModel end.
Definition fail {A} (e : err) : M A := fun _ => Err e.
Definition bindc {A B} (m : M A) (f : A -> M B) : M B :=
  fun c => match m c with
           | Ok (a, c') => f a c'
           | Err e => Err e
           | Panic => Panic
           | OutOfModel => OutOfModel
           end.
Notation "'dc' x <- m ; k" := (bindc m (fun x => k)) (at level 200, x name, m at level 100, k at level 200).

(* the argument list of a call: every argument left to right, the cache threaded through the
   successful ones (a function body stops at its first failing argument; what comes after
   it in the list is never looked at by [apply_func]) *)
Definition args_step (ev : expr -> M value) (a : expr)
    (rest : cache -> list (res value) * cache) (c : cache) : list (res value) * cache :=
  match ev a c with
  | Ok (x, c1) => let '(rs, c2) := rest c1 in (Ok x :: rs, c2)
  | Err e => let '(rs, c2) := rest c in (Err e :: rs, c2)
  | Panic => let '(rs, c2) := rest c in (Panic :: rs, c2)
  | OutOfModel => let '(rs, c2) := rest c in (OutOfModel :: rs, c2)
  end.

Section Lists.
Variable ev : expr -> M value.             (* the evaluator for the elements *)

Fixpoint args_c (l : list expr) : cache -> list (res value) * cache :=
  match l with
  | [] => fun c0 => ([], c0)
  | a :: l' => args_step ev a (args_c l')
  end.

(* IN over a written list: elements are evaluated one by one; the first match ends the loop *)
Fixpoint in_c (lv : value) (number : bool) (its : list expr) : M bool :=
  match its with
  | [] => ret false
  | it :: its' =>
      if negb (ty_eqb (rtype it) (if number then TNumber else TStr))
      then fail (EExec (epos it))
      else
        dc iv <- ev it;
        dc c <- lift (if number then number_compare fo lv iv CEq else string_compare fo lv iv CEq);
        if c then ret true else in_c lv number its'
  end.
End Lists.

(* Expression.Execute(kv, ctx) with ctx.EnableCache = on *)
Fixpoint eval_c (on : bool) (k v : bytes) (e : expr) {struct e} : M value :=
  match e with
  | EStr _ s => ret (VBytes s)
  | EField _ KeyKW => ret (VBytes k)
  | EField _ ValueKW => ret (VBytes v)
  | EName _ s => ret (VStr s)
  | ENum _ d => ret (VInt (num_value d))
  | EFloat _ d => lift (do f <- float_value fo d; Ok (VFlt f))
  | EBool _ b => ret (VBool b)
  | EList _ l => ret (VExprs (List.length l))
  | ERef _ a d =>
      (* FieldReferenceExpr.Execute *)
      if on then
        fun c =>
          match cache_get c a with
          | Some x => Ok (x, c)                                   (* GetFieldResult: hit *)
          | None => (dc x <- eval_c on k v d; fun c' => Ok (x, cache_set c' a x)) c
          end
      else eval_c on k v d
  | ENot _ r =>
      dc rv <- eval_c on k v r;
      match rv with VBool b => ret (VBool (negb b)) | _ => fail (EExec (epos r)) end
  | ECall p n args =>
      match n with
      | EName _ _ =>
          match call_name n with
          | None => lift OutOfModel
          | Some nm =>
              match func_info nm with
              | None => fail (ESyntax p)
              | Some (nargs, varargs, _) =>
                  let cnt := List.length args in
                  if (negb varargs && negb (Nat.eqb cnt nargs)) || (varargs && Nat.ltb cnt nargs)
                  then fail (EExec p)
                  else
                    fun c =>
                      let '(rs, c') := args_c (eval_c on k v) args c in
                      lift (apply_func fo nm args rs) c'
              end
          end
      | _ => fail (ESyntax p)
      end
  | EAccess p l fn =>
      dc lv <- eval_c on k v l;
      match fn with
      | EStr _ _ =>
          match lv with
          | VStr "" => ret (VStr "")
          | _ => fail (EExec (epos l))
          end
      | ENum _ d =>
          let idx := num_value d in
          match lv with
          | VStrs xs => ret (match nth_error xs (Z.to_nat idx) with Some x => VStr x | None => VStr "" end)
          | VInts xs => ret (match nth_error xs (Z.to_nat idx) with Some x => VInt x | None => VStr "" end)
          | VFlts xs => ret (match nth_error xs (Z.to_nat idx) with Some x => VFlt x | None => VStr "" end)
          | VStr "" => ret (VStr "")
          | _ => fail (EExec (epos l))
          end
      | _ => fail (ESyntax (epos fn))
      end
  | EBin p o l r =>
      let both (f : value -> value -> res value) : M value :=
        dc lv <- eval_c on k v l; dc rv <- eval_c on k v r; lift (f lv rv) in
      let compare (c : cmpop) : M value :=
        both (fun lv rv =>
          do b <- (match rtype l with
                   | TStr => string_compare fo lv rv c
                   | _ => number_compare fo lv rv c
                   end); Ok (VBool b)) in
      match o with
      | OEq => both (fun lv rv => do b <- equal_values fo lv rv p; Ok (VBool b))
      | ONotEq => both (fun lv rv => do b <- equal_values fo lv rv p; Ok (VBool (negb b)))
      | OPrefixMatch =>
          both (fun lv rv =>
            match conv_bytes fo lv, conv_bytes fo rv with
            | Some a, Some b => Ok (VBool (has_prefix b a))
            | _, _ => Err (EExec p)
            end)
      | ORegExpMatch =>
          both (fun lv rv =>
            match conv_bytes fo lv, conv_bytes fo rv with
            | Some a, Some b => do m <- re_match b a; Ok (VBool m)
            | _, _ => Err (EExec p)
            end)
      | OAnd | OKWAnd =>
          dc lv <- eval_c on k v l;
          match lv with
          | VBool false => ret (VBool false)
          | VBool true =>
              dc rv <- eval_c on k v r;
              match rv with VBool b => ret (VBool b) | _ => fail (EExec (epos l)) end
          | _ => fail (EExec (epos l))
          end
      | OOr | OKWOr =>
          dc lv <- eval_c on k v l;
          match lv with
          | VBool true => ret (VBool true)
          | VBool false =>
              dc rv <- eval_c on k v r;
              match rv with VBool b => ret (VBool b) | _ => fail (EExec (epos l)) end
          | _ => fail (EExec (epos l))
          end
      | OAdd =>
          match rtype l with
          | TStr => both (fun lv rv => Ok (VStr (to_string fo lv ++ to_string fo rv)))
          | _ => both (fun lv rv => math_op fo lv rv OAdd (epos r))
          end
      | OSub => both (fun lv rv => math_op fo lv rv OSub (epos r))
      | OMul => both (fun lv rv => math_op fo lv rv OMul (epos r))
      | ODiv => both (fun lv rv => math_op fo lv rv ODiv (epos r))
      | OGt => compare CGt
      | OGte => compare CGte
      | OLt => compare CLt
      | OLte => compare CLte
      | OIn =>
          let number := match rtype l with TStr => false | _ => true end in
          dc lv <- eval_c on k v l;
          match r with
          | EList _ items =>
              dc b <- in_c (eval_c on k v) lv number items;
              ret (VBool b)
          | ECall _ _ _ | ERef _ _ _ =>
              if negb (ty_eqb (rtype r) TList) then fail (EExec (epos r))
              else
                dc fv <- eval_c on k v r;
                match unpack_list fo fv with
                | Some vals => ret (VBool (in_values fo lv number vals))
                | None => fail (EExec (epos r))
                end
          | _ => fail (EExec (if number then epos r else p))
          end
      | OBetween =>
          let number := match rtype l with TStr => false | _ => true end in
          let want := if number then TNumber else TStr in
          let cmp a b c := if number then number_compare fo a b c else string_compare fo a b c in
          dc lv <- eval_c on k v l;
          match r with
          | EList _ [lo; hi] =>
              if negb (ty_eqb (rtype lo) want) then fail (EExec (epos lo))
              else if negb (ty_eqb (rtype hi) want) then fail (EExec (epos hi))
              else
                dc lov <- eval_c on k v lo; dc hiv <- eval_c on k v hi;
                lift (do c <- cmp lov hiv CLt;
                      if negb c then Err (EExec p)
                      else
                        do lc <- cmp lov lv CLte;
                        if negb lc then Ok (VBool false)
                        else (do uc <- cmp lv hiv CLte; Ok (VBool uc)))
          | _ => fail (EExec (epos r))
          end
      | ONot => fail (EExec p)
      end
  end.

(* ------------------------------------------------------------------ row-at-a-time plans *)

(* code variants: the tree as fixed ([fixed_code]) and the pinned behaviours kept for the
   regression witnesses *)
Record variant := Variant {
  d6 : bool;        (* FilterExec.Filter clears the context at entry *)
  dupfix : bool     (* a later field with an already used name is not served from the cache *)
}.
Definition fixed_code := Variant true true.

(* FilterExec.Filter: the WHERE clause on one pair *)
Definition filter_row_c (vr : variant) (on : bool) (k v : bytes) (wh : expr) : M bool :=
  fun c =>
    let c0 := if d6 vr then [] else c in               (* ctx.Clear() *)
    (dc r <- eval_c on k v wh;
     match r with VBool b => ret b | _ => fail (EExec (epos wh)) end) c0.

(* the Next loop of a scan plan over the pairs [ps] its access path still has to yield:
   the first accepted pair (None at the end), the pairs left, the context afterwards *)
Fixpoint scan_next (vr : variant) (on : bool) (wh : expr) (ps : list (bytes * bytes))
  : M (option (bytes * bytes) * list (bytes * bytes)) :=
  match ps with
  | [] => ret (None, [])
  | (k, v) :: ps' =>
      dc ok <- filter_row_c vr on k v wh;
      if ok then ret (Some (k, v), ps') else scan_next vr on wh ps'
  end.

(* the select list of a ProjectionPlan: FieldNames and Fields *)
Record stmt := Stmt { s_names : list string; s_fields : list expr; s_where : expr }.

Definition env_of (s : stmt) : list (string * expr) := combine (s_names s) (s_fields s).

(* what the parser and checker guarantee of an accepted statement: one name per field, and
   every alias use (in WHERE and inside the fields) carries the definition of its name *)
Definition stmt_ok (s : stmt) : bool :=
  Nat.eqb (List.length (s_names s)) (List.length (s_fields s)) &&
  coherent (env_of s) (s_where s) && forallb (coherent (env_of s)) (s_fields s).

(* ProjectionPlan.ownsName *)
Definition owns_name (seen : list string) (a : string) : bool := negb (existsb (String.eqb a) seen).

(* the result types processProjection accepts: everything the evaluator produces except a
   bare []Expression *)
Definition column_ok (x : value) : bool := match x with VExprs _ => false | _ => true end.

(* processProjection: the fields left to right; [seen] = names of the fields already done *)
Fixpoint project_fields (vr : variant) (on : bool) (k v : bytes) (seen : list string)
    (nfs : list (string * expr)) : M (list value) :=
  match nfs with
  | [] => ret []
  | (a, f) :: nfs' =>
      dc x <- (fun c =>
                 match (if on && (negb (dupfix vr) || owns_name seen a) then cache_get c a else None) with
                 | Some x => Ok (x, c)                    (* GetFieldResult: hit *)
                 | None => eval_c on k v f c
                 end);
      if column_ok x then
        dc xs <- project_fields vr on k v (seen ++ [a])%list nfs';
        ret (x :: xs)
      else fail (EExec (epos f))
  end.

Definition project_row (vr : variant) (on : bool) (s : stmt) (k v : bytes) : M (list value) :=
  project_fields vr on k v [] (env_of s).

(* ProjectionPlan.Next: ctx.Clear(); child Next; projection *)
Definition proj_next (vr : variant) (on : bool) (s : stmt) (ps : list (bytes * bytes))
  : res (option (list value) * list (bytes * bytes) * cache) :=
  match scan_next vr on (s_where s) ps [] with
  | Ok ((None, rest), c) => Ok (None, rest, c)
  | Ok ((Some (k, v), rest), c) =>
      match project_row vr on s k v c with
      | Ok (row, c') => Ok (Some row, rest, c')
      | Err e => Err e
      | Panic => Panic
      | OutOfModel => OutOfModel
      end
  | Err e => Err e
  | Panic => Panic
  | OutOfModel => OutOfModel
  end.

(* Next until it returns nil; every call consumes at least one pair or ends, so
   |ps| + 1 calls suffice *)
Fixpoint drain_row_fuel (fuel : nat) (vr : variant) (on : bool) (s : stmt) (ps : list (bytes * bytes))
  : res (list (list value)) :=
  match fuel with
  | O => OutOfModel
  | S f =>
      match proj_next vr on s ps with
      | Ok (None, _, _) => Ok []
      | Ok (Some row, rest, _) => do rows <- drain_row_fuel f vr on s rest; Ok (row :: rows)
      | Err e => Err e
      | Panic => Panic
      | OutOfModel => OutOfModel
      end
  end.

Definition drain_row (vr : variant) (on : bool) (s : stmt) (ps : list (bytes * bytes)) :=
  drain_row_fuel (S (List.length ps)) vr on s ps.

(* ------------------------------------------------------------------ what the rows must be (no plan, no cache) *)

(* the scan without plan or cache: the first accepted pair and the pairs after it *)
Fixpoint scan_spec (wh : expr) (ps : list (bytes * bytes))
  : res (option (bytes * bytes) * list (bytes * bytes)) :=
  match ps with
  | [] => Ok (None, [])
  | (k, v) :: ps' =>
      do ok <- filter_row fo re_match k v wh;
      if ok then Ok (Some (k, v), ps') else scan_spec wh ps'
  end.

Fixpoint eval_fields (k v : bytes) (fs : list expr) : res (list value) :=
  match fs with
  | [] => Ok []
  | f :: fs' =>
      do x <- eval fo re_match k v f;
      if column_ok x then (do xs <- eval_fields k v fs'; Ok (x :: xs)) else Err (EExec (epos f))
  end.

Fixpoint spec_rows (wh : expr) (fs : list expr) (ps : list (bytes * bytes)) : res (list (list value)) :=
  match ps with
  | [] => Ok []
  | (k, v) :: ps' =>
      do ok <- filter_row fo re_match k v wh;
      if ok then
        do row <- eval_fields k v fs;
        do rows <- spec_rows wh fs ps';
        Ok (row :: rows)
      else spec_rows wh fs ps'
  end.

End Cache.

(* ------------------------------------------------------------------ batch mode: chunk-cache bookkeeping *)

Section Chunk.
(* rows of a chunk and cached values are abstract: the bookkeeping never looks inside them *)
Variables (P X : Type).
Variable pass : P -> bool.                   (* FilterBatch's verdict on a row *)
Variable val : string -> P -> X.             (* the value of alias a on a row *)

(* ExecuteCtx.FieldChunkCaches: per alias the column accumulated in this Batch call *)
Definition ccache := list (string * list X).

Fixpoint cc_get (cc : ccache) (a : string) : option (list X) :=
  match cc with
  | [] => None
  | (n, col) :: cc' => if String.eqb n a then Some col else cc_get cc' a
  end.

(* AppendChunkFieldResult for every alias the filter evaluates on the chunk [ch]
   ([refd]: the aliases the WHERE clause refers to; batch evaluation has no short cut, so all
   of them are evaluated on every chunk) *)
Definition cc_append (refd : list string) (cc : ccache) (ch : list P) : ccache :=
  map (fun a => (a, match cc_get cc a with
                    | Some col => (col ++ map (val a) ch)%list
                    | None => map (val a) ch
                    end)) refd.

(* AdjustChunkCache: keep the items whose index was chosen *)
Fixpoint keep_from (i : nat) (idxs : list nat) (col : list X) : list X :=
  match col with
  | [] => []
  | x :: col' => if existsb (Nat.eqb i) idxs then x :: keep_from (S i) idxs col'
                 else keep_from (S i) idxs col'
  end.
Definition adjust (idxs : list nat) (cc : ccache) : ccache :=
  map (fun nc => (fst nc, keep_from 0 idxs (snd nc))) cc.

(* the matchs loop of a scan's Batch: ret, chooseIdxes, bidx, count *)
Fixpoint take_matches (advance : bool) (ch : list P) (rt : list P) (idxs : list nat) (bidx count : nat)
  : list P * list nat * nat * nat :=
  match ch with
  | [] => (rt, idxs, bidx, count)
  | r :: ch' =>
      let nb := if advance then S bidx else bidx in
      if pass r then take_matches advance ch' (rt ++ [r])%list (idxs ++ [bidx])%list nb (S count)
      else take_matches advance ch' rt idxs nb count
  end.

(* FullScanPlan/PrefixScanPlan/RangeScanPlan/MultiGetPlan .Batch over the refills [chunks] the
   cursor delivers (each at most PlanBatchSize rows; an empty refill = end of the scan):
   returns the rows, and the context's chunk cache after AdjustChunkCache *)
Fixpoint scan_batch_loop (advance : bool) (B : nat) (refd : list string) (chunks : list (list P))
    (rt : list P) (idxs : list nat) (bidx count : nat) (cc : ccache) : list P * ccache :=
  match chunks with
  | [] => (rt, adjust idxs cc)
  | ch :: chunks' =>
      match ch with
      | [] => (rt, adjust idxs cc)                                     (* key == nil: finish *)
      | _ =>
          let cc' := cc_append refd cc ch in
          let '(rt', idxs', bidx', count') := take_matches advance ch rt idxs bidx count in
          if Nat.leb B count' then (rt', adjust idxs' cc')                 (* count >= PlanBatchSize *)
          else scan_batch_loop advance B refd chunks' rt' idxs' bidx' count' cc'
      end
  end.

Definition scan_batch (advance : bool) (B : nat) (refd : list string) (chunks : list (list P)) :=
  scan_batch_loop advance B refd chunks [] [] 0 0 [].

(* processProjectionBatch: a field column is the cached final column of its name when there is
   one (and the field owns the name), else the field evaluated on the returned rows;
   row i takes item i of every column *)
Definition field_column (on : bool) (cc : ccache) (seen : list string) (a : string)
    (fval : P -> X) (rows : list P) : list X :=
  match (if on && owns_name seen a then cc_get cc a else None) with
  | Some col => col
  | None => map fval rows
  end.

Fixpoint project_columns (on : bool) (cc : ccache) (seen : list string)
    (nfs : list (string * (P -> X))) (rows : list P) : list (list X) :=
  match nfs with
  | [] => []
  | (a, fval) :: nfs' =>
      field_column on cc seen a fval rows :: project_columns on cc (seen ++ [a])%list nfs' rows
  end.

(* ret[i][j] = cols[j][i]; an index past the end of a column is Go's index-out-of-range panic *)
Definition row_at (cols : list (list X)) (i : nat) : option (list X) :=
  fold_right (fun col acc => match nth_error col i, acc with
                             | Some x, Some r => Some (x :: r)
                             | _, _ => None
                             end) (Some []) cols.

Definition project_batch (on : bool) (cc : ccache) (nfs : list (string * (P -> X))) (rows : list P)
  : option (list (list X)) :=
  let cols := project_columns on cc [] nfs rows in
  (fix go (i n : nat) : option (list (list X)) :=
     match n with
     | O => Some []
     | S n' => match row_at cols i, go (S i) n' with
               | Some r, Some rs => Some (r :: rs)
               | _, _ => None
               end
     end) 0 (List.length rows).

End Chunk.
