(* Model/CachePlans.v -- whole SELECT statements WITH the field cache switch (C05 at statement
   level): how Optimizer.buildFinalPlan stacks FinalOrderPlan / FinalLimitPlan / AggregatePlan
   (Model/SelectPlans.v: [shape], [build_final_plan]) on the plans that carry an ExecuteCtx,

       row mode    Model/Cache.v     ProjectionPlan.Next  = [Cache.proj_next]  (scan Next loop,
                                     FilterExec.Filter, processProjection, per-row FieldCaches)
       batch mode  Model/CacheVec.v  ProjectionPlan.Batch = [CacheVec.proj_batch_c] (scan Batch
                                     loop, FilterBatch, chooseIdxes / AdjustChunkCache,
                                     processProjectionBatch, the two chunk maps)

   and the twin of what AggregatePlan does with the context (aggregate_plan.go):

     prepare (row mode)       `a.ChildPlan.Next(nil)`: the scan and its filter run WITHOUT a context
                              (FilterExec.Filter / FieldReferenceExpr.Execute with ctx == nil evaluate
                              the definitions); then per accepted pair
                                ctx.Clear()
                                getAggrKey          GROUP BY expressions, Execute(kvp, ctx), in order
                                createAggrRow       only when the group key is new: the non-aggregate
                                                    fields, Execute(kvp, ctx), in field order
                                updateRowAggrFunc   args[0].Execute(kvp, ctx) of every aggregate call,
                                                    in field / call order; count() never evaluates
                                                    its argument
     prepareBatch             `a.ChildPlan.Batch(ctx)`: the scan's Batch WITH the context (filter on
                              the chunk caches, AdjustChunkCache at its end); then
                                batchGetAggrKeys    GROUP BY expressions, ExecuteBatch(kvps, ctx) on
                                                    the RETURNED pairs, on the context the scan left
                                                    (no Clear in between; nothing when AggrAll)
                                per returned pair   ctx.Clear(); createAggrRow (new key only);
                                                    updateRowAggrFunc -- row evaluator, per-row cache
                              Every Batch call of the scan therefore starts from empty chunk maps
                              (a non-empty batch clears the context at least once; the row cache that
                              survives is never read by ExecuteBatch).
     next / batch             Complete + execGroupExpr of an aggregate field: ctx.Clear(), then
                              Expr.Execute(col.First, ctx) on the pair that opened the group.
                              Model/Aggregate.v's [aexpr] (numbers, aggregate calls, + - * /) has no
                              name and no pair-dependent term, so neither the pair nor the context is
                              consulted.  A select field that mixes an aggregate call with a field
                              name (`sum(n) + n`) has no [aexpr] and is OUTSIDE this twin (before the
                              fix "a field name next to an aggregate call was evaluated on no pair at
                              all" the cache was visible there; the harness judges such statements
                              directly).

   FinalOrderPlan and FinalLimitPlan hand the context to their child and never look at it
   (order_plan.go, limit_plan.go): their twins are Model/Order.v / Model/LimitLazy.v unchanged, the
   limit node PULLS its child (the number of pulls is part of the composition).

   [on] is ExecuteCtx.EnableCache.  The aggregate layer sits on the LAZY twin
   Model/AggregateLazy.v ([lobs_row] / [lobs_batch], instantiated in Model/SelectPlans.v as
   [c_lobs_row] / [c_lobs_batch]): the cached observation asks for exactly the (expression, pair)
   combinations the lazy observation asks for, in the same order -- nothing for GROUP BY when
   AggrAll, the non-aggregate fields on the first pair of a group only, nothing for count's
   argument (nil in its place) -- and the rows are completed by [lrun_row] / [lrun_batch]
   (lazily under a pushed-down LIMIT).

   No proofs in this file (Proofs/CachePlansProofs.v). *)
From Coq Require Import List String ZArith Bool Arith.
Import ListNotations.
From KV Require Import Base.Bytes Base.Num Model.Ast Model.Value Model.Eval Model.EvalVec Model.Cache
                       Model.ScanProj Model.CacheVec Model.LimitLazy Model.AggregateLazy Model.SelectPlans.
From KV Require Model.Limit Model.Order Model.Aggregate Spec.Group.
Local Open Scope nat_scope.
Local Open Scope list_scope.

(* ================================================================ buildFinalPlan over pulled children *)
(* Model/SelectPlans.run_shape_row / run_shape_batch with the children as step functions on the
   state [C] of the scan (what it still has to read) instead of (filter, projection) pairs: a
   plan with a context is not a function of the chunk alone. *)
Section Shapes.
Variable FT : Type.                                          (* float64 of the aggregate code *)
Variable C : Type.
Variable cdone : C.                                          (* the scan after it was drained *)
Variable pi pf : bytes -> option Z.                          (* strconv, for compareNumber on text *)
(* ---- row mode *)
Variable pnext : C -> res (option Order.row * C).            (* ProjectionPlan.Next *)
Variable prows : C -> res (list Order.row).                  (* ... called until nil *)
Variable arows : Group.plan FT -> C -> res (list Order.row). (* AggregatePlan(scan), Next until nil *)
(* ---- batch mode *)
Variable pbatch : C -> res (list Order.row * C).             (* ProjectionPlan.Batch *)
Variable pbats : C -> res (list (list Order.row)).           (* ... called until the empty batch *)
Variable abats : Group.plan FT -> C -> res (list (list Order.row)).
Variable lfuel : C -> nat.                                   (* bound on the Batch calls of a limit node *)

Definition shape_row (s : SelectPlans.stmt FT) (sh : shape) (c : C) : res (list Order.row) :=
  match sh with
  | SProj => prows c
  | SLimit st n SProj => ldrain_row pnext st n c
  | SOrder os SProj => with_ords FT s os (fun ords => ord_row C prows pi pf ords c)
  | SLimit st n (SOrder os SProj) =>
      with_ords FT s os (fun ords => ord_limit_row C prows cdone pi pf ords st n c)
  | SAgg st l => arows (stmt_plan FT s st l) c
  | SOrder os (SAgg 0 None) =>
      with_ords FT s os (fun ords => ord_row C (arows (stmt_plan FT s 0 None)) pi pf ords c)
  | SLimit st n (SOrder os (SAgg 0 None)) =>
      with_ords FT s os (fun ords =>
        ord_limit_row C (arows (stmt_plan FT s 0 None)) cdone pi pf ords st n c)
  | _ => OutOfModel                                 (* not built by buildFinalPlan *)
  end.

Definition shape_batch (B : nat) (s : SelectPlans.stmt FT) (sh : shape) (c : C) : res (list Order.row) :=
  match sh with
  | SProj => do outs <- pbats c; Ok (List.concat outs)
  | SLimit st n SProj =>
      do outs <- ldrain_batch_fuel pbatch (lfuel c) B st n Limit.linit c; Ok (List.concat outs)
  | SOrder os SProj =>
      with_ords FT s os (fun ords => do outs <- ord_batch C pbats pi pf ords B c; Ok (List.concat outs))
  | SLimit st n (SOrder os SProj) =>
      with_ords FT s os (fun ords =>
        do outs <- ord_limit_batch C pbats cdone pi pf ords (lfuel c) B st n c; Ok (List.concat outs))
  | SAgg st l => do outs <- abats (stmt_plan FT s st l) c; Ok (List.concat outs)
  | SOrder os (SAgg 0 None) =>
      with_ords FT s os (fun ords =>
        do outs <- ord_batch C (abats (stmt_plan FT s 0 None)) pi pf ords B c; Ok (List.concat outs))
  | SLimit st n (SOrder os (SAgg 0 None)) =>
      with_ords FT s os (fun ords =>
        do outs <- ord_limit_batch C (abats (stmt_plan FT s 0 None)) cdone pi pf ords (lfuel c) B st n c;
        Ok (List.concat outs))
  | _ => OutOfModel
  end.

End Shapes.

(* a plan without an AggregatePlan: ProjectionPlan [+ FinalOrderPlan] [+ FinalLimitPlan] *)
Fixpoint agg_free (sh : shape) : bool :=
  match sh with
  | SProj => true
  | SAgg _ _ => false
  | SOrder _ ch => agg_free ch
  | SLimit _ _ ch => agg_free ch
  end.

(* ================================================================ the instances with the cached evaluators *)
Section CachePlans.
Variable fo : fops.
Variable re_match : bytes -> bytes -> res bool.
Variable keyfix : bool.                  (* how FieldChunkKeyCaches is keyed (Model/CacheVec.v) *)
Variable ag : aggops fo.
Variable pi pf : bytes -> option Z.

Notation value := (value fo).
Notation gvalue := (Group.value (F fo)).
Notation pobs := (Group.pobs (F fo)).
Notation plan := (Group.plan (F fo)).
Notation "'dc' x <- m ; k" := (bindc fo m (fun x => k)) (at level 200, x name, m at level 100, k at level 200).
Notation "'dv' x <- m ; k" := (bindv fo m (fun x => k)) (at level 200, x name, m at level 100, k at level 200).

(* a checked SELECT statement with named fields: the select list and the scan's WHERE clause
   ([cq_sel]: FieldNames, Fields, filter), what the AggregatePlan evaluates ([cq_group]: GROUP BY
   expressions, [cq_keys]: non-aggregate fields, [cq_args]: first arguments of the aggregate
   calls, as in Model/SelectPlans.cstmt), and what buildFinalPlan looks at *)
Record cq := CQ {
  cq_sel : Cache.stmt;
  cq_group : list expr;
  cq_keys : list expr;
  cq_args : list expr;
  cq_types : list Order.type;                                  (* FieldTypes *)
  cq_aggr : option (bool * list (Group.field (F fo)));         (* None: no aggregate; Some (AggrAll, Fields) *)
  cq_order : option (list Order.order_field);
  cq_limit : option (nat * nat)
}.

Definition cq_stmt (q : cq) : SelectPlans.stmt (F fo) :=
  SelectPlans.Stmt (F fo) (cq_aggr q) (Cache.s_names (cq_sel q)) (cq_types q) (cq_order q) (cq_limit q).

Definition cq_shape (q : cq) : shape := stmt_shape (F fo) (cq_stmt q).

(* what the parser and checker guarantee of an accepted statement (Cache.stmt_ok for the select
   list and the WHERE clause), and the same for the expressions the AggregatePlan evaluates: every
   use of a field name carries the definition the select list gives that name *)
Definition cq_ok (q : cq) : bool :=
  stmt_ok (cq_sel q) &&
  forallb (coherent (env_of (cq_sel q))) (cq_group q) &&
  forallb (coherent (env_of (cq_sel q))) (cq_keys q) &&
  forallb (coherent (env_of (cq_sel q))) (cq_args q).

Definition rconv (r : list value) : Order.row := conv_row fo (a_fbits fo ag) r.

(* ---------------------------------------------------------------- ProjectionPlan, rows rendered *)

(* row mode: the state is the list of pairs the access path still yields *)
Definition pnext_c (on : bool) (s : Cache.stmt) (ps : list kvpair) : res (option Order.row * list kvpair) :=
  match Cache.proj_next fo re_match fixed_code on s ps with
  | Ok (None, rest, _) => Ok (None, rest)
  | Ok (Some row, rest, _) => Ok (Some (rconv row), rest)
  | Err e => Err e
  | Panic => Panic
  | OutOfModel => OutOfModel
  end.
Definition prows_c (on : bool) (s : Cache.stmt) (ps : list kvpair) : res (list Order.row) :=
  do rows <- Cache.drain_row fo re_match fixed_code on s ps; Ok (map rconv rows).

(* batch mode: the state is the list of slots the scan still reads *)
Definition pbatch_c (on : bool) (s : Cache.stmt) (B : nat) (sl : list (option kvpair))
  : res (list Order.row * list (option kvpair)) :=
  do r <- proj_batch_c fo re_match keyfix on s B sl; Ok (map rconv (fst r), snd r).
Definition pbats_c (on : bool) (s : Cache.stmt) (B : nat) (sl : list (option kvpair))
  : res (list (list Order.row)) :=
  do bs <- drain_batch_c fo re_match keyfix on s B sl; Ok (map (map rconv) bs).

(* ---------------------------------------------------------------- AggregatePlan: one pair with the per-row cache *)

(* a computation on a cleared context; the context afterwards is dropped *)
Definition run0 {A} (m : M fo A) : res A :=
  match m [] with
  | Ok (a, _) => Ok a
  | Err e => Err e
  | Panic => Panic
  | OutOfModel => OutOfModel
  end.

(* Expression.Execute(kvp, ctx) on each of [es], left to right ([SelectPlans.evals_row] with the
   context threaded): getAggrKey's loop, createAggrRow's loop *)
Fixpoint evals_c (on : bool) (es : list expr) (kv : kvpair) : M fo (list gvalue) :=
  match es with
  | [] => ret fo []
  | e :: es' =>
      dc v <- eval_c fo re_match on (fst kv) (snd kv) e;
      dc g <- lift fo (gval fo v);
      dc gs <- evals_c on es' kv;
      ret fo (g :: gs)
  end.

(* updateRowAggrFunc ([SelectPlans.evals_need] with the context threaded): Execute of Args[0] for
   the calls [need] selects; nothing is evaluated for the others (count), nil in their place *)
Fixpoint evals_need_c (on : bool) (need : nat -> bool) (i : nat) (es : list expr) (kv : kvpair)
  : M fo (list gvalue) :=
  match es with
  | [] => ret fo []
  | e :: es' =>
      if need i then
        dc v <- eval_c fo re_match on (fst kv) (snd kv) e;
        dc g <- lift fo (gval fo v);
        dc gs <- evals_need_c on need (S i) es' kv;
        ret fo (g :: gs)
      else
        dc gs <- evals_need_c on need (S i) es' kv;
        ret fo (Group.VNil :: gs)
  end.

(* [AggregateLazy.lobs_tail] with the context: `row, have := a.aggrMap[aggrKey]; if !have
   { createAggrRow }; updateRowAggrFunc`, the context as left by what ran before on this pair.
   [t]: the keys of aggrMap. *)
Definition obs_tail_c (on : bool) (q : cq) (p : plan) (t : seen) (kv : kvpair) (g : list gvalue)
  : M fo (pobs * seen) :=
  let key := lkey (f_fmt fo) (a_bits fo ag) p g in
  if seen_mem key t then
    dc a <- evals_need_c on (arg_needed p) 0 (cq_args q) kv;
    ret fo (Group.PObs g [] a, t)
  else
    dc k <- evals_c on (cq_keys q) kv;
    dc a <- evals_need_c on (arg_needed p) 0 (cq_args q) kv;
    ret fo (Group.PObs g k a, t ++ [key]).

(* one iteration of prepare ([AggregateLazy.lobs_row]): ctx.Clear(), getAggrKey (nothing when
   AggrAll), then the tail *)
Definition obs_row_c (on : bool) (q : cq) (p : plan) (t : seen) (kv : kvpair) : res (pobs * seen) :=
  run0 (dc g <- (if Group.pl_all p then ret fo [] else evals_c on (cq_group q) kv);
        obs_tail_c on q p t kv g).

(* prepare ([AggregateLazy.sdrain_row] over the pairs): child.Next(nil) -- the filter without a
   context -- and the loop body per accepted pair *)
Fixpoint agg_obs_row_c (on : bool) (q : cq) (p : plan) (t : seen) (ps : list kvpair)
  : res (list pobs) :=
  match ps with
  | [] => Ok []
  | kv :: ps' =>
      do ok <- filter_row fo re_match (fst kv) (snd kv) (s_where (cq_sel q));
      if ok then
        do ot <- obs_row_c on q p t kv;
        do rest <- agg_obs_row_c on q p (snd ot) ps';
        Ok (fst ot :: rest)
      else agg_obs_row_c on q p t ps'
  end.

(* next / batch on the prepared rows: Model/AggregateLazy.v (lazily under a pushed-down LIMIT) *)
Definition run_agg_row (p : plan) (obs : list pobs) : res (list (list gvalue)) :=
  lrun_row (fadd fo) (fsub fo) (fmul fo) (fdiv fo) (fltb fo) (a_is0 fo ag) (f_of_Z fo) (a_to_Z fo ag)
           (f_fmt fo) (a_bits fo ag) (a_json_f fo ag) (a_parse fo ag) (a_json_s fo ag) p obs.
Definition run_agg_batch (B : nat) (p : plan) (chunks : list (list pobs)) : res (list (list gvalue)) :=
  lrun_batch (fadd fo) (fsub fo) (fmul fo) (fdiv fo) (fltb fo) (a_is0 fo ag) (f_of_Z fo) (a_to_Z fo ag)
             (f_fmt fo) (a_bits fo ag) (a_json_f fo ag) (a_parse fo ag) (a_json_s fo ag) p B chunks.

(* AggregatePlan(scan) drained by Next, rows rendered *)
Definition arows_c (on : bool) (q : cq) (p : plan) (ps : list kvpair) : res (list Order.row) :=
  do obs <- agg_obs_row_c on q p [] ps;
  do rows <- run_agg_row p obs;
  Ok (map (aconv_row fo (a_fbits fo ag)) rows).

(* ---------------------------------------------------------------- AggregatePlan: one batch of the scan *)

(* batchGetAggrKeys, first loop: ExecuteBatch of every GROUP BY expression on the returned pairs *)
Fixpoint cols_seq_c (on : bool) (es : list expr) (ch : list kvpair) : MV fo (list (list value)) :=
  match es with
  | [] => retv fo []
  | e :: es' =>
      dv col <- eval_batch_c fo re_match keyfix on e ch;
      dv cols <- cols_seq_c on es' ch;
      retv fo (col :: cols)
  end.

(* batchGetAggrKeys ([SelectPlans.c_batch_g] with the context): the columns, then aggrKeyBytes pair
   by pair, all before the first field / argument of the chunk's first pair; nothing when AggrAll *)
Definition batch_g_c (on : bool) (q : cq) (p : plan) (ch : list kvpair) : MV fo (list (list gvalue)) :=
  if Group.pl_all p then retv fo (map (fun _ => []) ch)
  else
    dv cols <- cols_seq_c on (cq_group q) ch;
    liftv fo (do grows <- transpose fo ch cols; gvals_all fo grows).

(* the loop over the returned pairs ([AggregateLazy.lobs_zip]): per pair ctx.Clear(), then the tail *)
Fixpoint obs_zip_c (on : bool) (q : cq) (p : plan) (t : seen) (ch : list kvpair)
    (gss : list (list gvalue)) : res (list pobs * seen) :=
  match ch, gss with
  | [], _ => Ok ([], t)
  | kv :: ch', g :: gss' =>
      do ot <- run0 (obs_tail_c on q p t kv g);
      do rest <- obs_zip_c on q p (snd ot) ch' gss';
      Ok (fst ot :: fst rest, snd rest)
  | _ :: _, [] => Panic
  end.

(* one iteration of prepareBatch on the pairs the scan returned ([AggregateLazy.lobs_batch]), the
   chunk maps as the scan's Batch left them *)
Definition obs_batch_c (on : bool) (q : cq) (p : plan) (t : seen) (ch : list kvpair) (cx : ctx fo)
  : res (list pobs * seen) :=
  match batch_g_c on q p ch cx with
  | Ok (gss, _) => obs_zip_c on q p t ch gss
  | Err e => Err e
  | Panic => Panic
  | OutOfModel => OutOfModel
  end.

(* the scan's Batch from empty chunk maps, then the iteration.  None: the scan returned no rows. *)
Definition agg_batch_step_c (on : bool) (q : cq) (p : plan) (B : nat) (t : seen)
    (rest : list (option kvpair)) : res (option (list pobs * seen) * list (option kvpair)) :=
  match scan_batch_c fo re_match keyfix on (s_where (cq_sel q)) B rest (ctx0 fo) with
  | Ok (([], rest'), _) => Ok (None, rest')
  | Ok ((kvs, rest'), cx) => do ot <- obs_batch_c on q p t kvs cx; Ok (Some ot, rest')
  | Err e => Err e
  | Panic => Panic
  | OutOfModel => OutOfModel
  end.

(* prepareBatch ([AggregateLazy.sdrain_batch]): until the scan returns no rows *)
Fixpoint agg_obs_batch_fuel (on : bool) (q : cq) (p : plan) (fuel B : nat) (t : seen)
    (rest : list (option kvpair)) : res (list (list pobs)) :=
  match fuel with
  | 0 => OutOfModel
  | S f =>
      do r <- agg_batch_step_c on q p B t rest;
      match r with
      | (None, _) => Ok []
      | (Some ot, rest') => do outs <- agg_obs_batch_fuel on q p f B (snd ot) rest'; Ok (fst ot :: outs)
      end
  end.

Definition agg_obs_batch_c (on : bool) (q : cq) (p : plan) (B : nat) (sl : list (option kvpair))
  : res (list (list pobs)) :=
  agg_obs_batch_fuel on q p (S (List.length sl)) B [] sl.

(* AggregatePlan(scan) drained by Batch: batch() hands out the prepared rows PlanBatchSize at a time *)
Definition abats_c (on : bool) (q : cq) (B : nat) (p : plan) (sl : list (option kvpair))
  : res (list (list Order.row)) :=
  do chunks <- agg_obs_batch_c on q p B sl;
  do rows <- run_agg_batch B p chunks;
  Ok (Aggregate.chunks_of B (map (aconv_row fo (a_fbits fo ag)) rows)).

(* ---------------------------------------------------------------- whole statements *)

(* the statement drained by Next until nil, over the pairs its access path yields *)
Definition stmt_shape_row_c (on : bool) (q : cq) (sh : shape) (ps : list kvpair) : res (list Order.row) :=
  shape_row (F fo) (list kvpair) [] pi pf
            (pnext_c on (cq_sel q)) (prows_c on (cq_sel q)) (arows_c on q) (cq_stmt q) sh ps.

(* the statement drained by Batch until the empty batch, over the slots its scan reads
   ([Some] pair, or [None] for a listed key of a point read that does not exist) *)
Definition stmt_shape_batch_c (on : bool) (B : nat) (q : cq) (sh : shape) (sl : list (option kvpair))
  : res (list Order.row) :=
  shape_batch (F fo) (list (option kvpair)) [] pi pf
              (pbatch_c on (cq_sel q) B) (pbats_c on (cq_sel q) B) (abats_c on q B)
              (fun c => S (S (List.length c))) B (cq_stmt q) sh sl.

(* through buildFinalPlan *)
Definition stmt_row_c (on : bool) (q : cq) (ps : list kvpair) : res (list Order.row) :=
  stmt_shape_row_c on q (cq_shape q) ps.
Definition stmt_batch_c (on : bool) (B : nat) (q : cq) (sl : list (option kvpair)) : res (list Order.row) :=
  stmt_shape_batch_c on B q (cq_shape q) sl.

End CachePlans.
