(* Model/CacheVec.v -- executable twin of batch mode WITH the chunk caches (C05, batch part):

     plan.go                 ExecuteCtx.FieldChunkKeyCaches / FieldChunkCaches: GetChunkFieldResult,
                             SetChunkFieldResult, AppendChunkFieldResult, GetChunkFieldFinalResult,
                             AdjustChunkCache, Clear
     expression_exec_vec.go  ExecuteBatch of every node with the context threaded through, in the
                             order the Go code evaluates its operands; FieldReferenceExpr.ExecuteBatch
                             = lookup by (name, first key of the chunk) / evaluate the definition,
                             store, append
     scalar_func_vec.go      which vector bodies evaluate their argument columns with the context
                             (the bodies of join / list / int_list / float_list run the ROW body
                             without a context: fix for D7)
     expression_exec.go      FilterExec.FilterBatch
     scan_plan.go            FullScanPlan / PrefixScanPlan / RangeScanPlan / MultiGetPlan .Batch:
                             refills, chooseIdxes / bidx, AdjustChunkCache
     projection_plan.go      ProjectionPlan.Batch, processProjectionBatch (GetChunkFieldFinalResult
                             for a field that owns its name)

   Everything that is not the cache is taken from Model/EvalVec.v (the per-row loops, the vector
   function bodies, execEqualBatch, IN / BETWEEN) and Model/ScanProj.v (slots, refills,
   select_matches, transpose): only the threading of the context is written here.

   [on] is ExecuteCtx.EnableCache.  [keyfix] selects how FieldChunkKeyCaches is keyed:
     false  the code as it is: by the TEXT  name ++ "-" ++ key  (fmt.Sprintf("%s-%s", name, key)),
            which is the same text for (a, "b-c") and (a-b, "c");
     true   by the pair (name, key) (what a repaired GetChunkFieldResult / SetChunkFieldResult does).

   No proofs in this file. *)
From Coq Require Import List String Ascii ZArith Bool Arith.
Import ListNotations.
From KV Require Import Base.Bytes Base.Num Model.Ast Model.Value Model.Eval Model.EvalVec
                       Model.Cache Model.ScanProj.
Local Open Scope string_scope.
Local Open Scope list_scope.

(* the vector bodies that evaluate their argument columns chunk-wise, with the context; the
   others (join, list, int_list / ilist, float_list / flist) loop over the row body with a nil
   context and never call ExecuteBatch on an argument *)
Definition vec_args (name : string) : bool :=
  negb (String.eqb name "join" || String.eqb name "list" ||
        String.eqb name "int_list" || String.eqb name "ilist" ||
        String.eqb name "float_list" || String.eqb name "flist").

Section CacheVec.
Variable fo : fops.
Variable re_match : bytes -> bytes -> res bool.
Variable keyfix : bool.

Notation value := (value fo).

(* ------------------------------------------------------------------ ExecuteCtx, the two chunk maps *)

Definition ckey := (string * bytes)%type.      (* (alias name, first key of the chunk) *)

(* fmt.Sprintf("%s-%s", name, string(key)) *)
Definition ckey_text (x : ckey) : string := fst x ++ "-" ++ snd x.

(* when two (name, key) pairs address the same map entry *)
Definition keq (x y : ckey) : bool :=
  if keyfix then String.eqb (fst x) (fst y) && String.eqb (snd x) (snd y)
  else String.eqb (ckey_text x) (ckey_text y).

Record ctx := Ctx {
  kc : list (ckey * list value);          (* FieldChunkKeyCaches *)
  cc : ccache value                       (* FieldChunkCaches: per name the accumulated column *)
}.

Definition ctx0 : ctx := Ctx [] [].        (* NewExecuteCtx / after Clear *)

Fixpoint kc_get (m : list (ckey * list value)) (x : ckey) : option (list value) :=
  match m with
  | [] => None
  | (y, col) :: m' => if keq y x then Some col else kc_get m' x
  end.

(* AppendChunkFieldResult: the binding in front shadows the older one *)
Definition cc_put (c : ccache value) (a : string) (col : list value) : ccache value :=
  (a, match cc_get value c a with Some old => old ++ col | None => col end) :: c.

(* SetChunkFieldResult *)
Definition set_chunk (s : ctx) (a : string) (k : bytes) (col : list value) : ctx :=
  match kc_get (kc s) (a, k) with
  | Some _ => s                                          (* `if have { return }` *)
  | None => Ctx (((a, k), col) :: kc s) (cc_put (cc s) a col)
  end.

(* AdjustChunkCache *)
Definition adjust_ctx (idxs : list nat) (s : ctx) : ctx := Ctx [] (adjust value idxs (cc s)).

(* ------------------------------------------------------------------ computations on the context *)

Definition MV (A : Type) := ctx -> res (A * ctx).

Definition retv {A} (a : A) : MV A := fun s => Ok (a, s).
Definition liftv {A} (r : res A) : MV A :=
  fun s => match r with Ok a => Ok (a, s) | Err e => Err e | Panic => Panic | OutOfModel => OutOfModel end.
Definition failv {A} (e : err) : MV A := fun _ => Err e.
Definition bindv {A B} (m : MV A) (f : A -> MV B) : MV B :=
  fun s => match m s with
           | Ok (a, s') => f a s'
           | Err e => Err e
           | Panic => Panic
           | OutOfModel => OutOfModel
           end.
Notation "'dv' x <- m ; k" := (bindv m (fun x => k)) (at level 200, x name, m at level 100, k at level 200).

(* the argument columns of a vector body: every argument left to right, the context threaded
   through the successful ones (a body stops at its first failing column; what comes after it is
   never looked at by [apply_func_vec]) *)
Definition cols_step (ev : expr -> MV (list value)) (a : expr)
    (rest : ctx -> list (res (list value)) * ctx) (s : ctx) : list (res (list value)) * ctx :=
  match ev a s with
  | Ok (col, s1) => let '(cs, s2) := rest s1 in (Ok col :: cs, s2)
  | Err e => let '(cs, s2) := rest s in (Err e :: cs, s2)
  | Panic => let '(cs, s2) := rest s in (Panic :: cs, s2)
  | OutOfModel => let '(cs, s2) := rest s in (OutOfModel :: cs, s2)
  end.

Section Lists.
Variable ev : expr -> MV (list value).        (* the evaluator on the current chunk *)

Fixpoint cols_c (l : list expr) : ctx -> list (res (list value)) * ctx :=
  match l with
  | [] => fun s => ([], s)
  | a :: l' => cols_step ev a (cols_c l')
  end.

(* execInBatch, first loop of the ListExpr case: type test, then the element's column *)
Fixpoint in_cols_c (number : bool) (items : list expr) : MV (list (list value)) :=
  match items with
  | [] => retv []
  | it :: items' =>
      if negb (ty_eqb (rtype it) (if number then TNumber else TStr)) then failv (EExec (epos it))
      else dv col <- ev it; dv cols <- in_cols_c number items'; retv (col :: cols)
  end.
End Lists.

(* ------------------------------------------------------------------ Expression.ExecuteBatch(chunk, ctx) *)

Fixpoint eval_batch_c (on : bool) (e : expr) (ch : list kvpair) {struct e} : MV (list value) :=
  match e with
  | ERef _ a d =>
      (* FieldReferenceExpr.ExecuteBatch *)
      match ch with
      | [] => fun _ => Panic                                   (* chunk[0].Key *)
      | kv0 :: _ =>
          if on then
            fun s =>
              match kc_get (kc s) (a, fst kv0) with
              | Some col => Ok (col, s)                        (* GetChunkFieldResult: hit (a copy) *)
              | None =>
                  match eval_batch_c on d ch s with
                  | Ok (col, s1) => Ok (col, set_chunk s1 a (fst kv0) col)
                  | Err x => Err x
                  | Panic => Panic
                  | OutOfModel => OutOfModel
                  end
              end
          else eval_batch_c on d ch
      end
  | ENot _ r =>
      dv rs <- eval_batch_c on r ch;
      liftv (vmap fo (fun rv => match rv with VBool b => Ok (VBool (negb b)) | _ => Err (EExec (epos r)) end) rs)
  | ECall p n args =>
      match n with
      | EName _ _ =>
          match call_name n with
          | None => liftv OutOfModel
          | Some nm =>
              match func_info nm with
              | None => failv (ESyntax p)
              | Some (nargs, varargs, _) =>
                  let cnt := List.length args in
                  if (negb varargs && negb (Nat.eqb cnt nargs)) || (varargs && Nat.ltb cnt nargs)
                  then failv (EExec p)
                  else if vec_args nm then
                    fun s =>
                      let '(cols, s') := cols_c (fun a => eval_batch_c on a ch) args s in
                      liftv (apply_func_vec fo re_match nm args ch cols) s'
                  else liftv (apply_func_vec fo re_match nm args ch [])
              end
          end
      | _ => failv (ESyntax p)
      end
  | EAccess p l fn =>
      dv ls <- eval_batch_c on l ch;
      match fn with
      | EStr _ _ => liftv (vmap fo (dict_access_at fo (epos l)) ls)
      | ENum _ d => liftv (vmap fo (list_access_at fo (num_value d) (epos l)) ls)
      | _ => failv (ESyntax (epos fn))
      end
  | EBin p o l r =>
      let both (f : value -> value -> res value) : MV (list value) :=
        dv ls <- eval_batch_c on l ch; dv rs <- eval_batch_c on r ch; liftv (vmap2 fo f ls rs) in
      let compare (c : cmpop) : MV (list value) :=
        match rtype l with
        | TStr => both (fun lv rv => do b <- string_compare fo lv rv c; Ok (VBool b))
        | _ => both (fun lv rv => do b <- number_compare fo lv rv c; Ok (VBool b))
        end in
      let andor (is_and : bool) : MV (list value) :=
        both (fun lv rv =>
                match lv, rv with
                | VBool a, VBool b => Ok (VBool (if is_and then a && b else a || b))
                | _, _ => Err (EExec p)
                end) in
      match o with
      | OEq => dv ls <- eval_batch_c on l ch; dv rs <- eval_batch_c on r ch; liftv (equal_batch fo ch false p ls rs)
      | ONotEq => dv ls <- eval_batch_c on l ch; dv rs <- eval_batch_c on r ch; liftv (equal_batch fo ch true p ls rs)
      | OPrefixMatch =>
          both (fun lv rv =>
            match conv_bytes fo lv, conv_bytes fo rv with
            | Some a, Some b => Ok (VBool (has_prefix b a))
            | _, _ => Err (EExec p)
            end)
      | ORegExpMatch =>
          both (fun lv rv =>
            match conv_bytes fo lv, conv_bytes fo rv with
            | Some a, Some b => do m <- re_match b a; Ok (VBool m)
            | _, _ => Err (EExec p)
            end)
      | OAnd | OKWAnd => andor true
      | OOr | OKWOr => andor false
      | OAdd =>
          match rtype l with
          | TStr =>
              both (fun lv rv =>
                match conv_bytes fo lv, conv_bytes fo rv with
                | Some a, Some b => Ok (VBytes (a ++ b)%string)
                | _, _ => Err (EExec p)
                end)
          | _ => both (fun lv rv => math_op fo lv rv OAdd (epos r))
          end
      | OSub => both (fun lv rv => math_op fo lv rv OSub (epos r))
      | OMul => both (fun lv rv => math_op fo lv rv OMul (epos r))
      | ODiv => both (fun lv rv => math_op fo lv rv ODiv (epos r))
      | OGt => compare CGt
      | OGte => compare CGte
      | OLt => compare CLt
      | OLte => compare CLte
      | OIn =>
          let number := match rtype l with TStr => false | _ => true end in
          dv ls <- eval_batch_c on l ch;
          match r with
          | EList _ items =>
              dv cols <- in_cols_c (fun it => eval_batch_c on it ch) number items;
              liftv (in_rows fo number ls cols)
          | ECall _ _ _ | ERef _ _ _ =>
              dv frets <- eval_batch_c on r ch;
              liftv (vmap2 fo (in_fn_at fo number p) ls frets)
          | _ => failv (EExec p)
          end
      | OBetween =>
          let number := match rtype l with TStr => false | _ => true end in
          let want := if number then TNumber else TStr in
          dv ls <- eval_batch_c on l ch;
          match r with
          | EList _ [lo; hi] =>
              if negb (ty_eqb (rtype lo) want) then failv (EExec (epos lo))
              else if negb (ty_eqb (rtype hi) want) then failv (EExec (epos hi))
              else
                dv los <- eval_batch_c on lo ch; dv his <- eval_batch_c on hi ch;
                liftv (vmap3 fo (between_at fo number p) los his ls)
          | _ => failv (EExec (epos r))
          end
      | ONot => failv (EExec p)
      end
  (* constants, key / value, a list literal as a value: no context involved *)
  | EStr _ _ | EField _ _ | EName _ _ | ENum _ _ | EFloat _ _ | EBool _ _ | EList _ _ =>
      liftv (eval_batch fo re_match true e ch)
  end.

(* FilterExec.FilterBatch (filterChunk) *)
Definition filter_batch_c (on : bool) (e : expr) (ch : list kvpair) : MV (list bool) :=
  dv rs <- eval_batch_c on e ch;
  liftv (map_res (fun r => match r with VBool b => Ok b | _ => Err (EExec (epos e)) end) rs).

(* ------------------------------------------------------------------ the scans' Batch *)

(* for i, m := range matchs { if m { chooseIdxes = append(chooseIdxes, bidx) }; bidx += 1 } *)
Fixpoint choose (bidx : nat) (ms : list bool) : list nat :=
  match ms with
  | [] => []
  | m :: ms' => if m then bidx :: choose (S bidx) ms' else choose (S bidx) ms'
  end.

(* XxxScanPlan.Batch over the remaining slots (Model/ScanProj.scan_batch_loop with the context,
   chooseIdxes and bidx); AdjustChunkCache at the end (a no-op with the cache disabled) *)
Fixpoint scan_batch_loop_c (on : bool) (wh : expr) (fuel B : nat) (rest : list (option kvpair))
    (ret : list kvpair) (idxs : list nat) (bidx : nat) : MV (list kvpair * list (option kvpair)) :=
  match fuel with
  | 0 => liftv OutOfModel
  | S f =>
      let chunk := somes (firstn B rest) in
      let rest' := skipn B rest in
      let eof := Nat.ltb (List.length rest) B in
      let finish (ret' : list kvpair) (idxs' : list nat) : MV (list kvpair * list (option kvpair)) :=
        fun s => Ok ((ret', rest'), if on then adjust_ctx idxs' s else s) in
      match chunk with
      | [] => if eof then finish ret idxs else scan_batch_loop_c on wh f B rest' ret idxs bidx
      | _ :: _ =>
          dv ms <- filter_batch_c on wh chunk;
          dv sel <- liftv (select_matches chunk ms);
          let ret' := ret ++ sel in
          let idxs' := idxs ++ choose bidx ms in
          if eof || (Nat.leb B (List.length ret')) then finish ret' idxs'
          else scan_batch_loop_c on wh f B rest' ret' idxs' (bidx + List.length ms)
      end
  end.

Definition scan_batch_c (on : bool) (wh : expr) (B : nat) (rest : list (option kvpair))
  : MV (list kvpair * list (option kvpair)) :=
  scan_batch_loop_c on wh (S (List.length rest)) B rest [] [] 0.

(* ------------------------------------------------------------------ ProjectionPlan.Batch *)

(* processProjectionBatch, first loop: a field that owns its name takes the accumulated column
   of that name when there is one (GetChunkFieldFinalResult), every other field is evaluated *)
Fixpoint project_cols_c (on : bool) (seen : list string) (nfs : list (string * expr))
    (ch : list kvpair) : MV (list (list value)) :=
  match nfs with
  | [] => retv []
  | (a, f) :: nfs' =>
      dv col <- (fun s =>
                   match (if on && owns_name seen a then cc_get value (cc s) a else None) with
                   | Some col => Ok (col, s)
                   | None => eval_batch_c on f ch s
                   end);
      dv cols <- project_cols_c on (seen ++ [a]) nfs' ch;
      retv (col :: cols)
  end.

(* second loop: row[j] = cols[j][i] for i < len(chunk) *)
Definition project_batch_c (on : bool) (s : stmt) (ch : list kvpair) : MV (list (list value)) :=
  dv cols <- project_cols_c on [] (env_of s) ch;
  liftv (transpose fo ch cols).

(* ProjectionPlan.Batch: ctx.Clear(), the child's Batch, the projection.  Every call starts
   from the cleared context, so the context is not part of the result. *)
Definition proj_batch_c (on : bool) (s : stmt) (B : nat) (rest : list (option kvpair))
  : res (list (list value) * list (option kvpair)) :=
  match scan_batch_c on (s_where s) B rest ctx0 with
  | Ok (([], rest'), _) => Ok ([], rest')
  | Ok ((kvs, rest'), st) =>
      match project_batch_c on s kvs st with
      | Ok (rows, _) => Ok (rows, rest')
      | Err e => Err e
      | Panic => Panic
      | OutOfModel => OutOfModel
      end
  | Err e => Err e
  | Panic => Panic
  | OutOfModel => OutOfModel
  end.

(* Batch until it returns no rows *)
Fixpoint drain_batch_c_fuel (on : bool) (s : stmt) (fuel B : nat) (rest : list (option kvpair))
  : res (list (list (list value))) :=
  match fuel with
  | 0 => OutOfModel
  | S f =>
      do rr <- proj_batch_c on s B rest;
      match rr with
      | ([], _) => Ok []
      | (rows, rest') => do outs <- drain_batch_c_fuel on s f B rest'; Ok (rows :: outs)
      end
  end.

Definition drain_batch_c (on : bool) (s : stmt) (B : nat) (rest : list (option kvpair))
  : res (list (list (list value))) :=
  drain_batch_c_fuel on s (S (List.length rest)) B rest.

(* ------------------------------------------------------------------ chunk sequences on one context *)

(* ExecuteBatch of one expression on successive chunks that share the context (what a scan's
   Batch does with its filter between two AdjustChunkCache calls): the outcome per chunk; the
   sequence stops at the first failing chunk (the scan returns the error) *)
Fixpoint eval_seq_c (on : bool) (e : expr) (chunks : list (list kvpair)) (s : ctx)
  : list (res (list value)) :=
  match chunks with
  | [] => []
  | ch :: chunks' =>
      match eval_batch_c on e ch s with
      | Ok (col, s') => Ok col :: eval_seq_c on e chunks' s'
      | Err x => [Err x]
      | Panic => [Panic]
      | OutOfModel => [OutOfModel]
      end
  end.

End CacheVec.
