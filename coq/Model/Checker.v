(* Model/Checker.v -- executable twin of the static checker: checker.go (Check of every node,
   tryRewriteExpr, checkWithAndOr / Math / Compares / In / Between, FieldAccessExpr.Check),
   statement.go (Validate / resolveFieldNames / ValidateFields / checkAggrFunctionArgs), the Validate calls and the
   CheckCtx flags of parser.go (Parse / parsePut / parseRemove / parseDelete, findFieldInSelect
   for ORDER BY) and checkStatementFunctionCalls / checkFunctionCalls of optimizer.go (run by
   BuildPlan right after Parse, before anything touches the storage).

   Input: the UNCHECKED tree the parser builds (names not yet resolved).  Output: the tree the
   checker leaves behind -- NameExpr operands that name a select field replaced by
   FieldReferenceExpr ([ERef]) -- or the SyntaxError position.

   [fx = true] is the code after the C14 fix: commits, [fx = false] the pinned variant kept
   for the _refuted witnesses:
     - NotExpr.Check / ListExpr.Check / FieldAccessExpr.Check did not check (nor resolve names
       in) their operand / items / left expression and field name;
     - DeleteStmt.Validate did not require a Boolean WHERE;
     - the keyword operators and / or fell into the comparison branch;
     - & and | rejected the literals true / false;
     - = and != accepted list / JSON / unknown operand types, IN any left operand type;
     - a negated expression was refused as comparison operand;
     - PUT allowed `key` inside the key expression;
     - a cascaded field access accepted any field-name expression;
     - a WHERE clause that is a field name alone was not resolved;
     - no function-call validation before the plan is built.
   One more pre-fix behaviour has its own variant instead of a branch on [fx] (so that the
   witness can be stated with every other repair in place): [check_select_pinned] /
   [build_check_pinned], Parser.Parse before SelectStmt.resolveFieldNames existed -- the field
   names inside the select fields were resolved while the fields were checked, one pass in
   order, after the WHERE clause.

   Ordering note: the Go code resolves a name operand and then calls Check on the result
   (Not / List / FieldAccess / call arguments) or calls Check and then resolves (BinaryOp).
   NameExpr.Check and FieldReferenceExpr.Check return nil, so both orders are the same
   function; the twin checks first and resolves afterwards everywhere.

   No proofs in this file. *)
From Coq Require Import List String Ascii ZArith Bool Arith.
Import ListNotations.
From KV Require Import Base.Bytes Base.Num Model.Ast Model.Value Model.Eval.
Open Scope string_scope.

(* CheckCtx: FieldNames zipped with Fields, NotAllowKey, NotAllowValue *)
Record cctx := Cctx { c_names : list (string * expr); c_nokey : bool; c_novalue : bool }.

(* CheckCtx.GetNamedExpr: the first field with that name *)
Fixpoint get_named (names : list (string * expr)) (s : string) : option expr :=
  match names with
  | [] => None
  | (n, d) :: names' => if String.eqb n s then Some d else get_named names' s
  end.

(* tryRewriteExpr on one operand *)
Definition rewrite_name (names : list (string * expr)) (e : expr) : expr :=
  match e with
  | EName p s => match get_named names s with Some d => ERef p s d | None => e end
  | _ => e
  end.

Definition serr {A} (p : nat) : res A := Err (ESyntax p).

Definition is_scalar_ty (t : ty) : bool :=
  match t with TStr | TNumber | TBool => true | _ => false end.
Definition is_strnum_ty (t : ty) : bool :=
  match t with TStr | TNumber => true | _ => false end.

(* first element whose static type differs from [t] *)
Fixpoint first_mistyped (t : ty) (l : list expr) : option expr :=
  match l with
  | [] => None
  | x :: l' => if ty_eqb (rtype x) t then first_mistyped t l' else Some x
  end.

Section Checker.
Variable fo : fops.
Variable fx : bool.

(* ---------------------------------------------------------------- checkWithAndOr *)
Definition andor_side (e : expr) : res unit :=
  match e with
  | EBin _ _ _ _ | ECall _ _ _ | ENot _ _ | ERef _ _ _ =>
      if ty_eqb (rtype e) TBool then Ok tt else serr (epos e)
  | EBool _ _ => if fx then Ok tt else serr (epos e)
  | _ => serr (epos e)
  end.

Definition check_andor (l r : expr) : res unit :=
  do _ <- andor_side l; andor_side r.

(* ---------------------------------------------------------------- checkWithMath *)
(* Ok true: a text operand, Ok false: a number operand *)
Definition math_side (e : expr) : res bool :=
  match e with
  | EBin _ _ _ _ | ECall _ _ _ | ENum _ _ | EFloat _ _ | ERef _ _ _ =>
      match rtype e with
      | TNumber => Ok false
      | TStr => Ok true
      | _ => serr (epos e)
      end
  | EStr _ _ | EField _ _ | EAccess _ _ _ => Ok true
  | _ => serr (epos e)
  end.

(* the literal divisor tests: rval.Int == 0 / rval.Float == 0.0 *)
Definition zero_divisor (r : expr) : res bool :=
  match r with
  | ENum _ d => Ok (Z.eqb (num_value d) 0)
  | EFloat _ d => do f <- float_value fo d; Ok (feqb fo f (f_zero fo))
  | _ => Ok false
  end.

Definition check_math (o : op) (l r : expr) : res unit :=
  do ls <- math_side l;
  do rs <- math_side r;
  do _ <- (if op_eqb o OAdd && ls && rs then Ok tt
           else if ls then serr (epos l)
           else if rs then serr (epos r)
           else Ok tt);
  if op_eqb o ODiv then
    (do z <- zero_divisor r; if z then serr (epos r) else Ok tt)
  else Ok tt.

(* ---------------------------------------------------------------- checkWithCompares *)
(* (number of key fields, number of value fields) contributed by one side *)
Definition compare_side (e : expr) : res (nat * nat) :=
  match e with
  | EField _ KeyKW => Ok (1, 0)
  | EField _ ValueKW => Ok (0, 1)
  | ECall _ _ _ | ERef _ _ _ | EStr _ _ | EBool _ _ | ENum _ _ | EFloat _ _
  | EBin _ _ _ _ | EAccess _ _ _ => Ok (0, 0)
  | ENot _ _ => if fx then Ok (0, 0) else serr (epos e)
  | _ => serr (epos e)
  end.

Definition check_compares (p : nat) (o : op) (l r : expr) : res unit :=
  do lc <- compare_side l;
  do rc <- compare_side r;
  if Nat.eqb (fst lc + fst rc) 2 || Nat.eqb (snd lc + snd rc) 2 then serr p
  else
    let lt := rtype l in
    if negb (ty_eqb lt (rtype r)) then serr p
    else
      match o with
      | OEq | ONotEq => if fx && negb (is_scalar_ty lt) then serr (epos l) else Ok tt
      | OGt | OGte | OLt | OLte => if is_strnum_ty lt then Ok tt else serr (epos l)
      | OPrefixMatch | ORegExpMatch => if ty_eqb lt TStr then Ok tt else serr (epos l)
      | _ => Ok tt
      end.

(* ---------------------------------------------------------------- checkWithIn *)
Definition check_in (l r : expr) : res unit :=
  let lt := rtype l in
  if fx && negb (is_strnum_ty lt) then serr (epos l)
  else
    match r with
    | EList _ items =>
        match first_mistyped lt items with
        | Some x => serr (epos x)
        | None => Ok tt
        end
    | ECall _ _ _ | ERef _ _ _ => if ty_eqb (rtype r) TList then Ok tt else serr (epos r)
    | _ => serr (epos r)
    end.

(* ---------------------------------------------------------------- checkWithBetween *)
Definition check_between (l r : expr) : res unit :=
  let lt := rtype l in
  match r with
  | EList _ [lo; hi] =>
      if negb (is_strnum_ty lt) then serr (epos l)
      else if ty_eqb (rtype lo) lt && ty_eqb (rtype hi) lt then Ok tt
      else serr (epos r)
  | _ => serr (epos r)
  end.

(* ---------------------------------------------------------------- FieldAccessExpr.Check,
   after the left expression has been dealt with *)
Definition is_access (e : expr) : bool := match e with EAccess _ _ _ => true | _ => false end.

Definition check_access_shape (l f : expr) : res unit :=
  let fae := is_access l in
  match rtype l with
  | TJson =>
      match f with
      | EStr _ _ => Ok tt
      | ENum _ _ => if fae then Ok tt else serr (epos f)
      | _ => serr (epos f)
      end
  | TList =>
      match f with
      | ENum _ _ => Ok tt
      | EStr _ _ => if fae then Ok tt else serr (epos f)
      | _ => serr (epos f)
      end
  | _ =>
      if fae then
        (if fx then match f with EStr _ _ | ENum _ _ => Ok tt | _ => serr (epos f) end
         else Ok tt)
      else serr (epos l)
  end.

(* ---------------------------------------------------------------- Expression.Check *)
Section WithCtx.
Variable ctx : cctx.
Let names := c_names ctx.
Let rw := rewrite_name names.

Fixpoint check (e : expr) {struct e} : res expr :=
  match e with
  | EBin p o l r =>
      do l1 <- check l;
      do r1 <- check r;
      let l2 := rw l1 in
      let r2 := rw r1 in
      do _ <- (match o with
               | OAnd | OOr => check_andor l2 r2
               | OKWAnd | OKWOr => if fx then check_andor l2 r2 else check_compares p o l2 r2
               | ONot => serr p
               | OAdd | OSub | OMul | ODiv => check_math o l2 r2
               | OIn => check_in l2 r2
               | OBetween => check_between l2 r2
               | _ => check_compares p o l2 r2
               end);
      Ok (EBin p o l2 r2)
  | EField p KeyKW => if c_nokey ctx then serr p else Ok e
  | EField p ValueKW => if c_novalue ctx then serr p else Ok e
  | EStr _ _ | EName _ _ | ERef _ _ _ | ENum _ _ | EFloat _ _ | EBool _ _ => Ok e
  | ENot p r =>
      do r2 <- (if fx then (do r1 <- check r; Ok (rw r1)) else Ok r);
      if ty_eqb (rtype r2) TBool then Ok (ENot p r2) else serr (epos r2)
  | ECall p n args =>
      match n with
      | EName _ _ =>
          do args2 <- (fix go (l : list expr) : res (list expr) :=
                         match l with
                         | [] => Ok []
                         | a :: l' => do a1 <- check a; do l2 <- go l'; Ok (rw a1 :: l2)
                         end) args;
          Ok (ECall p n args2)
      | _ => serr (epos n)
      end
  | EList p items =>
      match items with
      | [] => serr p
      | _ =>
          do items2 <- (if fx then
                          (fix go (l : list expr) : res (list expr) :=
                             match l with
                             | [] => Ok []
                             | a :: l' => do a1 <- check a; do l2 <- go l'; Ok (rw a1 :: l2)
                             end) items
                        else Ok items);
          match items2 with
          | [] => serr p
          | x :: rest =>
              match first_mistyped (rtype x) rest with
              | Some y => serr (epos y)
              | None => Ok (EList p items2)
              end
          end
      end
  | EAccess p l f =>
      do l2 <- (if fx then (do l1 <- check l; Ok (rw l1)) else Ok l);
      do f2 <- (if fx then check f else Ok f);     (* FieldName.Check; the field name itself is not resolved *)
      do _ <- check_access_shape l2 f2;
      Ok (EAccess p l2 f2)
  end.

End WithCtx.

(* ---------------------------------------------------------------- statement.go *)

(* GetFuncNameFromExpr(e) succeeded && IsAggrFunc(name) *)
Definition is_aggr_call (e : expr) : bool :=
  match e with
  | ECall _ n _ =>
      match call_name n with
      | Some nm => match aggr_rtype nm with Some _ => true | None => false end
      | None => false
      end
  | _ => false
  end.

(* checkAggrFuncArg *)
Fixpoint aggr_arg (a : expr) : res unit :=
  match a with
  | EBin _ _ l r => do _ <- aggr_arg l; aggr_arg r
  | ECall p _ _ => if is_aggr_call a then serr p else Ok tt
  | _ => Ok tt
  end.

Fixpoint aggr_args (l : list expr) : res unit :=
  match l with
  | [] => Ok tt
  | a :: l' => do _ <- aggr_arg a; aggr_args l'
  end.

(* checkAggrFunctionArgs *)
Fixpoint aggr_field (e : expr) : res unit :=
  match e with
  | EBin _ _ l r => do _ <- aggr_field l; aggr_field r
  | ECall _ _ args => if is_aggr_call e then aggr_args args else Ok tt
  | _ => Ok tt
  end.

Inductive stmt :=
  | SSelect (fields : list (string * expr))       (* FieldNames zipped with Fields *)
            (where_ : expr)
            (order : list (nat * string))          (* ORDER BY: position and name of each item *)
  | SPut (pairs : list (expr * expr))
  | SRemove (keys : list expr)
  | SDelete (where_ : expr).

(* findFieldInSelect for one ORDER BY item *)
Definition find_order_field (names : list (string * expr)) (it : nat * string) : res unit :=
  match get_named names (snd it) with
  | None => serr (fst it)
  | Some f => if is_scalar_ty (rtype f) then Ok tt else serr (epos f)
  end.

Fixpoint check_order (names : list (string * expr)) (l : list (nat * string)) : res unit :=
  match l with
  | [] => Ok tt
  | it :: l' => do _ <- find_order_field names it; check_order names l'
  end.

(* ---------------------------------------------------------------- field references

   A FieldReferenceExpr points to the tree of the field it names (the first field with that
   name); ReturnType() of the reference is computed on that tree, on demand.  The twin's [ERef]
   carries a copy of the definition instead of a pointer.

   SelectStmt.resolveFieldNames (statement.go; Parser.Parse calls it right after
   checkFieldCycles, before ORDER BY / GROUP BY are parsed and before anything is type
   checked): every field name used as an operand inside a select field becomes a reference --
   the places Check would resolve: both sides of a binary operator, the operand of !, call
   arguments, list items, the left side of a field access (and whatever Walk reaches below the
   field-name expression of an access); a reference is not entered, a field that is only a
   name stays a name.  (Walk also enters the function-name expression of a call; a name
   standing there is not an operand, and a compound function name is rejected by Check
   whatever it holds: the twin leaves it alone.) *)
Fixpoint resolve (names : list (string * expr)) (e : expr) {struct e} : expr :=
  match e with
  | EBin p o l r => EBin p o (rewrite_name names (resolve names l)) (rewrite_name names (resolve names r))
  | ENot p r => ENot p (rewrite_name names (resolve names r))
  | ECall p nm args => ECall p nm (map (fun a => rewrite_name names (resolve names a)) args)
  | EList p items => EList p (map (fun a => rewrite_name names (resolve names a)) items)
  | EAccess p l f => EAccess p (rewrite_name names (resolve names l)) (resolve names f)
  | _ => e
  end.

(* The pointer graph after resolveFieldNames, as trees: every reference carries the RESOLVED
   tree of the field it names, whose references carry resolved trees in turn.  checkFieldCycles
   has passed, so the chains of references end: a chain visits each field at most once, and
   unfolding the definitions as many times as there are fields reaches the end of every chain
   ([link_n k]: references nested k deep are resolved, the innermost carry the parser's trees;
   ReturnType() of a field never looks further than the chain). *)
Fixpoint link_n (k : nat) (raw : list (string * expr)) : list (string * expr) :=
  match k with
  | 0 => raw
  | S k' => map (fun nf => (fst nf, resolve (link_n k' raw) (snd nf))) raw
  end.

Definition link (raw : list (string * expr)) : list (string * expr) := link_n (List.length raw) raw.

(* SelectStmt.ValidateFields: Check + the nested-aggregate test, field after field, every field
   against the resolved fields [all].  Check finds the field already resolved (a reference is
   left as it is, tryRewriteExpr has nothing left to do) and applies its type tests to
   references whose type is the type of the resolved definition -- the tests Check applies to
   the parser's tree [f] under the CheckCtx of the resolved fields, which is how the twin runs
   it (the references Check makes then carry the resolved definitions). *)
Fixpoint validate_fields (all todo : list (string * expr)) : res (list (string * expr)) :=
  match todo with
  | [] => Ok []
  | (n, f) :: todo' =>
      do f2 <- check (Cctx all false false) f;
      do _ <- aggr_field f2;
      do r <- validate_fields all todo';
      Ok ((n, f2) :: r)
  end.

Definition where_bool (w : expr) : res unit :=
  if ty_eqb (rtype w) TBool then Ok tt else serr (epos w).

(* Parser.Parse for a SELECT, from checkFieldCycles on (which is a hook of the parser twin,
   Model/ParseCheck.v): resolveFieldNames, the ORDER BY lookups, WHERE, ValidateFields *)
Definition check_select (fields : list (string * expr)) (w : expr) (order : list (nat * string))
  : res stmt :=
  let all := link fields in
  do _ <- check_order all order;
  do w1 <- check (Cctx all false false) w;
  let w2 := if fx then rewrite_name all w1 else w1 in   (* Parse resolves a WHERE that is a field name *)
  do _ <- where_bool w2;
  do fields2 <- validate_fields all fields;
  Ok (SSelect fields2 w2 order).

(* ---------------------------------------------------------------- the same before the fix:
   commit "select fields were type checked against fields whose names were not resolved yet"
   (kept for forward_reference_pinned_refuted, Properties/C14.v).  No resolveFieldNames: the
   ORDER BY lookups and the WHERE clause saw the parser's fields, and ValidateFields resolved
   and checked the fields in ONE pass, in order.  Check rewrites a field IN PLACE: once the field
   has been checked, every reference to it made earlier -- also one sitting inside the
   definition carried by another reference -- sees the checked tree, and ReturnType() of the
   reference is computed on it (`zq1 + 'x' as zq0` is a number while zq1 is an unresolved name
   and text once zq1 has been resolved to a text field).  [relink n d e]: the definition carried
   by every reference to [n] in [e] becomes [d].  Only the places ReturnType() can reach are
   visited (not a function name, not the field-name expression of a field access). *)
Fixpoint relink (n : string) (d : expr) (e : expr) {struct e} : expr :=
  match e with
  | EBin p o l r => EBin p o (relink n d l) (relink n d r)
  | ENot p r => ENot p (relink n d r)
  | ECall p nm args => ECall p nm (map (relink n d) args)
  | ERef p s d0 => if String.eqb s n then ERef p s d else ERef p s (relink n d d0)
  | EList p items => EList p (map (relink n d) items)
  | EAccess p l f => EAccess p (relink n d l) f
  | _ => e
  end.

Definition has_name (n : string) (fs : list (string * expr)) : bool :=
  existsb (fun nf => String.eqb (fst nf) n) fs.

Definition relink_fields (n : string) (d : expr) (fs : list (string * expr)) : list (string * expr) :=
  map (fun nf => (fst nf, relink n d (snd nf))) fs.

(* the fields checked later see the rewritten form of the earlier ones, and the references made
   earlier to the field just checked see its rewritten form (unless an earlier field has the
   same name: references go to that one).  [done]: fields already checked, [todo]: still to do
   (as the parser built them: no references inside). *)
Fixpoint validate_fields_pinned (done todo : list (string * expr)) : res (list (string * expr)) :=
  match todo with
  | [] => Ok done
  | (n, f) :: todo' =>
      do f2 <- check (Cctx (done ++ todo) false false) f;
      do _ <- aggr_field f2;
      validate_fields_pinned ((if has_name n done then done else relink_fields n f2 done) ++ [(n, f2)]) todo'
  end.

Definition check_select_pinned (fields : list (string * expr)) (w : expr) (order : list (nat * string))
  : res stmt :=
  do _ <- check_order fields order;
  do w1 <- check (Cctx fields false false) w;
  let w2 := if fx then rewrite_name fields w1 else w1 in
  do _ <- where_bool w2;
  do fields2 <- validate_fields_pinned [] fields;
  Ok (SSelect fields2 w2 order).

Definition strnum_or (e : expr) : res unit :=
  if is_strnum_ty (rtype e) then Ok tt else serr (epos e).

(* PutStmt.validateKVPair under parsePut's CheckCtx{NotAllowValue: true} *)
Definition check_pair (kv : expr * expr) : res (expr * expr) :=
  do k2 <- check (Cctx [] fx true) (fst kv);
  do _ <- strnum_or k2;
  do v2 <- check (Cctx [] false true) (snd kv);
  do _ <- strnum_or v2;
  Ok (k2, v2).

Fixpoint check_pairs (l : list (expr * expr)) : res (list (expr * expr)) :=
  match l with
  | [] => Ok []
  | kv :: l' => do kv2 <- check_pair kv; do l2 <- check_pairs l'; Ok (kv2 :: l2)
  end.

(* RemoveStmt.Validate under CheckCtx{NotAllowKey: true, NotAllowValue: true}: the type test
   comes before Check *)
Fixpoint check_keys (l : list expr) : res (list expr) :=
  match l with
  | [] => Ok []
  | k :: l' =>
      do _ <- strnum_or k;
      do k2 <- check (Cctx [] true true) k;
      do l2 <- check_keys l';
      Ok (k2 :: l2)
  end.

(* Parser.Parse from the point where the statement has been read *)
Definition check_stmt (s : stmt) : res stmt :=
  match s with
  | SSelect fields w order => check_select fields w order
  | SPut pairs => do p2 <- check_pairs pairs; Ok (SPut p2)
  | SRemove keys => do k2 <- check_keys keys; Ok (SRemove k2)
  | SDelete w =>
      do w2 <- check (Cctx [] false false) w;
      do _ <- (if fx then where_bool w2 else Ok tt);
      Ok (SDelete w2)
  end.

(* ---------------------------------------------------------------- optimizer.go:
   checkFunctionCalls / checkStatementFunctionCalls *)
Fixpoint check_calls (allow_aggr : bool) (e : expr) {struct e} : res unit :=
  match e with
  | EBin _ _ l r => do _ <- check_calls allow_aggr l; check_calls allow_aggr r
  | ENot _ r => check_calls false r
  | EAccess _ l _ => check_calls false l
  | EList _ items =>
      (fix go (l : list expr) : res unit :=
         match l with
         | [] => Ok tt
         | a :: l' => do _ <- check_calls false a; go l'
         end) items
  | ECall p n args =>
      match n with
      | EName _ _ =>
          match call_name n with
          | None => OutOfModel
          | Some nm =>
              do _ <- (match func_info nm with
                       | Some (nargs, varargs, _) =>
                           let cnt := List.length args in
                           if (negb varargs && negb (Nat.eqb cnt nargs)) || (varargs && Nat.ltb cnt nargs)
                           then serr p else Ok tt
                       | None =>
                           match aggr_rtype nm with
                           | Some _ => if allow_aggr then Ok tt else serr p
                           | None => serr p
                           end
                       end);
              (fix go (l : list expr) : res unit :=
                 match l with
                 | [] => Ok tt
                 | a :: l' => do _ <- check_calls false a; go l'
                 end) args
          end
      | _ => serr p
      end
  | _ => Ok tt
  end.

Fixpoint calls_fields (l : list (string * expr)) : res unit :=
  match l with
  | [] => Ok tt
  | (_, f) :: l' => do _ <- check_calls true f; calls_fields l'
  end.

Fixpoint calls_pairs (l : list (expr * expr)) : res unit :=
  match l with
  | [] => Ok tt
  | (k, v) :: l' => do _ <- check_calls false k; do _ <- check_calls false v; calls_pairs l'
  end.

Fixpoint calls_keys (l : list expr) : res unit :=
  match l with
  | [] => Ok tt
  | k :: l' => do _ <- check_calls false k; calls_keys l'
  end.

Definition check_stmt_calls (s : stmt) : res unit :=
  match s with
  | SSelect fields w _ => do _ <- check_calls false w; calls_fields fields
  | SDelete w => check_calls false w
  | SPut pairs => calls_pairs pairs
  | SRemove keys => calls_keys keys
  end.

(* Optimizer.init up to the point where the statement is accepted: Parse, then the call
   validation (constant folding, scan planning and plan construction come afterwards) *)
Definition build_check (s : stmt) : res stmt :=
  do s2 <- check_stmt s;
  do _ <- (if fx then check_stmt_calls s2 else Ok tt);
  Ok s2.

(* a SELECT through the pre-fix Parse (see check_select_pinned) *)
Definition build_check_pinned (s : stmt) : res stmt :=
  do s2 <- (match s with
            | SSelect fields w order => check_select_pinned fields w order
            | _ => check_stmt s
            end);
  do _ <- (if fx then check_stmt_calls s2 else Ok tt);
  Ok s2.

End Checker.
