(* Model/Delete.v -- executable twin of the DELETE statement as a whole:
     optimizer.go  buildDeletePlan, canOptimizeDeletePlanToRemovePlan,
                   optimizeDeletePlanToRemovePlan: which plan a DELETE becomes
                   ([build_delete]: DeletePlan over the scan, DeletePlan over LimitPlan over the
                   scan, or -- MultiGetPlan, no LIMIT, no AND in the filter -- a RemovePlan
                   over the listed keys, which does not evaluate the filter at all);
     running it    [run_delete]: DeletePlan is Model/ScanIO.delete_prog, RemovePlan is
                   Model/Write's twin with literal key expressions;
     statement sequences over one storage ([hstmt], [run_history]): PUT / REMOVE (Model/Write),
                   DELETE, SELECT * (Model/ScanSem);
     a storage whose cursors are NOT snapshots ([live_delete_execute]: a cursor is a position
                   in the current data), used only to show why the property assumes snapshot cursors.
   No proofs here (Proofs/DeleteProofs.v). *)
From Coq Require Import List String Bool Arith.
Import ListNotations.
From KV Require Import Base.Bytes Model.Ast Model.Storage Model.Write Model.ScanIO Model.FilterOpt
                       Model.ScanSem.

Set Implicit Arguments.
Local Open Scope list_scope.
Local Open Scope nat_scope.

(* ------------------------------------------------------------------ buildDeletePlan *)

Inductive dplan :=
  | DScan (c : plan)                 (* DeletePlan{ChildPlan: c} *)
  | DRemove (keys : list bytes).     (* RemovePlan{Keys: StringExpr literals} *)

(* fp := buildScanPlan; EmptyResultPlan -> DeletePlan over it (LIMIT ignored);
   MultiGetPlan && Limit == nil && canOptimizeDeletePlanToRemovePlan -> RemovePlan;
   otherwise DeletePlan over fp, or over LimitPlan{Start, Count, fp} *)
Definition build_delete (wh : expr) (limit : option (nat * nat)) : dplan :=
  let sc := scan_of_region (optimize wh) in
  match sc with
  | SEmpty => DScan (PScan SEmpty)
  | _ =>
      match sc, limit with
      | SMget keys, None =>
          if negb (has_and wh) then DRemove keys else DScan (PScan sc)
      | _, None => DScan (PScan sc)
      | _, Some (start, count) => DScan (PLimit start count (PScan sc))
      end
  end.

(* a StringExpr evaluates to its text *)
Definition ev_lit (e : bytes) (k v : bytes) : res bytes := Ok e.

(* BuildPlan, then the caller polls until nil (one row [n], then nil) *)
Definition run_delete (flt : kvp -> bool) (B fuel : nat) (dp : dplan) (s : sstate) : sstate :=
  match dp with
  | DScan c => snd (run exec_req (delete_prog true flt B fuel c) s)
  | DRemove keys => snd (wexec ev_lit (WRemove keys) [PNext; PNext] s)
  end.

(* ------------------------------------------------------------------ statement sequences *)

(* one statement of a history; the WHERE filter of a DELETE / SELECT is its per-pair verdict *)
Inductive hstmt :=
  | HPut (kvs : list kvp)                                            (* put (k1, v1), ... : literal pairs *)
  | HRemove (ks : list bytes)                                        (* remove k1, ... *)
  | HDelete (flt : kvp -> bool) (B fuel : nat) (dp : dplan)          (* delete where ... [limit ...] *)
  | HSelect (flt : kvp -> bool) (B fuel : nat) (m : mode) (p : plan). (* select * where ... [limit ...] *)

Definition run_hstmt (s : sstate) (h : hstmt) : sstate :=
  match h with
  | HPut kvs => snd (wexec ev_lit (WPut kvs) [PNext; PNext] s)
  | HRemove ks => snd (wexec ev_lit (WRemove ks) [PNext; PNext] s)
  | HDelete flt B fuel dp => run_delete flt B fuel dp s
  | HSelect flt B fuel RowMode p => snd (run_read (select_rows true flt fuel p) s)
  | HSelect flt B fuel BatchMode p => snd (run_read (select_batches true flt B fuel p) s)
  end.

Definition run_history (hs : list hstmt) (s : sstate) : sstate := fold_left run_hstmt hs s.

(* ------------------------------------------------------------------ a storage without snapshot cursors *)

(* DeletePlan.execute over FullScanPlan.Batch (filter accepting every pair) when the storage's
   cursor is NOT a snapshot but a position in the current data (an index into a live sorted
   slice): Batch returns the next B pairs from position [pos] of the data as it is now, the
   loop deletes them, and the next Batch goes on from the advanced position -- in data that has
   meanwhile shifted under the cursor.  Used only to show why the property assumes snapshot
   cursors. *)
Definition live_batch (B pos : nat) (d : store) : list kvp := firstn B (skipn pos d).

Fixpoint live_delete_execute (f B pos : nat) (d : store) : store :=
  match f with
  | 0 => d
  | S f' =>
      match live_batch B pos d with
      | [] => d
      | rows => live_delete_execute f' B (pos + List.length rows) (sdel_all (map fst rows) d)
      end
  end.
