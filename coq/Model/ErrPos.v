(* Model/ErrPos.v -- where the positions carried by AST nodes and by errors come from
   (abstract provenance model for C17, part 2).

   parser.go, checker.go, statement.go, expression_optimizer.go and optimizer.go never compute
   a position: every [Pos] they store in a node or hand to NewSyntaxError / NewExecuteError is
     - the literal -1 (end of input),
     - the [Pos] of a token returned by Lexer.Split,
     - the [Pos] of an AST node built earlier (GetPos()), or
     - 0: the zero value of a SelectStmt made for a statement that starts at `where`, and the
       FieldExpr{0, KeyKW} / FieldExpr{0, ValueKW} pair made for `select *`.
   This file has the node builders of the parser / checker / folder reduced to that flow, the
   list of positions of a tree, the origin of an error position, and the decidable checks the
   correspondence evaluates on the implementation's own trees.  The full parser and checker
   twins (Model/Parser.v, Model/Checker.v) belong to C15 / C14; until they exist the theorems
   about [parse_check q = Err e] are stated over this provenance model (see Properties/C17.v). *)
From Coq Require Import String List ZArith Bool Arith.
From KV Require Import Model.Token Model.Ast.
Import ListNotations.

(* every Pos field of a tree (the alias definition under a FieldReferenceExpr included) *)
Fixpoint positions (e : expr) : list nat :=
  match e with
  | EBin p _ l r => p :: positions l ++ positions r
  | EField p _ => [p]
  | EStr p _ => [p]
  | ENot p r => p :: positions r
  | ECall p n args => p :: positions n ++ flat_map positions args
  | EName p _ => [p]
  | ERef p _ d => p :: positions d
  | ENum p _ => [p]
  | EFloat p _ => [p]
  | EBool p _ => [p]
  | EList p l => p :: flat_map positions l
  | EAccess p l f => p :: positions l ++ positions f
  end.

(* ---- node builders, as the Go code fills in the Pos field ---- *)

(* parseBinaryExpr: &BinaryOpExpr{Pos: opTok.Pos, Op: op, Left: x, Right: y} *)
Definition mk_binop (opTok : token) (o : op) (x y : expr) : expr := EBin (pos opTok) o x y.
(* parseUnaryExpr: pos := p.tok.Pos ... &NotExpr{Pos: pos, Right: x} *)
Definition mk_not (t : token) (x : expr) : expr := ENot (pos t) x.
(* parseFuncCall: &FunctionCallExpr{Pos: fun.GetPos(), Name: fun, Args: list} *)
Definition mk_call (f : expr) (args : list expr) : expr := ECall (epos f) f args.
(* parsePrimaryExpr / parseFieldAccess: parseFieldAccess(p.tok.Pos, x) with p.tok the `[` *)
Definition mk_access (lbrack : token) (x fld : expr) : expr := EAccess (pos lbrack) x fld.
(* parseList(opTok.Pos) / parseBetween(opTok.Pos, ...): &ListExpr{Pos: pos, List: list} *)
Definition mk_list (opTok : token) (l : list expr) : expr := EList (pos opTok) l.
(* parseOperand: one node per token kind, Pos: p.tok.Pos *)
Definition mk_operand (t : token) : option expr :=
  match tp t with
  | KEY => Some (EField (pos t) KeyKW)
  | VALUE => Some (EField (pos t) ValueKW)
  | STRING => Some (EStr (pos t) (data t))
  | NAME => Some (EName (pos t) (data t))
  | NUMBER => Some (ENum (pos t) (data t))
  | FLOAT => Some (EFloat (pos t) (data t))
  | TRUE => Some (EBool (pos t) true)
  | FALSE => Some (EBool (pos t) false)
  | _ => None                                (* LPAREN recurses; anything else: "Bad Expression" *)
  end.
(* parseSelect, `select *`: []Expression{&FieldExpr{0, KeyKW}, &FieldExpr{0, ValueKW}} *)
Definition star_fields : list expr := [EField 0 KeyKW; EField 0 ValueKW].
(* checker tryRewriteExpr: &FieldReferenceExpr{Name: lexp, FieldExpr: nexpr}; GetPos() = Name.Pos *)
Definition mk_ref (name : expr) (def : expr) : expr :=
  match name with
  | EName p s => ERef p s def
  | _ => name
  end.
(* expression_optimizer.go: a folded literal takes the position of the node (or of its left /
   right child) it replaces: &NumberExpr{Pos: leftPos, ...}, &BoolExpr{Pos: e.Left.GetPos()}, ...*)
Inductive lit := LStr (s : string) | LNum (s : string) | LFloat (s : string) | LBool (b : bool).
Definition mk_folded (at_node : expr) (l : lit) : expr :=
  match l with
  | LStr s => EStr (epos at_node) s
  | LNum s => ENum (epos at_node) s
  | LFloat s => EFloat (epos at_node) s
  | LBool b => EBool (epos at_node) b
  end.
(* tryReorderBinaryOp: &BinaryOpExpr{Pos: e.GetPos(), Op: e.Op, Left: ..., Right: ...} *)
Definition mk_reassoc (e : expr) (o : op) (l r : expr) : expr := EBin (epos e) o l r.

(* ---- origin of an error position ---- *)
Inductive err_src :=
  | AtEOF                    (* NewSyntaxError(-1, ...) *)
  | AtTok (t : token)        (* p.tok.Pos, opTok.Pos, prevPos *)
  | AtNode (e : expr)        (* x.GetPos() for a node x of one of the statement's trees *)
  | AtStmt (p : nat).        (* stmt.Pos, orderStmt.Pos, groupByStmt.Pos, wherePos *)

Definition err_pos (s : err_src) : Z :=
  match s with
  | AtEOF => (-1)%Z
  | AtTok t => Z.of_nat (pos t)
  | AtNode e => Z.of_nat (epos e)
  | AtStmt p => Z.of_nat p
  end.

(* ---- decidable provenance, evaluated on the implementation's trees ---- *)
Definition prov_b (starts : list nat) (p : nat) : bool :=
  (p =? 0) || existsb (Nat.eqb p) starts.
Definition expr_prov_b (starts : list nat) (e : expr) : bool :=
  forallb (prov_b starts) (positions e).
Definition stmt_prov_b (starts : list nat) (roots : list expr) (stmt_pos : list nat) : bool :=
  forallb (expr_prov_b starts) roots && forallb (prov_b starts) stmt_pos.
(* every position of the trees is a possible error position: is it -1 / 0 / a token start,
   and inside the query *)
Definition starts_in_query (qlen : nat) (starts : list nat) : bool :=
  forallb (fun p => p <? qlen) starts.
