(* Model/ErrRender.v -- executable twin of errors.go: outputQueryAndErrPos, generatePads,
   SyntaxError / ExecuteError .queryError / .simpleError / .Error (after BindQuery, SetPadding).

   Go [int]s (the error position, the padding) are [Z]; text is a Coq [string] (bytes).
   Every Go slice expression s[i:j] goes through [go_slice], which yields [Panic] exactly
   when Go would panic with "slice bounds out of range".

   [fixed = true]  is the code after the fix: commit for D22 (the position, an offset into the
                   bound query, is translated into the whitespace-trimmed text and clamped);
   [fixed = false] is the pinned behaviour (the position is used as it is), kept for the
                   regression witnesses [render_caret_refuted_*].

   strings.TrimSpace / TrimLeftFunc(unicode.IsSpace) are modelled on ASCII white space
   ('\t' '\n' '\v' '\f' '\r' ' ').  Go additionally trims multi-byte Unicode spaces (U+0085,
   U+00A0, ...): a query whose first or last byte after ASCII trimming is >= 0x80 is outside
   the model ([trim_in_model] = false); the correspondence excludes and counts such inputs. *)
From Coq Require Import String Ascii ZArith NArith List Bool DecimalString.
Import ListNotations.
Local Open Scope string_scope.
Local Open Scope Z_scope.

Inductive outcome (A : Type) : Type :=
  | Ok (a : A)
  | Panic.
Arguments Ok {A} a.
Arguments Panic {A}.

(* ---------------------------------------------------------------- strings package *)

(* unicode.IsSpace on one byte < 0x80 *)
Definition is_space (a : ascii) : bool :=
  let n := N_of_ascii a in
  (N.eqb n 32 || (N.leb 9 n && N.leb n 13))%N.

(* strings.TrimLeftFunc(s, unicode.IsSpace) *)
Fixpoint trim_left (s : string) : string :=
  match s with
  | EmptyString => EmptyString
  | String a s' => if is_space a then trim_left s' else s
  end.

(* strings.TrimRightFunc(s, unicode.IsSpace) *)
Fixpoint trim_right (s : string) : string :=
  match s with
  | EmptyString => EmptyString
  | String a s' =>
      match trim_right s' with
      | EmptyString => if is_space a then EmptyString else String a EmptyString
      | t => String a t
      end
  end.

(* strings.TrimSpace *)
Definition trim_space (s : string) : string := trim_right (trim_left s).

Definition zlen (s : string) : Z := Z.of_nat (String.length s).

(* first / last byte of the ASCII-trimmed text is below 0x80 (else Go decodes a rune there) *)
Definition byte_ascii (o : option ascii) : bool :=
  match o with
  | None => true
  | Some a => (N_of_ascii a <? 128)%N
  end.
Definition trim_in_model (s : string) : bool :=
  let t := trim_space s in
  byte_ascii (String.get 0 t) && byte_ascii (String.get (String.length t - 1) t).

(* s[i:j] *)
Definition go_slice (s : string) (i j : Z) : outcome string :=
  if (0 <=? i) && (i <=? j) && (j <=? zlen s)
  then Ok (String.substring (Z.to_nat i) (Z.to_nat (j - i)) s)
  else Panic.

Fixpoint spaces (n : nat) : string :=
  match n with
  | O => EmptyString
  | S n' => String " " (spaces n')
  end.

(* fmt %d *)
Definition fmt_int (z : Z) : string := NilZero.string_of_int (Z.to_int z).

(* ---------------------------------------------------------------- errors.go *)

(* func generatePads(pad int) string: for i := 0; i < pad; i++ { ret += " " } *)
Definition generate_pads (pad : Z) : string := spaces (Z.to_nat pad).

(* first part of outputQueryAndErrPos: pos == -1 means end of input; (fixed) otherwise move the
   offset from the bound query into the trimmed text and clamp it *)
Definition adjust_pos (fixed : bool) (query tquery : string) (pos : Z) : Z :=
  let qlen := zlen tquery in
  if pos =? -1 then qlen
  else if fixed then
    let p := pos - (zlen query - zlen (trim_left query)) in
    if p <? 0 then 0 else if qlen <? p then qlen else p
  else pos.

(* the Go variables tquery, pos, trimLeft, trimRight after the `if qlen > 70` block *)
Record window := Window { w_text : string; w_pos : Z; w_left : bool; w_right : bool }.

Definition clip_window (tquery : string) (pos : Z) : outcome window :=
  let qlen := zlen tquery in
  if 70 <? qlen then
    if pos <=? 35 then
      match go_slice tquery 0 70 with
      | Ok t => Ok (Window t pos false true)
      | Panic => Panic
      end
    else
      let trim := pos - 35 in
      let restLen := qlen - trim in
      let trimRight := 70 <? restLen in
      let restLen := if trimRight then 70 else restLen in
      match go_slice tquery trim (trim + restLen) with
      | Ok t => Ok (Window t (pos - trim) true trimRight)
      | Panic => Panic
      end
  else Ok (Window tquery pos false false).

(* the first output line (without "\n") and the number of blanks before the caret *)
Definition line1_of (w : window) : string :=
  (if w_left w then "... " else "") ++ w_text w ++ (if w_right w then " ..." else "").
Definition err_col (w : window) (adjust : Z) : Z :=
  w_pos w + adjust + (if w_left w then 4 else 0).

Definition nl : string := String (ascii_of_N 10) EmptyString.

Definition render_window (w : window) (adjust : Z) : string :=
  line1_of w ++ nl ++ spaces (Z.to_nat (err_col w adjust)) ++ "^--" ++ nl.

(* func outputQueryAndErrPos(query string, pos int, adjust int) string *)
Definition output_query_and_err_pos (fixed : bool) (query : string) (pos adjust : Z)
  : outcome string :=
  let tquery := trim_space query in
  match clip_window tquery (adjust_pos fixed query tquery pos) with
  | Ok w => Ok (render_window w adjust)
  | Panic => Panic
  end.

(* SyntaxError / ExecuteError: same fields, same methods up to the label *)
Inductive errkind := SyntaxErr | ExecuteErr.
Definition kind_label (k : errkind) : string :=
  match k with
  | SyntaxErr => "Syntax Error: "
  | ExecuteErr => "Execute Error: "
  end.

Record qerror := QError {
  e_kind : errkind;
  e_query : string;      (* set by BindQuery *)
  e_msg : string;        (* Message: passed through *)
  e_pos : Z;
  e_pad : Z              (* Padding: DefaultErrorPadding or SetPadding *)
}.

(* func (e *SyntaxError) queryError() string *)
Definition query_error (fixed : bool) (e : qerror) : outcome string :=
  match output_query_and_err_pos fixed (e_query e) (e_pos e) (e_pad e) with
  | Ok ret => Ok (ret ++ generate_pads (e_pad e) ++ kind_label (e_kind e) ++ e_msg e)
  | Panic => Panic
  end.

(* func (e *SyntaxError) simpleError() string *)
Definition simple_error (e : qerror) : string :=
  kind_label (e_kind e) ++ e_msg e ++ " at " ++ fmt_int (e_pos e).

(* func (e *SyntaxError) Error() string *)
Definition error_text (fixed : bool) (e : qerror) : outcome string :=
  if String.eqb (e_query e) "" then Ok (simple_error e) else query_error fixed e.
