(* Model/Eval.v -- executable twin of the row-at-a-time evaluator: expression_exec.go
   (Execute of every node), utils.go (conversions, executeMathOp, execNumberCompare,
   execStringCompare), func.go (function table, toString/toInt/toFloat) and scalar_func.go
   (function bodies), as they are in /repo after the fix: commits D9, D11, D12, D13.

   The field cache (ExecuteCtx) is not part of this twin: a FieldReferenceExpr evaluates its
   definition (cache switched off); Model/Cache.v adds the cache and C05 proves it invisible.
   Not modelled (OutOfModel): json(), JSON field access, regular expressions outside the
   oracle, non-ASCII case mapping, aggregate function results inside scalar expressions. *)
From Coq Require Import List String Ascii ZArith Bool Arith.
Import ListNotations.
From KV Require Import Base.Bytes Base.Num Model.Ast Model.Value.
Open Scope string_scope.

(* ---------------------------------------------------------------- function table (func.go funcMap) *)
(* name -> (NumArgs, VarArgs, ReturnType) *)
Definition func_info (name : string) : option (nat * bool * ty) :=
  if String.eqb name "lower" then Some (1, false, TStr)
  else if String.eqb name "upper" then Some (1, false, TStr)
  else if String.eqb name "int" then Some (1, false, TNumber)
  else if String.eqb name "float" then Some (1, false, TNumber)
  else if String.eqb name "str" then Some (1, false, TStr)
  else if String.eqb name "is_int" then Some (1, false, TBool)
  else if String.eqb name "is_float" then Some (1, false, TBool)
  else if String.eqb name "substr" then Some (3, false, TStr)
  else if String.eqb name "json" then Some (1, false, TJson)
  else if String.eqb name "split" then Some (2, false, TList)
  else if String.eqb name "list" then Some (1, true, TList)
  else if String.eqb name "float_list" then Some (1, true, TList)
  else if String.eqb name "int_list" then Some (1, true, TList)
  else if String.eqb name "flist" then Some (1, true, TList)
  else if String.eqb name "ilist" then Some (1, true, TList)
  else if String.eqb name "len" then Some (1, false, TNumber)
  else if String.eqb name "join" then Some (2, true, TStr)
  else if String.eqb name "strlen" then Some (1, false, TNumber)
  else if String.eqb name "cosine_distance" then Some (2, false, TNumber)
  else if String.eqb name "l2_distance" then Some (2, false, TNumber)
  else None.

(* aggrFuncMap: name -> ReturnType (only needed for FunctionCallExpr.ReturnType) *)
Definition aggr_rtype (name : string) : option ty :=
  if String.eqb name "count" || String.eqb name "sum" || String.eqb name "avg" ||
     String.eqb name "min" || String.eqb name "max" || String.eqb name "quantile"
  then Some TNumber
  else if String.eqb name "json_arrayagg" || String.eqb name "group_concat" then Some TStr
  else None.

(* GetFuncNameFromExpr on the Name child of a call: a NameExpr evaluates to its text *)
Definition call_name (n : expr) : option string :=
  match n with
  | EName _ s => ascii_lower s
  | _ => None
  end.

(* Expression.ReturnType() *)
Fixpoint rtype (e : expr) : ty :=
  match e with
  | EBin _ o l r =>
      match o with
      | OSub | OMul | ODiv => TNumber
      | OAdd => match rtype l with TStr => TStr | _ => TNumber end
      | _ => TBool
      end
  | EField _ _ => TStr
  | EStr _ _ => TStr
  | ENot _ _ => TBool
  | ECall _ n _ =>
      match call_name n with
      | Some nm =>
          match func_info nm with
          | Some (_, _, t) => t
          | None => match aggr_rtype nm with Some t => t | None => TUnknown end
          end
      | None => TUnknown
      end
  | EName _ _ => TIdent
  | ERef _ _ d => rtype d
  | ENum _ _ | EFloat _ _ => TNumber
  | EBool _ _ => TBool
  | EList _ _ => TList
  | EAccess _ _ _ => TStr
  end.

(* ---------------------------------------------------------------- strings.Split / Join *)

Fixpoint drop (n : nat) (s : string) : string :=
  match n, s with
  | O, _ => s
  | S n', String _ s' => drop n' s'
  | S _, EmptyString => EmptyString
  end.

Fixpoint split_aux (fuel : nat) (sep s cur : string) : list string :=
  match fuel with
  | O => [cur]
  | S f =>
      match s with
      | EmptyString => [cur]
      | String c s' =>
          if has_prefix sep s then cur :: split_aux f sep (drop (String.length sep) s) EmptyString
          else split_aux f sep s' (cur ++ String c EmptyString)
      end
  end.

Fixpoint explode (s : string) : list string :=
  match s with
  | EmptyString => []
  | String c s' => String c EmptyString :: explode s'
  end.

(* strings.Split(s, sep); None = outside the model (empty separator on non-ASCII text) *)
Definition split_str (s sep : string) : option (list string) :=
  match sep with
  | EmptyString => if all_ascii s then Some (explode s) else None
  | _ => Some (split_aux (S (String.length s)) sep s EmptyString)
  end.

Fixpoint join_str (sep : string) (l : list string) : string :=
  match l with
  | [] => EmptyString
  | [x] => x
  | x :: l' => x ++ sep ++ join_str sep l'
  end.

Section Eval.
Variable fo : fops.
(* regexp.Compile(pattern) then Match(text): Some b, or None when the pattern does not compile;
   an oracle (Go's regexp package is library code) *)
Variable re_match : bytes -> bytes -> res bool.

Notation value := (value fo).
Notation Fl := (F fo).

(* ---------------------------------------------------------------- conversions (func.go / utils.go) *)

Definition to_string (v : value) : string :=
  match v with
  | VStr s => s
  | VBytes b => b
  | VInt z => str_of_Z z
  | VFlt f => f_fmt fo f
  | VBool true => "true"
  | VBool false => "false"
  | VNil => "<nil>"
  | _ => ""
  end.

(* toInt(value, 0) *)
Definition to_int (v : value) : res Z :=
  let of_text s :=
    match parse_int s with
    | Some z => Ok z
    | None => match f_parse fo s with
              | PF_ok f => match f_trunc fo f with Some z => Ok z | None => OutOfModel end
              | PF_err => Ok 0%Z
              | PF_oom => OutOfModel
              end
    end in
  match v with
  | VStr s | VBytes s => of_text s
  | VInt z => Ok z
  | VFlt f => match f_trunc fo f with Some z => Ok z | None => OutOfModel end
  | _ => Ok 0%Z
  end.

(* toFloat(value, 0.0) *)
Definition to_float (v : value) : res Fl :=
  let of_text s :=
    match f_parse fo s with
    | PF_ok f => Ok f
    | PF_err => Ok (f_zero fo)
    | PF_oom => OutOfModel
    end in
  match v with
  | VStr s | VBytes s => of_text s
  | VInt z => Ok (f_of_Z fo z)
  | VFlt f => Ok f
  | _ => Ok (f_zero fo)
  end.

Definition conv_bytes (v : value) : option bytes :=
  match v with VBytes b | VStr b => Some b | _ => None end.
Definition conv_int (v : value) : option Z := match v with VInt z => Some z | _ => None end.
Definition conv_float (v : value) : option Fl := match v with VFlt f => Some f | _ => None end.

(* executeMathOp; [rpos] is the position of the right operand (divide by zero) *)
Definition math_op (l r : value) (o : op) (rpos : nat) : res value :=
  match conv_int l, conv_int r with
  | Some a, Some b =>
      match o with
      | OAdd => Ok (VInt (add64 a b))
      | OSub => Ok (VInt (sub64 a b))
      | OMul => Ok (VInt (mul64 a b))
      | ODiv => if Z.eqb b 0 then Err (EExec rpos) else Ok (VInt (div64 a b))
      | _ => Err EOther
      end
  | _, _ =>
      let fl :=
        match conv_float l, conv_float r with
        | Some a, Some b => Some (a, b)
        | _, _ =>
            match conv_int l, conv_float r with
            | Some a, Some b => Some (f_of_Z fo a, b)
            | _, _ =>
                match conv_float l, conv_int r with
                | Some a, Some b => Some (a, f_of_Z fo b)
                | _, _ => None
                end
            end
        end in
      match fl with
      | None => Err EOther
      | Some (a, b) =>
          match o with
          | OAdd => Ok (VFlt (fadd fo a b))
          | OSub => Ok (VFlt (fsub fo a b))
          | OMul => Ok (VFlt (fmul fo a b))
          | ODiv => if feqb fo b (f_zero fo) then Err (EExec rpos) else Ok (VFlt (fdiv fo a b))
          | _ => Err EOther
          end
      end
  end.

(* comparison operators as the strings Go passes around *)
Inductive cmpop := CGt | CGte | CLt | CLte | CEq.

(* execNumberCompare *)
Definition number_compare (l r : value) (c : cmpop) : res bool :=
  match conv_int l, conv_int r with
  | Some a, Some b =>
      Ok (match c with
          | CGt => Z.gtb a b | CGte => Z.geb a b | CLt => Z.ltb a b | CLte => Z.leb a b
          | CEq => Z.eqb a b end)
  | li, ri =>
      let fl :=
        match li, conv_float r with
        | Some a, Some b => Some (f_of_Z fo a, b)
        | _, _ =>
            match conv_float l, ri with
            | Some a, Some b => Some (a, f_of_Z fo b)
            | _, _ =>
                match conv_float l, conv_float r with
                | Some a, Some b => Some (a, b)
                | _, _ => None
                end
            end
        end in
      match fl with
      | None => Err EOther
      | Some (a, b) =>
          Ok (match c with
              | CGt => fltb fo b a | CGte => fleb fo b a | CLt => fltb fo a b | CLte => fleb fo a b
              | CEq => feqb fo a b end)
      end
  end.

(* execStringCompare *)
Definition string_compare (l r : value) (c : cmpop) : res bool :=
  match conv_bytes l, conv_bytes r with
  | Some a, Some b =>
      Ok (match c with
          | CGt => bltb b a | CGte => bleb b a | CLt => bltb a b | CLte => bleb a b
          | CEq => String.eqb a b end)
  | _, _ => Err EOther
  end.

(* execEqual on the two evaluated operands *)
Definition equal_values (l r : value) (pos : nat) : res bool :=
  match l with
  | VStr _ | VBytes _ =>
      match conv_bytes l, conv_bytes r with
      | Some a, Some b => Ok (String.eqb a b)
      | _, _ => Err (EExec pos)
      end
  | VInt _ | VFlt _ =>
      (* execNumberCompare(rleft, rright, "="): two integers as integers, otherwise both as
         float64; its error is replaced by the ExecuteError below *)
      match number_compare l r CEq with Ok b => Ok b | _ => Err (EExec pos) end
  | VBool a => match r with VBool b => Ok (Bool.eqb a b) | _ => Err (EExec pos) end
  | _ => Err (EExec pos)
  end.

(* execEqual before the repair of C14/float-equality-fails-at-execution (no float case: a
   float operand on either side ended in the ExecuteError); kept only for the regression
   witness in Properties/C14.v *)
Definition equal_values_pinned (l r : value) (pos : nat) : res bool :=
  match l with
  | VStr _ | VBytes _ =>
      match conv_bytes l, conv_bytes r with
      | Some a, Some b => Ok (String.eqb a b)
      | _, _ => Err (EExec pos)
      end
  | VInt a => match conv_int r with Some b => Ok (Z.eqb a b) | None => Err (EExec pos) end
  | VBool a => match r with VBool b => Ok (Bool.eqb a b) | _ => Err (EExec pos) end
  | _ => Err (EExec pos)
  end.

(* unpackArray (plus the []any case): the elements of a list value *)
Definition unpack_list (v : value) : option (list value) :=
  match v with
  | VStrs l => Some (map VStr l)
  | VInts l => Some (map VInt l)
  | VFlts l => Some (map VFlt l)
  | _ => None
  end.

(* toFloatList *)
Fixpoint parse_floats (l : list bytes) : res (list Fl) :=
  match l with
  | [] => Ok []
  | s :: l' => match f_parse fo s with
               | PF_ok f => do fs <- parse_floats l'; Ok (f :: fs)
               | PF_err => Err EOther
               | PF_oom => OutOfModel
               end
  end.

Definition to_float_list (v : value) : res (list Fl) :=
  match v with
  | VStrs l => parse_floats l
  | VInts l => Ok (map (f_of_Z fo) l)
  | VFlts l => Ok l
  | _ => Err EOther
  end.

Fixpoint dot3 (l r : list Fl) (t1 t2 t3 : Fl) : Fl * Fl * Fl :=
  match l, r with
  | a :: l', b :: r' =>
      dot3 l' r' (fadd fo t1 (fmul fo a b)) (fadd fo t2 (fmul fo a a)) (fadd fo t3 (fmul fo b b))
  | _, _ => (t1, t2, t3)
  end.

Definition cosine_distance (l r : list Fl) : res Fl :=
  if Nat.eqb (List.length l) (List.length r) then
    let '(t1, t2, t3) := dot3 l r (f_zero fo) (f_zero fo) (f_zero fo) in
    Ok (fsub fo (f_one fo) (fdiv fo t1 (fmul fo (fsqrt fo t2) (fsqrt fo t3))))
  else Err EOther.

Fixpoint l2_total (l r : list Fl) (tot : Fl) : Fl :=
  match l, r with
  | a :: l', b :: r' => let d := fabs fo (fsub fo a b) in l2_total l' r' (fadd fo tot (fmul fo d d))
  | _, _ => tot
  end.

Definition l2_distance (l r : list Fl) : res Fl :=
  if Nat.eqb (List.length l) (List.length r) then Ok (fsqrt fo (l2_total l r (f_zero fo)))
  else Err EOther.

(* getListLength *)
Definition list_length (v : value) : option Z :=
  match v with
  | VStr s | VBytes s => Some (Z.of_nat (String.length s))
  | VInt _ | VFlt _ => Some 0%Z
  | VStrs l => Some (Z.of_nat (List.length l))
  | VInts l => Some (Z.of_nat (List.length l))
  | VFlts l => Some (Z.of_nat (List.length l))
  | _ => None
  end.

(* substr body after its three arguments are known *)
Definition substr_val (s : string) (start len : Z) : string :=
  let vlen := Z.of_nat (String.length s) in
  let en := Z.min len vlen in
  if (start <? 0)%Z || (en <=? start)%Z then ""
  else String.substring (Z.to_nat start) (Z.to_nat (en - start)) s.

Fixpoint all_ok {A} (l : list (res A)) : res (list A) :=
  match l with
  | [] => Ok []
  | r :: l' => do a <- r; do as_ <- all_ok l'; Ok (a :: as_)
  end.

Fixpoint map_res {A B} (f : A -> res B) (l : list A) : res (list B) :=
  match l with
  | [] => Ok []
  | a :: l' => do b <- f a; do bs <- map_res f l'; Ok (b :: bs)
  end.

(* funcToList: the kind is decided by the first argument *)
Definition list_use_int (first : value) : res bool :=
  let of_text s :=
    match parse_int s with
    | Some _ => Ok true
    | None => match f_parse fo s with PF_oom => OutOfModel | _ => Ok false end
    end in
  match first with
  | VStr s | VBytes s => of_text s
  | VInt _ => Ok true
  | _ => Ok false
  end.

(* The body of a scalar function.  [args]: the argument expressions (for ReturnType checks
   and positions), [rs]: their evaluation results in order (a body evaluates its arguments
   left to right and stops at the first error, which [bind] reproduces). *)
Definition nth_res (rs : list (res value)) (i : nat) : res value := nth i rs Panic.
Definition nth_arg (args : list expr) (i : nat) : expr := nth i args (EBool 0 false).

Definition apply_func (name : string) (args : list expr) (rs : list (res value)) : res value :=
  if String.eqb name "lower" then
    do a <- nth_res rs 0;
    match ascii_lower (to_string a) with Some s => Ok (VStr s) | None => OutOfModel end
  else if String.eqb name "upper" then
    do a <- nth_res rs 0;
    match ascii_upper (to_string a) with Some s => Ok (VStr s) | None => OutOfModel end
  else if String.eqb name "int" then
    do a <- nth_res rs 0; do z <- to_int a; Ok (VInt z)
  else if String.eqb name "float" then
    do a <- nth_res rs 0; do f <- to_float a; Ok (VFlt f)
  else if String.eqb name "str" then
    do a <- nth_res rs 0; Ok (VStr (to_string a))
  else if String.eqb name "is_int" then
    do a <- nth_res rs 0;
    match a with
    | VStr s | VBytes s => Ok (VBool (match parse_int s with Some _ => true | None => false end))
    | VInt _ => Ok (VBool true)
    | _ => Ok (VBool false)
    end
  else if String.eqb name "is_float" then
    do a <- nth_res rs 0;
    match a with
    | VStr s | VBytes s =>
        match f_parse fo s with
        | PF_ok _ => Ok (VBool true) | PF_err => Ok (VBool false) | PF_oom => OutOfModel
        end
    | VFlt _ => Ok (VBool true)
    | _ => Ok (VBool false)
    end
  else if String.eqb name "substr" then
    do a <- nth_res rs 0;
    if negb (ty_eqb (rtype (nth_arg args 1)) TNumber) then Err (EExec (epos (nth_arg args 1)))
    else if negb (ty_eqb (rtype (nth_arg args 2)) TNumber) then Err (EExec (epos (nth_arg args 2)))
    else
      do b <- nth_res rs 1; do st <- to_int b;
      do c <- nth_res rs 2; do ln <- to_int c;
      Ok (VStr (substr_val (to_string a) st ln))
  else if String.eqb name "json" then OutOfModel
  else if String.eqb name "split" then
    do a <- nth_res rs 0;
    if negb (ty_eqb (rtype (nth_arg args 1)) TStr) then Err (EExec (epos (nth_arg args 1)))
    else
      do b <- nth_res rs 1;
      match split_str (to_string a) (to_string b) with
      | Some l => Ok (VStrs l)
      | None => OutOfModel
      end
  else if String.eqb name "join" then
    if negb (ty_eqb (rtype (nth_arg args 0)) TStr) then Err (EExec (epos (nth_arg args 0)))
    else
      do sep <- nth_res rs 0;
      do vals <- all_ok (tl rs);
      Ok (VStr (join_str (to_string sep) (map to_string vals)))
  else if String.eqb name "int_list" || String.eqb name "ilist" then
    do vals <- all_ok rs; do zs <- map_res to_int vals; Ok (VInts zs)
  else if String.eqb name "float_list" || String.eqb name "flist" then
    do vals <- all_ok rs; do fs <- map_res to_float vals; Ok (VFlts fs)
  else if String.eqb name "list" then
    match rs with
    | [] => Ok (VInts [])
    | r0 :: _ =>
        do first <- r0;
        do ui <- list_use_int first;
        do vals <- all_ok rs;
        if ui then (do zs <- map_res to_int vals; Ok (VInts zs))
        else (do fs <- map_res to_float vals; Ok (VFlts fs))
    end
  else if String.eqb name "len" then
    do a <- nth_res rs 0;
    match list_length a with
    | Some n => Ok (VInt n)
    | None => Err (EExec (epos (nth_arg args 0)))
    end
  else if String.eqb name "strlen" then
    do a <- nth_res rs 0; Ok (VInt (Z.of_nat (String.length (to_string a))))
  else if String.eqb name "cosine_distance" then
    do a <- nth_res rs 0; do b <- nth_res rs 1;
    do l <- to_float_list a; do r <- to_float_list b;
    do d <- cosine_distance l r; Ok (VFlt d)
  else if String.eqb name "l2_distance" then
    do a <- nth_res rs 0; do b <- nth_res rs 1;
    do l <- to_float_list a; do r <- to_float_list b;
    do d <- l2_distance l r; Ok (VFlt d)
  else Err EOther.

(* IN over an explicit list: elements are evaluated and compared left to right, the first
   failing type test / evaluation / comparison ends the loop *)
Fixpoint in_list (left : value) (number : bool) (items : list expr) (rs : list (res value)) : res bool :=
  match items, rs with
  | it :: items', r :: rs' =>
      if negb (ty_eqb (rtype it) (if number then TNumber else TStr)) then Err (EExec (epos it))
      else
        do lv <- r;
        do c <- (if number then number_compare left lv CEq else string_compare left lv CEq);
        if c then Ok true else in_list left number items' rs'
  | _, _ => Ok false
  end.

(* IN over a list value: a failing comparison makes the whole test false (Go returns false, nil) *)
Fixpoint in_values (left : value) (number : bool) (vals : list value) : bool :=
  match vals with
  | [] => false
  | lv :: vals' =>
      match (if number then number_compare left lv CEq else string_compare left lv CEq) with
      | Ok true => true
      | Ok false => in_values left number vals'
      | _ => false
      end
  end.

(* parsed value of a NumberExpr / FloatExpr (newNumberExpr / newFloatExpr: 0 on a parse error) *)
Definition num_value (data : string) : Z := match parse_int data with Some z => z | None => 0%Z end.
Definition float_value (data : string) : res Fl :=
  match f_parse fo data with PF_ok f => Ok f | PF_err => Ok (f_zero fo) | PF_oom => OutOfModel end.

(* Expression.Execute(kv, ctx) with the cache off *)
Fixpoint eval (k v : bytes) (e : expr) {struct e} : res value :=
  match e with
  | EStr _ s => Ok (VBytes s)
  | EField _ KeyKW => Ok (VBytes k)
  | EField _ ValueKW => Ok (VBytes v)
  | EName _ s => Ok (VStr s)
  | ENum _ d => Ok (VInt (num_value d))
  | EFloat _ d => do f <- float_value d; Ok (VFlt f)
  | EBool _ b => Ok (VBool b)
  | EList _ l => Ok (VExprs (List.length l))
  | ERef _ _ d => eval k v d
  | ENot _ r =>
      do rv <- eval k v r;
      match rv with VBool b => Ok (VBool (negb b)) | _ => Err (EExec (epos r)) end
  | ECall p n args =>
      match n with
      | EName _ _ =>
          match call_name n with
          | None => OutOfModel
          | Some nm =>
              match func_info nm with
              | None => Err (ESyntax p)
              | Some (nargs, varargs, _) =>
                  let cnt := List.length args in
                  if (negb varargs && negb (Nat.eqb cnt nargs)) || (varargs && Nat.ltb cnt nargs)
                  then Err (EExec p)
                  else apply_func nm args (map (eval k v) args)
              end
          end
      | _ => Err (ESyntax p)
      end
  | EAccess p l fn =>
      do lv <- eval k v l;
      match fn with
      | EStr _ _ =>
          match lv with
          | VStr "" => Ok (VStr "")
          | _ => Err (EExec (epos l))          (* JSON values are outside the model *)
          end
      | ENum _ d =>
          let idx := num_value d in
          match lv with
          | VStrs xs => Ok (match nth_error xs (Z.to_nat idx) with Some x => VStr x | None => VStr "" end)
          | VInts xs => Ok (match nth_error xs (Z.to_nat idx) with Some x => VInt x | None => VStr "" end)
          | VFlts xs => Ok (match nth_error xs (Z.to_nat idx) with Some x => VFlt x | None => VStr "" end)
          | VStr "" => Ok (VStr "")
          | _ => Err (EExec (epos l))
          end
      | _ => Err (ESyntax (epos fn))
      end
  | EBin p o l r =>
      let both (f : value -> value -> res value) : res value :=
        do lv <- eval k v l; do rv <- eval k v r; f lv rv in
      let compare (c : cmpop) : res value :=
        both (fun lv rv =>
          do b <- (match rtype l with
                   | TStr => string_compare lv rv c
                   | _ => number_compare lv rv c
                   end); Ok (VBool b)) in
      match o with
      | OEq => both (fun lv rv => do b <- equal_values lv rv p; Ok (VBool b))
      | ONotEq => both (fun lv rv => do b <- equal_values lv rv p; Ok (VBool (negb b)))
      | OPrefixMatch =>
          both (fun lv rv =>
            match conv_bytes lv, conv_bytes rv with
            | Some a, Some b => Ok (VBool (has_prefix b a))
            | _, _ => Err (EExec p)
            end)
      | ORegExpMatch =>
          both (fun lv rv =>
            match conv_bytes lv, conv_bytes rv with
            | Some a, Some b => do m <- re_match b a; Ok (VBool m)
            | _, _ => Err (EExec p)
            end)
      | OAnd | OKWAnd =>
          do lv <- eval k v l;
          match lv with
          | VBool false => Ok (VBool false)
          | VBool true =>
              do rv <- eval k v r;
              match rv with VBool b => Ok (VBool b) | _ => Err (EExec (epos l)) end
          | _ => Err (EExec (epos l))
          end
      | OOr | OKWOr =>
          do lv <- eval k v l;
          match lv with
          | VBool true => Ok (VBool true)
          | VBool false =>
              do rv <- eval k v r;
              match rv with VBool b => Ok (VBool b) | _ => Err (EExec (epos l)) end
          | _ => Err (EExec (epos l))
          end
      | OAdd =>
          match rtype l with
          | TStr => both (fun lv rv => Ok (VStr (to_string lv ++ to_string rv)))
          | _ => both (fun lv rv => math_op lv rv OAdd (epos r))
          end
      | OSub => both (fun lv rv => math_op lv rv OSub (epos r))
      | OMul => both (fun lv rv => math_op lv rv OMul (epos r))
      | ODiv => both (fun lv rv => math_op lv rv ODiv (epos r))
      | OGt => compare CGt
      | OGte => compare CGte
      | OLt => compare CLt
      | OLte => compare CLte
      | OIn =>
          let number := match rtype l with TStr => false | _ => true end in
          do lv <- eval k v l;
          match r with
          | EList _ items =>
              do b <- in_list lv number items (map (eval k v) items); Ok (VBool b)
          | ECall _ _ _ | ERef _ _ _ =>
              if negb (ty_eqb (rtype r) TList) then Err (EExec (epos r))
              else
                do fv <- eval k v r;
                match unpack_list fv with
                | Some vals => Ok (VBool (in_values lv number vals))
                | None => Err (EExec (epos r))
                end
          | _ => Err (EExec (if number then epos r else p))
          end
      | OBetween =>
          let number := match rtype l with TStr => false | _ => true end in
          let want := if number then TNumber else TStr in
          let cmp a b c := if number then number_compare a b c else string_compare a b c in
          do lv <- eval k v l;
          match r with
          | EList _ [lo; hi] =>
              if negb (ty_eqb (rtype lo) want) then Err (EExec (epos lo))
              else if negb (ty_eqb (rtype hi) want) then Err (EExec (epos hi))
              else
                do lov <- eval k v lo; do hiv <- eval k v hi;
                do c <- cmp lov hiv CLt;
                if negb c then Err (EExec p)
                else
                  do lc <- cmp lov lv CLte;
                  if negb lc then Ok (VBool false)
                  else (do uc <- cmp lv hiv CLte; Ok (VBool uc))
          | _ => Err (EExec (epos r))
          end
      | ONot => Err (EExec p)
      end
  end.

(* FilterExec.Filter: the WHERE clause on one pair *)
Definition filter_row (k v : bytes) (e : expr) : res bool :=
  do r <- eval k v e;
  match r with VBool b => Ok b | _ => Err (EExec (epos e)) end.

End Eval.
