(* Model/EvalVec.v -- executable twin of the batch (vector) evaluator: expression_exec_vec.go
   (ExecuteBatch of every node) and scalar_func_vec.go (every vector function body), as they
   are in /repo after the fix: commits D10, D27 and D29 (batch BETWEEN did not type-check the
   upper bound of a text range).

   A chunk is a list of (key, value) pairs; ExecuteBatch returns one value per pair or one
   error for the whole chunk.  The Go loops `for i := 0; i < len(chunk); i++ { x[i] = f(x[i]) }`
   become [vmap]/[vmap2]/[vmap3]: the first failing index decides the error.  Every result
   vector has length len(chunk) (Proofs/EvalVecProofs.v, eval_batch_length); where the Go code
   would index past the end of a shorter vector the twin says [Panic].

   The field / chunk cache is switched off in this twin (a FieldReferenceExpr evaluates its
   definition), like in Model/Eval.v: the cache is C05's subject.
   Not modelled (OutOfModel): json(), JSON values, regular expressions outside the oracle,
   non-ASCII case mapping, FunctionCallExpr.Result (aggregate results in scalar expressions).

   [fixed_between = true] is the code after the fix for D29, [false] the pinned behaviour
   (`!number && lexpr.ReturnType() != TSTR` tested twice, the upper bound never), kept for the
   regression witness exec_batch_ok_pinned_refuted. *)
From Coq Require Import List String Ascii ZArith Bool Arith.
Import ListNotations.
From KV Require Import Base.Bytes Base.Num Model.Ast Model.Value Model.Eval.
Open Scope string_scope.

Definition kvpair := (bytes * bytes)%type.

Section EvalVec.
Variable fo : fops.
Variable re_match : bytes -> bytes -> res bool.
Variable fixed_between : bool.

Notation value := (value fo).

(* ---------------------------------------------------------------- the per-index loops *)

(* for i { x[i] = f(x[i]) } *)
Definition vmap (f : value -> res value) (xs : list value) : res (list value) := map_res f xs.

(* for i { x[i] = f(x[i], y[i]) } *)
Fixpoint vmap2 (f : value -> value -> res value) (xs ys : list value) : res (list value) :=
  match xs, ys with
  | [], [] => Ok []
  | x :: xs', y :: ys' => do z <- f x y; do zs <- vmap2 f xs' ys'; Ok (z :: zs)
  | _, _ => Panic
  end.

(* for i { x[i] = f(x[i], y[i], z[i]) } *)
Fixpoint vmap3 (f : value -> value -> value -> res value) (xs ys zs : list value) : res (list value) :=
  match xs, ys, zs with
  | [], [], [] => Ok []
  | x :: xs', y :: ys', z :: zs' => do w <- f x y z; do ws <- vmap3 f xs' ys' zs'; Ok (w :: ws)
  | _, _, _ => Panic
  end.

(* ---------------------------------------------------------------- execEqualBatch *)

(* the kind is decided once, by the dynamic type of rleft[0] *)
Inductive eqkind := KStr | KNum | KBool.

Definition eq_kind (v : value) : option eqkind :=
  match v with
  | VStr _ | VBytes _ => Some KStr
  | VInt _ | VFlt _ => Some KNum
  | VBool _ => Some KBool
  | _ => None
  end.

Definition eq_at (kd : eqkind) (neg : bool) (pos : nat) (l r : value) : res value :=
  let out (b : bool) := Ok (VBool (if neg then negb b else b)) in
  match kd with
  | KStr => match conv_bytes fo l, conv_bytes fo r with
            | Some a, Some b => out (String.eqb a b)
            | _, _ => Err (EExec pos)
            end
  | KNum => match number_compare fo l r CEq with      (* execNumberCompare(rleft[i], rright[i], "=") *)
            | Ok b => out b
            | _ => Err (EExec pos)
            end
  | KBool => match l, r with
             | VBool a, VBool b => out (Bool.eqb a b)
             | _, _ => Err (EExec pos)
             end
  end.

Definition equal_batch (ch : list kvpair) (neg : bool) (pos : nat) (ls rs : list value) : res (list value) :=
  match ch with
  | [] => Ok []                                 (* len(chunk) == 0: return nil, nil *)
  | _ :: _ =>
      match ls with
      | [] => Panic                             (* rleft[0] *)
      | first :: _ =>
          match eq_kind first with
          | None => Err (EExec pos)
          | Some kd => vmap2 (eq_at kd neg pos) ls rs
          end
      end
  end.

(* ---------------------------------------------------------------- execInBatch *)

(* first loop of the ListExpr case: type test, then batch evaluation of every element *)
Fixpoint in_cols (number : bool) (items : list expr) (rs : list (res (list value))) : res (list (list value)) :=
  match items, rs with
  | it :: items', r :: rs' =>
      if negb (ty_eqb (rtype it) (if number then TNumber else TStr)) then Err (EExec (epos it))
      else do col <- r; do cols <- in_cols number items' rs'; Ok (col :: cols)
  | _, _ => Ok []
  end.

(* inner loop over j for one row: compare until the first hit; a failing comparison ends the
   whole batch with that error *)
Fixpoint in_row (number : bool) (left : value) (vals : list (res value)) : res bool :=
  match vals with
  | [] => Ok false
  | r :: vals' =>
      do lv <- r;
      do c <- (if number then number_compare fo left lv CEq else string_compare fo left lv CEq);
      if c then Ok true else in_row number left vals'
  end.

(* listValues[j][i] for the current i: the heads of the columns *)
Definition heads (cols : list (list value)) : list (res value) :=
  map (fun c => match c with [] => Panic | v :: _ => Ok v end) cols.
Definition tails (cols : list (list value)) : list (list value) := map (@tl value) cols.

Fixpoint in_rows (number : bool) (lefts : list value) (cols : list (list value)) : res (list value) :=
  match lefts with
  | [] => Ok []
  | lv :: lefts' =>
      do b <- in_row number lv (heads cols);
      do rest <- in_rows number lefts' (tails cols);
      Ok (VBool b :: rest)
  end.

(* the FunctionCallExpr / FieldReferenceExpr case, one row *)
Definition in_fn_at (number : bool) (pos : nat) (left fret : value) : res value :=
  match unpack_list fo fret with
  | None => Err (EExec pos)
  | Some vals => do b <- in_row number left (map (@Ok value) vals); Ok (VBool b)
  end.

(* ---------------------------------------------------------------- execBetweenBatch, one row *)
Definition between_at (number : bool) (pos : nat) (lo hi left : value) : res value :=
  let cmp a b c := if number then number_compare fo a b c else string_compare fo a b c in
  do c <- cmp lo hi CLt;
  if negb c then Err (EExec pos)
  else
    do lc <- cmp lo left CLte;
    if negb lc then Ok (VBool false)
    else (do uc <- cmp left hi CLte; Ok (VBool uc)).

(* ---------------------------------------------------------------- FieldAccessExpr *)
(* execDictAccessBatch: JSON values are outside the model; only the `case string` arm is left *)
Definition dict_access_at (lpos : nat) (lv : value) : res value :=
  match lv with
  | VStr "" => Ok (VStr "")
  | _ => Err (EExec lpos)
  end.

(* execListAccessBatch *)
Definition list_access_at (idx : Z) (lpos : nat) (lv : value) : res value :=
  match lv with
  | VStrs xs => Ok (match nth_error xs (Z.to_nat idx) with Some x => VStr x | None => VStr "" end)
  | VInts xs => Ok (match nth_error xs (Z.to_nat idx) with Some x => VInt x | None => VStr "" end)
  | VFlts xs => Ok (match nth_error xs (Z.to_nat idx) with Some x => VFlt x | None => VStr "" end)
  | VStr "" => Ok (VStr "")
  | _ => Err (EExec lpos)
  end.

(* ---------------------------------------------------------------- scalar_func_vec.go *)

Definition nth_col (cols : list (res (list value))) (i : nat) : res (list value) := nth i cols Panic.

(* The vector body of a scalar function.  [args]: the argument expressions, [cols]: their
   ExecuteBatch results in order (consumed left to right through [bind], like the Go code).
   join / int_list / float_list / list loop over the ROW body: [rowbody] is
   funcXxx(chunk[i], args, ctx) for every i. *)
Definition apply_func_vec (name : string) (args : list expr) (ch : list kvpair)
           (cols : list (res (list value))) : res (list value) :=
  let rowbody :=
    map_res (fun kv : kvpair =>
               apply_func fo name args (map (eval fo re_match (fst kv) (snd kv)) args)) ch in
  if String.eqb name "lower" then
    do xs <- nth_col cols 0;
    vmap (fun a => match ascii_lower (to_string fo a) with Some s => Ok (VStr s) | None => OutOfModel end) xs
  else if String.eqb name "upper" then
    do xs <- nth_col cols 0;
    vmap (fun a => match ascii_upper (to_string fo a) with Some s => Ok (VStr s) | None => OutOfModel end) xs
  else if String.eqb name "int" then
    do xs <- nth_col cols 0; vmap (fun a => do z <- to_int fo a; Ok (VInt z)) xs
  else if String.eqb name "float" then
    do xs <- nth_col cols 0; vmap (fun a => do f <- to_float fo a; Ok (VFlt f)) xs
  else if String.eqb name "str" then
    do xs <- nth_col cols 0; vmap (fun a => Ok (VStr (to_string fo a))) xs
  else if String.eqb name "is_int" then
    do xs <- nth_col cols 0;
    vmap (fun a => match a with
                   | VStr s | VBytes s => Ok (VBool (match parse_int s with Some _ => true | None => false end))
                   | VInt _ => Ok (VBool true)
                   | _ => Ok (VBool false)
                   end) xs
  else if String.eqb name "is_float" then
    do xs <- nth_col cols 0;
    vmap (fun a => match a with
                   | VStr s | VBytes s =>
                       match f_parse fo s with
                       | PF_ok _ => Ok (VBool true) | PF_err => Ok (VBool false) | PF_oom => OutOfModel
                       end
                   | VFlt _ => Ok (VBool true)
                   | _ => Ok (VBool false)
                   end) xs
  else if String.eqb name "substr" then
    if negb (ty_eqb (rtype (nth_arg args 1)) TNumber) then Err (EExec (epos (nth_arg args 1)))
    else if negb (ty_eqb (rtype (nth_arg args 2)) TNumber) then Err (EExec (epos (nth_arg args 2)))
    else
      do xs <- nth_col cols 0; do ss <- nth_col cols 1; do ls <- nth_col cols 2;
      vmap3 (fun a b c => do st <- to_int fo b; do ln <- to_int fo c;
                          Ok (VStr (substr_val (to_string fo a) st ln))) xs ss ls
  else if String.eqb name "json" then OutOfModel
  else if String.eqb name "split" then
    if negb (ty_eqb (rtype (nth_arg args 1)) TStr) then Err (EExec (epos (nth_arg args 1)))
    else
      do xs <- nth_col cols 0; do ss <- nth_col cols 1;
      vmap2 (fun a b => match split_str (to_string fo a) (to_string fo b) with
                        | Some l => Ok (VStrs l)
                        | None => OutOfModel
                        end) xs ss
  else if String.eqb name "join" then rowbody
  else if String.eqb name "int_list" || String.eqb name "ilist" then rowbody
  else if String.eqb name "float_list" || String.eqb name "flist" then rowbody
  else if String.eqb name "list" then
    match args, ch with
    | [], _ | _, [] => Ok []                    (* len(args) == 0 || len(chunk) == 0: nil, nil *)
    | _, _ => rowbody
    end
  else if String.eqb name "len" then
    do xs <- nth_col cols 0;
    vmap (fun a => match list_length fo a with
                   | Some n => Ok (VInt n)
                   | None => Err (EExec (epos (nth_arg args 0)))
                   end) xs
  else if String.eqb name "strlen" then
    do xs <- nth_col cols 0; vmap (fun a => Ok (VInt (Z.of_nat (String.length (to_string fo a))))) xs
  else if String.eqb name "cosine_distance" then
    do xs <- nth_col cols 0; do ys <- nth_col cols 1;
    vmap2 (fun a b => do l <- to_float_list fo a; do r <- to_float_list fo b;
                      do d <- cosine_distance fo l r; Ok (VFlt d)) xs ys
  else if String.eqb name "l2_distance" then
    do xs <- nth_col cols 0; do ys <- nth_col cols 1;
    vmap2 (fun a b => do l <- to_float_list fo a; do r <- to_float_list fo b;
                      do d <- l2_distance fo l r; Ok (VFlt d)) xs ys
  else Err EOther.

(* ---------------------------------------------------------------- Expression.ExecuteBatch(chunk, ctx), cache off *)
Fixpoint eval_batch (e : expr) (ch : list kvpair) {struct e} : res (list value) :=
  match e with
  | EStr _ s => Ok (map (fun _ => VBytes s) ch)
  | EField _ KeyKW => Ok (map (fun kv : kvpair => VBytes (fst kv)) ch)
  | EField _ ValueKW => Ok (map (fun kv : kvpair => VBytes (snd kv)) ch)
  | EName _ s => Ok (map (fun _ => VStr s) ch)
  | ENum _ d => Ok (map (fun _ => VInt (num_value d)) ch)
  | EFloat _ d => do f <- float_value fo d; Ok (map (fun _ => VFlt f) ch)
  | EBool _ b => Ok (map (fun _ => VBool b) ch)
  | EList _ l => Ok (map (fun _ => VExprs (List.length l)) ch)
  | ERef _ _ d => eval_batch d ch
  | ENot _ r =>
      do rs <- eval_batch r ch;
      vmap (fun rv => match rv with VBool b => Ok (VBool (negb b)) | _ => Err (EExec (epos r)) end) rs
  | ECall p n args =>
      match n with
      | EName _ _ =>
          match call_name n with
          | None => OutOfModel
          | Some nm =>
              match func_info nm with
              | None => Err (ESyntax p)
              | Some (nargs, varargs, _) =>
                  let cnt := List.length args in
                  if (negb varargs && negb (Nat.eqb cnt nargs)) || (varargs && Nat.ltb cnt nargs)
                  then Err (EExec p)
                  else apply_func_vec nm args ch (map (fun a => eval_batch a ch) args)
              end
          end
      | _ => Err (ESyntax p)
      end
  | EAccess p l fn =>
      do ls <- eval_batch l ch;
      match fn with
      | EStr _ _ => vmap (dict_access_at (epos l)) ls
      | ENum _ d => vmap (list_access_at (num_value d) (epos l)) ls
      | _ => Err (ESyntax (epos fn))
      end
  | EBin p o l r =>
      let both (f : value -> value -> res value) : res (list value) :=
        do ls <- eval_batch l ch; do rs <- eval_batch r ch; vmap2 f ls rs in
      let compare (c : cmpop) : res (list value) :=
        match rtype l with
        | TStr => both (fun lv rv => do b <- string_compare fo lv rv c; Ok (VBool b))
        | _ => both (fun lv rv => do b <- number_compare fo lv rv c; Ok (VBool b))
        end in
      let andor (is_and : bool) : res (list value) :=
        both (fun lv rv =>
                match lv, rv with
                | VBool a, VBool b => Ok (VBool (if is_and then a && b else a || b))
                | _, _ => Err (EExec p)
                end) in
      match o with
      | OEq => do ls <- eval_batch l ch; do rs <- eval_batch r ch; equal_batch ch false p ls rs
      | ONotEq => do ls <- eval_batch l ch; do rs <- eval_batch r ch; equal_batch ch true p ls rs
      | OPrefixMatch =>
          both (fun lv rv =>
            match conv_bytes fo lv, conv_bytes fo rv with
            | Some a, Some b => Ok (VBool (has_prefix b a))
            | _, _ => Err (EExec p)
            end)
      | ORegExpMatch =>
          both (fun lv rv =>
            match conv_bytes fo lv, conv_bytes fo rv with
            | Some a, Some b => do m <- re_match b a; Ok (VBool m)
            | _, _ => Err (EExec p)
            end)
      | OAnd | OKWAnd => andor true
      | OOr | OKWOr => andor false
      | OAdd =>
          match rtype l with
          | TStr =>
              both (fun lv rv =>
                match conv_bytes fo lv, conv_bytes fo rv with
                | Some a, Some b => Ok (VBytes (a ++ b))
                | _, _ => Err (EExec p)
                end)
          | _ => both (fun lv rv => math_op fo lv rv OAdd (epos r))
          end
      | OSub => both (fun lv rv => math_op fo lv rv OSub (epos r))
      | OMul => both (fun lv rv => math_op fo lv rv OMul (epos r))
      | ODiv => both (fun lv rv => math_op fo lv rv ODiv (epos r))
      | OGt => compare CGt
      | OGte => compare CGte
      | OLt => compare CLt
      | OLte => compare CLte
      | OIn =>
          let number := match rtype l with TStr => false | _ => true end in
          do ls <- eval_batch l ch;
          match r with
          | EList _ items =>
              do cols <- in_cols number items (map (fun it => eval_batch it ch) items);
              in_rows number ls cols
          | ECall _ _ _ | ERef _ _ _ =>
              do frets <- eval_batch r ch;
              vmap2 (in_fn_at number p) ls frets
          | _ => Err (EExec p)
          end
      | OBetween =>
          let number := match rtype l with TStr => false | _ => true end in
          let want := if number then TNumber else TStr in
          do ls <- eval_batch l ch;
          match r with
          | EList _ [lo; hi] =>
              if negb (ty_eqb (rtype lo) want) then Err (EExec (epos lo))
              else if (number || fixed_between) && negb (ty_eqb (rtype hi) want) then Err (EExec (epos hi))
              else
                do los <- eval_batch lo ch; do his <- eval_batch hi ch;
                vmap3 (between_at number p) los his ls
          | _ => Err (EExec (epos r))
          end
      | ONot => Err (EExec p)
      end
  end.

(* FilterExec.FilterBatch (filterChunk): the WHERE clause on one chunk *)
Definition filter_batch (e : expr) (ch : list kvpair) : res (list bool) :=
  do rs <- eval_batch e ch;
  map_res (fun r => match r with VBool b => Ok b | _ => Err (EExec (epos e)) end) rs.

End EvalVec.
