(* Model/ExplainText.v -- twin of the scan nodes' Explain() line (scan_plan.go: String() of
   FullScanPlan / PrefixScanPlan / RangeScanPlan / MultiGetPlan, plan.go: EmptyResultPlan;
   expression_exec.go: FilterExec.Explain = Ast.Expr.String()).  Only the access-path part and
   the filter part are modelled -- these ARE the whole line of a scan node; the lines of the
   nodes above it (projection, aggregate, order, limit) are not modelled.

     explain_head sc          the line up to and including  Filter = '   (None: EmptyResultPlan,
                              which shows no filter)
     explain_scan sc f        the whole line for the scan node [sc] running the filter tree [f]
     explain_filter_text sc l the filter text cut out of the line l of a node with access path sc
     case_item_eq             two lexemes-with-gap that differ at most in the letter case of a word
                              (used by keyword_case_irrelevant)

   No proofs in this file. *)
From Coq Require Import String Ascii List Bool Arith.
From KV Require Import Base.Bytes Model.Token Model.Ast Model.Lexer Model.ExprParser Spec.LexSpec
                       Model.RenderText Model.ScanIO.
Import ListNotations.
Local Open Scope string_scope.

(* convertByteToString *)
Definition opt_bytes_text (b : option bytes) : string :=
  match b with None => "<nil>" | Some s => s end.

Definition explain_head (sc : scan) : option string :=
  match sc with
  | SEmpty => None
  | SFull => Some "FullScanPlan{Filter = '"
  | SPrefix p => Some ("PrefixScanPlan{Prefix = '" ++ p ++ "', Filter = '")
  | SRange lo hi =>
      Some ("RangeScanPlan{Start = '" ++ opt_bytes_text lo ++ "', End = '" ++ opt_bytes_text hi
            ++ "', Filter = '")
  | SMget keys => Some ("MultiGetPlan{Keys = <" ++ join ", " keys ++ ">, Filter = '")
  end.

Definition explain_scan (sc : scan) (f : expr) : string :=
  match explain_head sc with
  | None => "EmptyResultPlan"
  | Some h => h ++ render_text f ++ "'}"
  end.

(* what a reader of the line (and the harness) cuts out: everything between the head, whose
   length is known from the access path, and the closing  '}  *)
Definition explain_filter_text (sc : scan) (line : string) : option string :=
  match explain_head sc with
  | None => None
  | Some h => Some (substring (String.length h) (String.length line - String.length h - 2) line)
  end.

(* ------------------------------------------------------------------ letter case of words *)

Definition case_lexeme_eq (a b : lexeme) : Prop :=
  match a, b with
  | LWord x, LWord y => to_lower x = to_lower y
  | _, _ => a = b
  end.

Definition case_item_eq (i j : LexSpec.item) : Prop :=
  fst i = fst j /\ case_lexeme_eq (snd i) (snd j).
