(* Model/ExprParser.v -- twin of the expression part of parser.go (precedence climbing, IN and
   BETWEEN right-hand sides, unary !, primary, call, field-access chain), of Token.Precedence()
   (lexer.go), BuildOp (expression.go) and of Expression.String() (expression.go).

   The parser state of Go (p.toks, p.pos, p.tok) is the list of remaining tokens: its head is
   p.tok, [] is p.tok == nil.  p.exprLev is write-only in Go and p.nestLev only guards against
   more than 1e5 nested calls; neither is modelled (the harness keeps inputs far below that).
   Every Go function is one Gallina function; Go's loops are the *_loop / *_args / *_items
   functions.  All functions recurse on one fuel argument that decreases at every call.

   No proofs in this file. *)
From Coq Require Import String List Arith Bool.
Import ListNotations.
From KV Require Import Model.Token Model.Ast.
Local Open Scope string_scope.

(* ------------------------------------------------------------------ outcomes *)

Inductive pres (A : Type) : Type :=
  | POk (a : A) (rest : list token)   (* value, and the tokens not consumed (head = p.tok) *)
  | PErr (p : option nat)             (* *SyntaxError with Pos p; None is Pos -1 (EOF) *)
  | PPanic                            (* nil dereference in Go *)
  | PFuel.                            (* fuel exhausted: never a result, see fuel_of *)
Arguments POk {A} a rest.
Arguments PErr {A} p.
Arguments PPanic {A}.
Arguments PFuel {A}.

Definition bind {A B} (r : pres A) (f : A -> list token -> pres B) : pres B :=
  match r with
  | POk a ts => f a ts
  | PErr p => PErr p
  | PPanic => PPanic
  | PFuel => PFuel
  end.

(* ------------------------------------------------------------------ lexer.go: Token.Precedence *)

Definition LowestPrec : nat := 0.

Definition precedence (t : token) : nat :=
  match tp t with
  | OPERATOR =>
      let d := data t in
      if (d =? "|") || (d =? "or") then 1
      else if (d =? "&") || (d =? "and") then 2
      else if (d =? "=") || (d =? "!=") || (d =? "^=") || (d =? "~=") || (d =? ">") || (d =? ">=")
              || (d =? "<") || (d =? "<=") || (d =? "in") || (d =? "between") then 3
      else if (d =? "+") || (d =? "-") then 4
      else if (d =? "*") || (d =? "/") then 5
      else LowestPrec
  | _ => LowestPrec
  end.

(* ------------------------------------------------------------------ expression.go: BuildOp *)

Definition build_op (s : string) : option op :=
  if s =? "=" then Some OEq else
  if s =? "&" then Some OAnd else
  if s =? "|" then Some OOr else
  if s =? "!" then Some ONot else
  if s =? "^=" then Some OPrefixMatch else
  if s =? "~=" then Some ORegExpMatch else
  if s =? "!=" then Some ONotEq else
  if s =? "+" then Some OAdd else
  if s =? "-" then Some OSub else
  if s =? "*" then Some OMul else
  if s =? "/" then Some ODiv else
  if s =? ">" then Some OGt else
  if s =? ">=" then Some OGte else
  if s =? "<" then Some OLt else
  if s =? "<=" then Some OLte else
  if s =? "in" then Some OIn else
  if s =? "between" then Some OBetween else
  if s =? "and" then Some OKWAnd else
  if s =? "or" then Some OKWOr else None.

(* ------------------------------------------------------------------ parser.go *)

(* Parser.expect: compares token TYPES only (so parseBetween accepts any operator as AND, D24) *)
Definition expect (want : toktype) (ts : list token) : pres unit :=
  match ts with
  | [] => PErr None
  | t :: ts' => if toktype_eqb (tp t) want then POk tt ts' else PErr (Some (pos t))
  end.

Definition is_tp (t : token) (k : toktype) : bool := toktype_eqb (tp t) k.

Fixpoint parse_expr (fuel : nat) (ts : list token) {struct fuel} : pres expr :=
  match fuel with
  | 0 => PFuel
  | S f => parse_binary_expr f None (LowestPrec + 1) ts
  end

(* parseBinaryExpr(x, prec1): x == nil parses the first operand *)
with parse_binary_expr (fuel : nat) (x : option expr) (prec1 : nat) (ts : list token)
       {struct fuel} : pres expr :=
  match fuel with
  | 0 => PFuel
  | S f =>
      match x with
      | None => bind (parse_unary_expr f ts) (fun x' ts' => binary_loop f x' prec1 ts')
      | Some x' => binary_loop f x' prec1 ts
      end
  end

(* the for-loop of parseBinaryExpr, one iteration per call *)
with binary_loop (fuel : nat) (x : expr) (prec1 : nat) (ts : list token) {struct fuel} : pres expr :=
  match fuel with
  | 0 => PFuel
  | S f =>
      match ts with
      | [] => POk x []                      (* tokPrec: nil token has LowestPrec; returns x either way *)
      | opTok :: ts' =>
          let oprec := precedence opTok in
          if Nat.ltb oprec prec1 then POk x ts
          else
            (* p.expect(opTok) always succeeds: same token *)
            let ry :=
              if data opTok =? "in" then
                match ts' with
                | [] => PErr None
                | t :: _ => if is_tp t LPAREN then parse_list f (pos opTok) ts'
                            else parse_binary_expr f None (oprec + 1) ts'
                end
              else if data opTok =? "between" then parse_between f (pos opTok) (oprec + 1) ts'
              else parse_binary_expr f None (oprec + 1) ts' in
            bind ry (fun y ts'' =>
              match build_op (data opTok) with
              | None => PErr (Some (pos opTok))
              | Some o => binary_loop f (EBin (pos opTok) o x y) prec1 ts''
              end)
      end
  end

with parse_unary_expr (fuel : nat) (ts : list token) {struct fuel} : pres expr :=
  match fuel with
  | 0 => PFuel
  | S f =>
      match ts with
      | [] => PErr None
      | t :: ts' =>
          if is_tp t OPERATOR && (data t =? "!") then
            bind (parse_unary_expr f ts') (fun x r => POk (ENot (pos t) x) r)
          else parse_primary_expr f None ts
      end
  end

with parse_primary_expr (fuel : nat) (x : option expr) (ts : list token) {struct fuel} : pres expr :=
  match fuel with
  | 0 => PFuel
  | S f =>
      match x with
      | None => bind (parse_operand f ts) (fun x' ts' => primary_loop f x' ts')
      | Some x' => primary_loop f x' ts
      end
  end

(* the for-loop of parsePrimaryExpr *)
with primary_loop (fuel : nat) (x : expr) (ts : list token) {struct fuel} : pres expr :=
  match fuel with
  | 0 => PFuel
  | S f =>
      match ts with
      | [] => POk x []
      | t :: _ =>
          if is_tp t LPAREN then bind (parse_func_call f x ts) (fun x' ts' => primary_loop f x' ts')
          else if is_tp t LBRACK then
            bind (parse_field_access f (pos t) x ts) (fun x' ts' => primary_loop f x' ts')
          else POk x ts
      end
  end

with parse_func_call (fuel : nat) (fn : expr) (ts : list token) {struct fuel} : pres expr :=
  match fuel with
  | 0 => PFuel
  | S f =>
      bind (expect LPAREN ts) (fun _ ts1 =>
      bind (func_args f ts1) (fun args ts2 =>
      bind (expect RPAREN ts2) (fun _ ts3 => POk (ECall (epos fn) fn args) ts3)))
  end

(* argument loop of parseFuncCall: `,` separates, a trailing `,` is tolerated *)
with func_args (fuel : nat) (ts : list token) {struct fuel} : pres (list expr) :=
  match fuel with
  | 0 => PFuel
  | S f =>
      match ts with
      | [] => POk [] []
      | t :: _ =>
          if is_tp t RPAREN then POk [] ts
          else
            bind (parse_expr f ts) (fun arg ts1 =>
              match ts1 with
              | [] => POk [arg] []
              | t1 :: ts2 =>
                  if is_tp t1 RPAREN then POk [arg] ts1
                  else if is_tp t1 SEP && (data t1 =? ",") then
                    bind (func_args f ts2) (fun l r => POk (arg :: l) r)
                  else PErr (Some (pos t1))
              end)
      end
  end

with parse_field_access (fuel : nat) (p : nat) (left : expr) (ts : list token) {struct fuel}
       : pres expr :=
  match fuel with
  | 0 => PFuel
  | S f =>
      bind (expect LBRACK ts) (fun _ ts1 =>
      bind (list_items f RBRACK ts1) (fun names ts2 =>
      bind (expect RBRACK ts2) (fun _ ts3 =>
        match names with
        | [name] => POk (EAccess p left name) ts3
        | _ => PErr (Some p)
        end)))
  end

(* item loop shared (same code) by parseFieldAccess and parseList: after an item any one token
   that is not the closer is skipped *)
with list_items (fuel : nat) (closer : toktype) (ts : list token) {struct fuel} : pres (list expr) :=
  match fuel with
  | 0 => PFuel
  | S f =>
      match ts with
      | [] => POk [] []
      | t :: _ =>
          if is_tp t closer then POk [] ts
          else
            bind (parse_expr f ts) (fun arg ts1 =>
              match ts1 with
              | [] => POk [arg] []
              | t1 :: ts2 =>
                  if is_tp t1 closer then POk [arg] ts1
                  else bind (list_items f closer ts2) (fun l r => POk (arg :: l) r)
              end)
      end
  end

with parse_list (fuel : nat) (p : nat) (ts : list token) {struct fuel} : pres expr :=
  match fuel with
  | 0 => PFuel
  | S f =>
      bind (expect LPAREN ts) (fun _ ts1 =>
      bind (list_items f RPAREN ts1) (fun l ts2 =>
      bind (expect RPAREN ts2) (fun _ ts3 => POk (EList p l) ts3)))
  end

with parse_between (fuel : nat) (p : nat) (oprec : nat) (ts : list token) {struct fuel} : pres expr :=
  match fuel with
  | 0 => PFuel
  | S f =>
      bind (parse_binary_expr f None oprec ts) (fun lower ts1 =>
      bind (expect OPERATOR ts1) (fun _ ts2 =>
      bind (parse_binary_expr f None oprec ts2) (fun upper ts3 =>
        POk (EList p [lower; upper]) ts3)))
  end

with parse_operand (fuel : nat) (ts : list token) {struct fuel} : pres expr :=
  match fuel with
  | 0 => PFuel
  | S f =>
      match ts with
      | [] => PPanic                        (* p.tok.Tp with p.tok == nil *)
      | t :: ts' =>
          match tp t with
          | KEY => POk (EField (pos t) KeyKW) ts'
          | VALUE => POk (EField (pos t) ValueKW) ts'
          | STRING => POk (EStr (pos t) (data t)) ts'
          | LPAREN =>
              bind (parse_expr f ts') (fun x ts1 =>
              bind (expect RPAREN ts1) (fun _ ts2 => POk x ts2))
          | NAME => POk (EName (pos t) (data t)) ts'
          | NUMBER => POk (ENum (pos t) (data t)) ts'
          | FLOAT => POk (EFloat (pos t) (data t)) ts'
          | TRUE => POk (EBool (pos t) true) ts'
          | FALSE => POk (EBool (pos t) false) ts'
          | _ => PErr (Some (pos t))
          end
      end
  end.

(* Fuel: every call consumes one unit; a successful or failing run on n tokens nests fewer than
   8n+8 calls (the harness reports PFuel as a mismatch, it is never equal to a Go outcome). *)
Definition fuel_of (ts : list token) : nat := 8 * length ts + 8.

Definition parse_expr_top (ts : list token) : pres expr := parse_expr (fuel_of ts) ts.

(* Parser.Parse for the two statement forms the correspondence uses to reach parseExpr:
     DELETE WHERE e          parseDelete (returns the statement even when Validate fails)
     WHERE e                 the select-all form
   None = statement form not modelled here (SELECT lists, PUT, REMOVE, ORDER/GROUP/LIMIT tails,
   trailing semicolons). *)
Definition has_semi (ts : list token) : bool := existsb (fun t => is_tp t SEMI) ts.

Definition parse_stmt (ts : list token) : option (pres expr) :=
  if has_semi ts then None else
  match ts with
  | [] => Some (PErr None)
  | t :: ts1 =>
      match tp t with
      | DELETE =>
          match expect WHERE ts1 with
          | POk _ ts2 =>
              match parse_expr (fuel_of ts2) ts2 with
              | POk e [] => Some (POk e [])
              | POk e (t' :: r) =>
                  if is_tp t' LIMIT then None else Some (PErr (Some (pos t')))   (* Missing operator *)
              | r => Some r
              end
          | PErr p => Some (PErr p)
          | PPanic => Some PPanic
          | PFuel => Some PFuel
          end
      | WHERE =>
          match ts1 with
          | [] => Some (PErr None)                                               (* Expect where statement *)
          | _ =>
              match parse_expr (fuel_of ts1) ts1 with
              | POk e [] => Some (POk e [])
              | POk e (t' :: r) =>
                  if is_tp t' ORDER || is_tp t' GROUP || is_tp t' LIMIT then None
                  else Some (PErr (Some (pos t')))                               (* Missing operator *)
              | r => Some r
              end
          end
      | SELECT | PUT | REMOVE => None
      | _ => Some (PErr (Some (pos t)))
      end
  end.

(* ------------------------------------------------------------------ expression.go: String() *)

Fixpoint join (sep : string) (l : list string) : string :=
  match l with
  | [] => ""
  | [s] => s
  | s :: l' => s ++ sep ++ join sep l'
  end.

(* NameExpr.String(): the bare name when Lexer.Split() of it is exactly this one NAME token,
   else the name in backticks.  Modelled on printable ASCII: a word survives the lexer unchanged
   iff it is non-empty, has no character the lexer treats specially, no upper-case letter, is
   no keyword and no number.  Numbers are recognised here by their first character (digit or
   `.`) or as inf / infinity / nan; a name such as `1abc` (digit first, yet not a number) is
   outside the model and never generated by the harness. *)
Definition lexer_special (c : Ascii.ascii) : bool :=
  let n := Ascii.nat_of_ascii c in
  existsb (Nat.eqb n)
    [32; 34; 39; 96; 126; 94; 61; 33; 42; 43; 45; 47; 62; 60; 38; 124; 40; 41; 91; 93; 44; 59].
    (* blank, the three quote characters, and  ~ ^ = ! * + - / > < & | ( ) [ ] , ;  *)

Definition plain_char (c : Ascii.ascii) : bool :=
  let n := Ascii.nat_of_ascii c in
  negb (lexer_special c) && Nat.ltb 32 n && Nat.ltb n 127 && negb (Nat.leb 65 n && Nat.leb n 90).

Definition keywords : list string :=
  ["select"; "where"; "key"; "value"; "limit"; "order"; "by"; "asc"; "desc"; "true"; "false"; "as";
   "group"; "in"; "between"; "put"; "remove"; "and"; "or"; "delete"].

Definition number_like (s : string) : bool :=
  match s with
  | EmptyString => false
  | String c _ =>
      let n := Ascii.nat_of_ascii c in
      (Nat.leb 48 n && Nat.leb n 57) || Nat.eqb n 46
      || (s =? "inf") || (s =? "infinity") || (s =? "nan")
  end.

Definition plain_name (s : string) : bool :=
  negb (s =? "") && forallb plain_char (list_ascii_of_string s)
  && negb (existsb (String.eqb s) keywords) && negb (number_like s).

Definition name_text (s : string) : string := if plain_name s then s else "`" ++ s ++ "`".

Fixpoint render (e : expr) : string :=
  match e with
  | EBin _ o l r =>
      match o, r with
      | OBetween, EList _ [lo; hi] =>
          "(" ++ render l ++ " BETWEEN " ++ render lo ++ " AND " ++ render hi ++ ")"
      | _, _ => "(" ++ render l ++ " " ++ op_text o ++ " " ++ render r ++ ")"
      end
  | EField _ KeyKW => "KEY"
  | EField _ ValueKW => "VALUE"
  | EStr _ s => "'" ++ s ++ "'"
  | ENot _ r => "!(" ++ render r ++ ")"
  | ECall _ n args => render n ++ "(" ++ join ", " (map render args) ++ ")"
  | EName _ s => name_text s
  | ERef _ s _ => "`" ++ s ++ "`"
  | ENum _ d => d
  | EFloat _ d => d
  | EBool _ true => "true"
  | EBool _ false => "false"
  | EList _ l => "(" ++ join ", " (map render l) ++ ")"
  | EAccess _ l f => render l ++ "[" ++ render f ++ "]"
  end.

(* The same rendering at token level: the tokens the lexer yields on [render e], all positions
   0 (checked against the real lexer on the real String() by the correspondence). *)
Definition T (k : toktype) (d : string) : token := Tok k d 0.

Local Open Scope list_scope.
Fixpoint sep_concat (sep : list token) (l : list (list token)) : list token :=
  match l with
  | [] => []
  | [x] => x
  | x :: l' => x ++ sep ++ sep_concat sep l'
  end.

Fixpoint rtoks (e : expr) : list token :=
  match e with
  | EBin _ o l r =>
      [T LPAREN "("] ++ rtoks l ++
      match o, r with
      | OBetween, EList _ [lo; hi] =>
          [T OPERATOR "between"] ++ rtoks lo ++ [T OPERATOR "and"] ++ rtoks hi
      | _, _ => [T OPERATOR (op_text o)] ++ rtoks r
      end ++ [T RPAREN ")"]
  | EField _ KeyKW => [T KEY "key"]
  | EField _ ValueKW => [T VALUE "value"]
  | EStr _ s => [T STRING s]
  | ENot _ r => [T OPERATOR "!"; T LPAREN "("] ++ rtoks r ++ [T RPAREN ")"]
  | ECall _ n args =>
      rtoks n ++ [T LPAREN "("] ++ sep_concat [T SEP ","] (map rtoks args) ++ [T RPAREN ")"]
  | EName _ s => [T NAME s]
  | ERef _ s _ => [T NAME s]
  | ENum _ d => [T NUMBER d]
  | EFloat _ d => [T FLOAT d]
  | EBool _ true => [T TRUE "true"]
  | EBool _ false => [T FALSE "false"]
  | EList _ l => [T LPAREN "("] ++ sep_concat [T SEP ","] (map rtoks l) ++ [T RPAREN ")"]
  | EAccess _ l f => rtoks l ++ [T LBRACK "["] ++ rtoks f ++ [T RBRACK "]"]
  end.

Local Open Scope string_scope.

(* ------------------------------------------------------------------ projections used by the
   property: positions erased, alias references read as the names they were written as *)

Fixpoint erase (e : expr) : expr :=
  match e with
  | EBin _ o l r => EBin 0 o (erase l) (erase r)
  | EField _ f => EField 0 f
  | EStr _ s => EStr 0 s
  | ENot _ r => ENot 0 (erase r)
  | ECall _ n args => ECall 0 (erase n) (map erase args)
  | EName _ s => EName 0 s
  | ERef _ s _ => EName 0 s
  | ENum _ d => ENum 0 d
  | EFloat _ d => EFloat 0 d
  | EBool _ b => EBool 0 b
  | EList _ l => EList 0 (map erase l)
  | EAccess _ l f => EAccess 0 (erase l) (erase f)
  end.

(* alias references back to names, positions kept (Check rewrites NameExpr to FieldReferenceExpr) *)
Fixpoint unref (e : expr) : expr :=
  match e with
  | EBin p o l r => EBin p o (unref l) (unref r)
  | ENot p r => ENot p (unref r)
  | ECall p n args => ECall p (unref n) (map unref args)
  | ERef p s _ => EName p s
  | EList p l => EList p (map unref l)
  | EAccess p l f => EAccess p (unref l) (unref f)
  | e => e
  end.

Definition strip (t : token) : token := Tok (tp t) (data t) 0.

(* ------------------------------------------------------------------ decidable equality *)

Definition kvkw_eqb (a b : kvkw) : bool :=
  match a, b with KeyKW, KeyKW | ValueKW, ValueKW => true | _, _ => false end.

Fixpoint expr_eqb (a b : expr) {struct a} : bool :=
  let fix list_eqb (l1 l2 : list expr) {struct l1} : bool :=
    match l1, l2 with
    | [], [] => true
    | x :: l1', y :: l2' => expr_eqb x y && list_eqb l1' l2'
    | _, _ => false
    end in
  match a, b with
  | EBin p o l r, EBin p' o' l' r' => Nat.eqb p p' && op_eqb o o' && expr_eqb l l' && expr_eqb r r'
  | EField p f, EField p' f' => Nat.eqb p p' && kvkw_eqb f f'
  | EStr p s, EStr p' s' => Nat.eqb p p' && String.eqb s s'
  | ENot p r, ENot p' r' => Nat.eqb p p' && expr_eqb r r'
  | ECall p n l, ECall p' n' l' => Nat.eqb p p' && expr_eqb n n' && list_eqb l l'
  | EName p s, EName p' s' => Nat.eqb p p' && String.eqb s s'
  | ERef p s d, ERef p' s' d' => Nat.eqb p p' && String.eqb s s' && expr_eqb d d'
  | ENum p s, ENum p' s' => Nat.eqb p p' && String.eqb s s'
  | EFloat p s, EFloat p' s' => Nat.eqb p p' && String.eqb s s'
  | EBool p x, EBool p' x' => Nat.eqb p p' && Bool.eqb x x'
  | EList p l, EList p' l' => Nat.eqb p p' && list_eqb l l'
  | EAccess p l f, EAccess p' l' f' => Nat.eqb p p' && expr_eqb l l' && expr_eqb f f'
  | _, _ => false
  end.

Fixpoint toks_eqb (a b : list token) : bool :=
  match a, b with
  | [], [] => true
  | x :: a', y :: b' => token_eqb x y && toks_eqb a' b'
  | _, _ => false
  end.

Definition pres_eqb (a b : pres expr) : bool :=
  match a, b with
  | POk x r, POk y r' => expr_eqb x y && toks_eqb r r'
  | PErr None, PErr None => true
  | PErr (Some p), PErr (Some q) => Nat.eqb p q
  | PPanic, PPanic => true
  | _, _ => false
  end.

(* ------------------------------------------------------------------ the shape the checker
   leaves (what "accepted statement" contributes to the round trip): the right side of IN is a
   list, or does not print with a leading parenthesis; `!` is never the head of a call or of a
   field access; lists occur only as right sides of IN / BETWEEN. *)

Fixpoint starts_paren (e : expr) : bool :=
  match e with
  | EBin _ _ _ _ | EList _ _ => true
  | ECall _ n _ => starts_paren n
  | EAccess _ l _ => starts_paren l
  | _ => false
  end.

Definition is_not (e : expr) : bool := match e with ENot _ _ => true | _ => false end.

Fixpoint rt_ok (e : expr) : bool :=
  match e with
  | EBin _ o l r =>
      match o with
      | ONot => false
      | OIn =>
          rt_ok l &&
          match r with
          | EList _ items => forallb rt_ok items
          | _ => rt_ok r && negb (starts_paren r)
          end
      | OBetween =>
          rt_ok l &&
          match r with
          | EList _ [lo; hi] => rt_ok lo && rt_ok hi
          | _ => false
          end
      | _ => rt_ok l && rt_ok r
      end
  | ENot _ r => rt_ok r
  | ECall _ n args => rt_ok n && negb (is_not n) && forallb rt_ok args
  | EAccess _ l f => rt_ok l && negb (is_not l) && rt_ok f
  | EList _ _ => false
  | ERef _ _ _ => true
  | _ => true
  end.

(* single-token operands (parseOperand without the parenthesis case) *)
Definition atom_of (t : token) : option expr :=
  match tp t with
  | KEY => Some (EField (pos t) KeyKW)
  | VALUE => Some (EField (pos t) ValueKW)
  | STRING => Some (EStr (pos t) (data t))
  | NAME => Some (EName (pos t) (data t))
  | NUMBER => Some (ENum (pos t) (data t))
  | FLOAT => Some (EFloat (pos t) (data t))
  | TRUE => Some (EBool (pos t) true)
  | FALSE => Some (EBool (pos t) false)
  | _ => None
  end.

(* ------------------------------------------------------------------ the textbook reading of
   the precedence table, independent of the climbing algorithm: split a flat sequence
   a0 o1 a1 ... on at the LAST operator of MINIMAL binding strength (left associativity),
   recurse on both sides. *)

Definition item : Type := (token * expr)%type.     (* operator token, operand after it *)

(* position (from the left) of the last operator of minimal precedence, with that precedence *)
Fixpoint last_min (l : list item) : option (nat * nat) :=
  match l with
  | [] => None
  | (o, _) :: l' =>
      match last_min l' with
      | None => Some (0, precedence o)
      | Some (i, m) => if Nat.ltb (precedence o) m then Some (0, precedence o) else Some (S i, m)
      end
  end.

Fixpoint climb_spec (n : nat) (x : expr) (l : list item) : expr :=
  match n with
  | 0 => x
  | S n' =>
      match last_min l with
      | None => x
      | Some (i, _) =>
          match skipn i l with
          | (o, a) :: after =>
              match build_op (data o) with
              | Some oo => EBin (pos o) oo (climb_spec n' x (firstn i l)) (climb_spec n' a after)
              | None => x
              end
          | [] => x
          end
      end
  end.

Definition climb (x : expr) (l : list item) : expr := climb_spec (length l) x l.

(* The same reading as a relation (no fuel, no indices): [Climb x l t] -- t is the tree of the
   flat sequence x l, obtained by splitting at an operator that is no stronger than any operator
   before it and strictly weaker than every operator after it. *)
Inductive Climb : expr -> list item -> expr -> Prop :=
  | Climb_nil x : Climb x [] x
  | Climb_split x before o a after oo tl tr :
      (forall i, In i before -> precedence o <= precedence (fst i)) ->
      (forall i, In i after -> precedence o < precedence (fst i)) ->
      build_op (data o) = Some oo ->
      Climb x before tl -> Climb a after tr ->
      Climb x (before ++ (o, a) :: after)%list (EBin (pos o) oo tl tr).

(* ------------------------------------------------------------------ vocabulary of the theorems
   (definitions only) *)

(* what may follow a unary expression without being absorbed by the call / index loop *)
Definition cont_ok (k : list token) : Prop :=
  match k with
  | [] => True
  | t :: _ => is_tp t LPAREN = false /\ is_tp t LBRACK = false
  end.

(* what stops the binary loop running at level prec1 *)
Definition stop_ok (prec1 : nat) (k : list token) : Prop :=
  match k with
  | [] => True
  | t :: _ => is_tp t LPAREN = false /\ is_tp t LBRACK = false /\ precedence t < prec1
  end.

(* operator token, the tokens of the operand after it, the tree of that operand *)
Definition fitem : Type := (token * list token * expr)%type.
Definition fop (i : fitem) : token := fst (fst i).
Definition fitem_item (i : fitem) : item := (fst (fst i), snd i).
Definition flat (l : list fitem) : list token := concat (map (fun i => fop i :: snd (fst i)) l).

(* c is read by the unary parser as a, whatever follows (unless a call / index suffix), with
   8 units of fuel per token -- the rate of fuel_of *)
Definition chunk (c : list token) (a : expr) : Prop :=
  forall fuel k, 8 * length c <= fuel -> cont_ok k -> parse_unary_expr fuel (c ++ k) = POk a k.

Definition fitem_ok (i : fitem) : Prop :=
  1 <= precedence (fop i) /\ (data (fop i) =? "between")%string = false /\
  ((data (fop i) =? "in")%string = true ->
     exists t rest, snd (fst i) = t :: rest /\ is_tp t LPAREN = false) /\
  chunk (snd (fst i)) (snd i).

(* ts is read by parseExpr as t, up to any token that stops the binary loop *)
Definition expr_chunk (ts : list token) (t : expr) : Prop :=
  forall fuel k, 8 * length ts + 3 <= fuel -> stop_ok 1 k -> parse_expr fuel (ts ++ k) = POk t k.

(* outcome with positions erased (trees by [erase], left-over tokens by [strip], error offsets to 0) *)
Definition strip_res {A} (fa : A -> A) (r : pres A) : pres A :=
  match r with
  | POk a ts => POk (fa a) (map strip ts)
  | PErr p => PErr (option_map (fun _ => 0) p)
  | PPanic => PPanic
  | PFuel => PFuel
  end.

(* trees in the image of the parser: `!` is never a binary operator, BETWEEN has a two-element
   list on its right, lists occur nowhere else except right of IN, no alias references *)
Fixpoint pimg (e : expr) : bool :=
  match e with
  | EBin _ o l r =>
      pimg l &&
      match o with
      | ONot => false
      | OIn => match r with EList _ items => forallb pimg items | _ => pimg r end
      | OBetween => match r with EList _ [lo; hi] => pimg lo && pimg hi | _ => false end
      | _ => pimg r
      end
  | ENot _ r => pimg r
  | ECall _ n args => pimg n && forallb pimg args
  | EAccess _ l f => pimg l && pimg f
  | EList _ _ => false
  | ERef _ _ _ => false
  | _ => true
  end.

(* the two facts the round trip needs from the type checker *)
Fixpoint chk_shape (e : expr) : bool :=
  match e with
  | EBin _ o l r =>
      chk_shape l &&
      match o, r with
      | OIn, EList _ items => forallb chk_shape items
      | OIn, _ => chk_shape r && negb (starts_paren r)
      | _, EList _ items => forallb chk_shape items
      | _, _ => chk_shape r
      end
  | ENot _ r => chk_shape r
  | ECall _ n args => chk_shape n && negb (is_not n) && forallb chk_shape args
  | EAccess _ l f => chk_shape l && negb (is_not l) && chk_shape f
  | EList _ l => forallb chk_shape l
  | _ => true
  end.


(* a parse outcome is a tree of the image, an error, or out of fuel -- never a nil dereference *)
Definition inv (r : pres expr) : Prop :=
  match r with POk e _ => pimg e = true | PPanic => False | _ => True end.
