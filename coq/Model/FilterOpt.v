(* Model/FilterOpt.v -- executable twin of filter_optimizer.go (scan-range inference), as it is
   in /repo after the fix: commits for D1, D2, D3, D26, D28 (see DESIGN.md §3).

   ScanType{scanTp, keys} becomes the structured type [region]; Go's nil-vs-empty distinction
   on range boundaries is kept as [option bytes] (None = nil = open).  The defensive branches
   for malformed ScanTypes (PREFIX without key, RANGE without two keys) are unreachable from
   optimizeExpr and are not modelled. *)
From Coq Require Import List String Bool Arith.
Import ListNotations.
From KV Require Import Base.Bytes Model.Ast.

Inductive region :=
  | REmpty
  | RMget (ks : list bytes)
  | RPrefix (p : bytes)
  | RRange (lo hi : option bytes)
  | RFull.

(* scan type priority: EMPTY 1 < MGET 2 < PREFIX 3 < RANGE 4 < FULL 5 *)
Definition prio (r : region) : nat :=
  match r with REmpty => 1 | RMget _ => 2 | RPrefix _ => 3 | RRange _ _ => 4 | RFull => 5 end.

Definition mem (k : bytes) (ks : list bytes) : bool := existsb (String.eqb k) ks.

Fixpoint dedup (ks : list bytes) : list bytes :=
  match ks with
  | [] => []
  | k :: ks' => if mem k ks' then dedup ks' else k :: dedup ks'
  end.

(* ------------------------------------------------------------------ atoms *)

(* the two type switches on e.Left and e.Right that look for a literal and a field *)
Definition extract (l r : expr) : kvkw * option bytes :=
  let fk1 := match l with
             | EStr _ s => (ValueKW, Some s)
             | EField _ f => (f, None)
             | _ => (ValueKW, None)
             end in
  match r with
  | EStr _ s => (fst fk1, Some s)
  | EField _ f => (f, snd fk1)
  | _ => fk1
  end.

Definition is_key (f : kvkw) : bool := match f with KeyKW => true | ValueKW => false end.

Definition opt_eq (l r : expr) : region :=
  match extract l r with
  | (f, Some key) => if is_key f then RMget [key] else RFull
  | _ => RFull
  end.

(* non-mirrored body of optimizeGtGteExpr *)
Definition opt_gt_core (l r : expr) : region :=
  match extract l r with
  | (f, Some key) =>
      if is_key f then (if String.eqb key "" then RFull else RRange (Some key) None) else RFull
  | _ => RFull
  end.

(* non-mirrored body of optimizeLtLteExpr; [lte] is e.Op == Lte *)
Definition opt_lt_core (lte : bool) (l r : expr) : region :=
  match extract l r with
  | (f, Some key) =>
      if is_key f then
        (if String.eqb key "" then (if lte then RMget [key] else REmpty)
         else RRange None (Some key))
      else RFull
  | _ => RFull
  end.

(* mirrorCompare: 'lit' OP key *)
Definition is_mirrored (l r : expr) : bool :=
  match l, r with EStr _ _, EField _ _ => true | _, _ => false end.

(* [eq] : the operator is the non-strict one (Gte / Lte) *)
Definition opt_gt (eq : bool) (l r : expr) : region :=
  if is_mirrored l r then opt_lt_core eq r l else opt_gt_core l r.
Definition opt_lt (eq : bool) (l r : expr) : region :=
  if is_mirrored l r then opt_gt_core r l else opt_lt_core eq l r.

Definition opt_prefix (l r : expr) : region :=
  match l with
  | EStr _ _ => RFull
  | _ => match extract l r with
         | (f, Some key) => if is_key f then RPrefix key else RFull
         | _ => RFull
         end
  end.

(* all items string literals?  collects them in order *)
Fixpoint str_items (l : list expr) : option (list bytes) :=
  match l with
  | [] => Some []
  | EStr _ s :: l' => match str_items l' with Some ks => Some (s :: ks) | None => None end
  | _ :: _ => None
  end.

Definition opt_in (l r : expr) : region :=
  let f := match l with EField _ f => f | _ => ValueKW end in
  match r with
  | EList _ items =>
      match str_items items with
      | Some ks => if is_key f && negb (Nat.eqb (List.length ks) 0) then RMget ks else RFull
      | None => RFull
      end
  | _ => RFull
  end.

Definition opt_between (l r : expr) : region :=
  let f := match l with EField _ f => f | _ => ValueKW end in
  match r with
  | EList _ [EStr _ lower; EStr _ upper] =>
      if is_key f && bltb lower upper then RRange (Some lower) (Some upper) else RFull
  | _ => RFull
  end.

(* ------------------------------------------------------------------ combinators *)

Definition inter_mget_prefix (ks : list bytes) (p : bytes) : region :=
  match filter (has_prefix p) ks with
  | [] => REmpty
  | iks => RMget iks
  end.

Definition union_mget_prefix (ks : list bytes) (p : bytes) : region :=
  if forallb (has_prefix p) ks then RPrefix p else RFull.

Definition inter_mget (lks rks : list bytes) : region :=
  match filter (fun k => mem k rks) (dedup lks) with
  | [] => REmpty
  | ks => RMget ks
  end.

Definition union_mget (lks rks : list bytes) : region :=
  match dedup (lks ++ rks) with
  | [] => REmpty
  | ks => RMget ks
  end.

Definition inter_prefix (lp rp : bytes) : region :=
  if String.eqb lp rp then RPrefix lp
  else if bltb lp rp && has_prefix lp rp then RPrefix rp
  else if bltb rp lp && has_prefix rp lp then RPrefix lp
  else REmpty.

Definition union_prefix (lp rp : bytes) : region :=
  if String.eqb lp rp then RPrefix lp
  else if bltb lp rp && has_prefix lp rp then RPrefix lp
  else if bltb rp lp && has_prefix rp lp then RPrefix rp
  else RFull.

(* inRange(start, end, val, isEnd) *)
Definition in_range (st en v : option bytes) (is_end : bool) : bool :=
  match v with
  | None => if is_end then (match en with None => true | Some _ => false end)
            else (match st with None => true | Some _ => false end)
  | Some x =>
      match st with
      | Some s => if bltb x s then false
                  else match en with Some e => negb (bltb e x) | None => true end
      | None => match en with Some e => negb (bltb e x) | None => true end
      end
  end.

(* sameBoundary *)
Definition same_bound (a b : option bytes) : bool :=
  match a, b with
  | None, None => true
  | Some x, Some y => String.eqb x y
  | _, _ => false
  end.

Definition is_none {A} (o : option A) : bool := match o with None => true | Some _ => false end.

(* if both boundaries are present and start > end they are swapped *)
Definition swap_bounds (s e : option bytes) : option bytes * option bytes :=
  match s, e with
  | Some a, Some b => if bltb b a then (e, s) else (s, e)
  | _, _ => (s, e)
  end.

(* start == end just use MGET *)
Definition finish_range (ns ne : option bytes) : region :=
  match ns, ne with
  | None, None => RFull
  | Some a, Some b => if String.eqb a b then RMget [a] else RRange ns ne
  | _, _ => RRange ns ne
  end.

Definition inter_range (l0s l0e r0s r0e : option bytes) : region :=
  let '(ls, le) := swap_bounds l0s l0e in
  let '(rs, re) := swap_bounds r0s r0e in
  if same_bound ls rs && same_bound le re then RRange l0s l0e
  else if is_none ls && is_none rs && is_none le && is_none re then RFull
  else if in_range ls le rs false && negb (in_range ls le re true) then finish_range rs le
  else if in_range rs re ls false && negb (in_range rs re le true) then finish_range ls re
  else if in_range ls le rs false && in_range ls le re true then finish_range rs re
  else if in_range rs re ls false && in_range rs re le true then finish_range ls le
  else if negb (in_range ls le rs false) && negb (in_range ls le re true) then REmpty
  else RFull.

Definition union_range (l0s l0e r0s r0e : option bytes) : region :=
  let '(ls, le) := swap_bounds l0s l0e in
  let '(rs, re) := swap_bounds r0s r0e in
  if same_bound ls rs && same_bound le re then RRange l0s l0e
  else if is_none ls && is_none rs && is_none le && is_none re then RFull
  else if in_range ls le rs false && negb (in_range ls le re true) then finish_range ls re
  else if in_range rs re ls false && negb (in_range rs re le true) then finish_range rs le
  else if in_range ls le rs false && in_range ls le re true then finish_range ls le
  else if in_range rs re ls false && in_range rs re le true then finish_range rs re
  else if negb (in_range ls le rs false) && negb (in_range ls le re true) then
         match le, rs with
         | Some a, Some b => if bltb a b then finish_range ls re else finish_range rs le
         | _, _ => finish_range rs le
         end
  else RFull.

Definition inter_mget_range (ks : list bytes) (rs re : option bytes) : region :=
  match filter (fun k => in_range rs re (Some k) false) ks with
  | [] => REmpty
  | iks => RMget iks
  end.

Definition inter_prefix_range (p : bytes) (rs re : option bytes) : region :=
  if in_range rs re (Some p) false then
    match re with
    | Some e => if has_prefix p e
                then (if String.eqb p e then RMget [p] else RRange (Some p) re)
                else RPrefix p
    | None => RPrefix p
    end
  else
    if (match rs with Some s => has_prefix p s | None => false end) then RRange rs re
    else if (match re with Some e => bltb e p | None => false end) then REmpty
    else if (match rs with Some s => bltb p s | None => false end) then REmpty
    else RFull.

Definition union_mget_range (ks : list bytes) (rs re : option bytes) : region :=
  if forallb (fun k => in_range rs re (Some k) false) ks then RRange rs re
  else
    match ks with
    | [mk] =>
        if (match rs with Some s => bltb mk s | None => false end) then RRange (Some mk) re
        else if (match re with Some e => bltb e mk | None => false end) then RRange rs (Some mk)
        else RFull
    | _ => RFull
    end.

Definition bytes_equal_opt (p : bytes) (o : option bytes) : bool :=
  match o with Some e => String.eqb p e | None => String.eqb p "" end.
  (* bytes.Equal(pstart, nil) holds only for the empty prefix *)

Definition union_prefix_range (p : bytes) (rs re : option bytes) : region :=
  if in_range rs re (Some p) false then
    match re with
    | Some e => if has_prefix p e then RRange rs None else RRange rs re
    | None => RRange rs re
    end
  else
    match rs, re with
    | Some s, _ =>
        if bltb p s && negb (has_prefix p s) then
          (if bytes_equal_opt p re then RMget [p] else RRange (Some p) re)
        else
          match re with
          | Some e =>
              if has_prefix p s && negb (has_prefix p e) then
                (if String.eqb p e then RMget [p] else RRange (Some p) re)
              else if has_prefix p s && has_prefix p e then RPrefix p
              else if bltb e p then RRange rs None
              else RFull
          | None => RFull
          end
    | None, Some e => if bltb e p then RRange rs None else RFull
    | None, None => RFull
    end.

(* optimizeAndExpr on the two sub-results *)
Definition and_regions (l r : region) : region :=
  if Nat.eqb (prio l) (prio r) then
    match l, r with
    | RMget a, RMget b => inter_mget a b
    | RPrefix a, RPrefix b => inter_prefix a b
    | RRange a b, RRange c d => inter_range a b c d
    | _, _ => l
    end
  else
    let '(lp, hp) := if Nat.ltb (prio l) (prio r) then (l, r) else (r, l) in
    match lp, hp with
    | RMget ks, RPrefix p => inter_mget_prefix ks p
    | RMget ks, RRange a b => inter_mget_range ks a b
    | RPrefix p, RRange a b => inter_prefix_range p a b
    | _, _ => lp
    end.

(* optimizeOrExpr on the two sub-results *)
Definition or_regions (l r : region) : region :=
  if Nat.eqb (prio l) (prio r) then
    match l, r with
    | RMget a, RMget b => union_mget a b
    | RPrefix a, RPrefix b => union_prefix a b
    | RRange a b, RRange c d => union_range a b c d
    | _, _ => l
    end
  else
    let '(lp, hp) := if Nat.ltb (prio l) (prio r) then (l, r) else (r, l) in
    match lp, hp with
    | RMget ks, RPrefix p => union_mget_prefix ks p
    | RMget ks, RRange a b => union_mget_range ks a b
    | RPrefix p, RRange a b => union_prefix_range p a b
    | _, _ => hp
    end.

(* optimizeExpr *)
Fixpoint optimize (e : expr) : region :=
  match e with
  | EBin _ o l r =>
      match o with
      | OAnd | OKWAnd => and_regions (optimize l) (optimize r)
      | OOr | OKWOr => or_regions (optimize l) (optimize r)
      | OPrefixMatch => opt_prefix l r
      | OEq => opt_eq l r
      | OGt => opt_gt false l r
      | OGte => opt_gt true l r
      | OLt => opt_lt false l r
      | OLte => opt_lt true l r
      | OIn => opt_in l r
      | OBetween => opt_between l r
      | _ => RFull
      end
  | EBool _ b => if b then RFull else REmpty
  | _ => RFull
  end.

(* ------------------------------------------------------------------ denotation *)
(* what the scan plan built for a region reads and offers to the filter:
   MultiGetPlan reads exactly the keys; PrefixScanPlan seeks p and stops at the first key
   without the prefix; RangeScanPlan seeks lo (or starts at the first key) and stops at the
   first key > hi, so a range is inclusive at both ends. *)
Definition covers (r : region) (k : bytes) : bool :=
  match r with
  | REmpty => false
  | RMget ks => mem k ks
  | RPrefix p => has_prefix p k
  | RRange lo hi =>
      (match lo with Some s => bleb s k | None => true end) &&
      (match hi with Some e => bleb k e | None => true end)
  | RFull => true
  end.

(* canDeletePlanToRemovePlan: no AND anywhere in the filter *)
Fixpoint has_and (e : expr) : bool :=
  match e with
  | EBin _ o l r =>
      match o with OAnd | OKWAnd => true | _ => has_and l || has_and r end
  | ENot _ r => has_and r
  | ECall _ n args => has_and n || existsb has_and args
  | EList _ l => existsb has_and l
  | EAccess _ l f => has_and l || has_and f
  | ERef _ _ d => false
  | _ => false
  end.
