(* Model/Fold.v -- executable twin of expression_optimizer.go (ExpressionOptimizer), as it is in
   /repo after the fix: commit for D14 (a folded literal takes the kind of the result).

   The Go code mutates the tree in place; the twin returns the new tree.  Function by function:

     Optimize                      fold       = optimize twice
     optimize                      optimize   (BinaryOpExpr: reorder, execute, and/or; call: fold the call)
     tryReorderBinaryOp            reorder
     isBinaryOpExprAllValue        all_value
     tryOptimizeBinaryOpExecute    try_exec   (runs the row evaluator twin on constant operands)
     tryOptimizeAndOr              and_or
     tryOptimizeFunctionCall       opt_args (argument loop) + call_fold (the part after the loop)

   One re-arrangement, forced by structural recursion: in Go the arguments of a function call
   below a binary operator are optimised when tryOptimizeBinaryOpExecute reaches the call, i.e.
   AFTER tryReorderBinaryOp has run on the operator tree.  The twin optimises the arguments of
   those calls first ([opt_args]) and then runs [reorder] and [try_exec].  The result is the
   same tree: tryReorderBinaryOp looks only at the node kinds and operators of BinaryOpExpr /
   literal nodes and never into a call, and optimising a call's arguments keeps it a call.

   Library code is an oracle: [fmt_v] is fmt.Sprintf("%v", float64) (the Data text of a folded
   FloatExpr); the evaluator's float operations and the regexp matcher are the parameters of
   Model/Eval.v.

   Type assertions of the Go code (ret.(string), ret.(bool)) that cannot fail are modelled by
   leaving the node unfolded in the impossible branch; Proofs/FoldProofs.v proves the branch
   dead (call_str_is_string, call_bool_is_bool, bin_bool_is_bool).  A twin integer outside
   the int64 range is not a Go int64 (the twin's Z is unbounded, e.g. strlen of an unboundedly
   long text): such a result is not folded.  funcLen returns a Go [int], which is neither
   int64 nor float64 for the TNUMBER re-wrap: `len(...)` is never folded. *)
From Coq Require Import List String Ascii ZArith Bool Floats.
Import ListNotations.
From KV Require Import Base.Bytes Base.Num Base.Flt Model.Ast Model.Value Model.Eval.
Open Scope string_scope.

(* case *StringExpr, *NumberExpr, *FloatExpr  (tryReorderBinaryOp, isBinaryOpExprAllValue) *)
Definition is_rvalue (e : expr) : bool :=
  match e with EStr _ _ | ENum _ _ | EFloat _ _ => true | _ => false end.

(* case *StringExpr, *NumberExpr, *FloatExpr, *BoolExpr  (the two execute functions) *)
Definition is_value (e : expr) : bool :=
  match e with EStr _ _ | ENum _ _ | EFloat _ _ | EBool _ _ => true | _ => false end.

Definition is_bin (e : expr) : bool := match e with EBin _ _ _ _ => true | _ => false end.

(* isBinaryOpExprAllValue(expr, op); only called on a BinaryOpExpr *)
Fixpoint all_value (o : op) (e : expr) : bool :=
  match e with
  | EBin _ o' l r =>
      if negb (op_eqb o' o) then false
      else
        let lv := match l with
                  | EStr _ _ | ENum _ _ | EFloat _ _ => true
                  | EBin _ _ _ _ => all_value o l
                  | _ => false
                  end in
        let rv := match r with
                  | EStr _ _ | ENum _ _ | EFloat _ _ => true
                  | EBin _ _ _ _ => all_value o r
                  | _ => false
                  end in
        lv && rv
  | _ => false
  end.

(* tryReorderBinaryOp(e): (ANY op VALUE) op VALUE  =>  ANY op (VALUE op VALUE), for + and *.
   [reorder] of a node that is not a BinaryOpExpr is the node itself (Go does not call it). *)
Fixpoint reorder (e : expr) : expr :=
  match e with
  | EBin p o l r =>
      let l' := match l with EBin _ _ _ _ => reorder l | _ => l end in
      let r' := match r with EBin _ _ _ _ => reorder r | _ => r end in
      if negb (op_eqb o OAdd || op_eqb o OMul) then EBin p o l' r'
      else
        (* !leftIsValue && leftIsOp && rightIsValue && !rightIsOp *)
        match l' with
        | EBin _ lo ll lr =>
            if is_rvalue r' && op_eqb lo o then
              match lr with
              | EStr _ _ | ENum _ _ | EFloat _ _ => EBin p o ll (EBin p o lr r')
              | EBin _ _ _ _ =>
                  if all_value o lr then EBin p o ll (EBin p o lr r') else EBin p o l' r'
              | _ => EBin p o l' r'
              end
            else EBin p o l' r'
        | _ => EBin p o l' r'
        end
  | _ => e
  end.

(* tryOptimizeAndOr *)
Definition and_or (e : expr) : expr * bool :=
  match e with
  | EBin p o l r =>
      if negb (op_eqb o OAnd || op_eqb o OOr) then (e, false)
      else
        let is_and := op_eqb o OAnd in
        let lb := match l with EBool _ b => Some b | _ => None end in
        let rb := match r with EBool _ b => Some b | _ => None end in
        match lb, rb with
        | Some a, None =>
            if is_and then (if a then (r, true) else (EBool (epos l) false, true))
            else (if a then (EBool (epos l) true, true) else (r, true))
        | None, Some b =>
            if is_and then (if b then (l, true) else (EBool (epos r) false, true))
            else (if b then (EBool (epos r) true, true) else (l, true))
        | Some a, Some b =>
            if is_and then (EBool (epos l) (a && b), true)
            else (EBool (epos l) (a || b), true)
        | None, None => (e, false)
        end
  | _ => (e, false)
  end.

(* IsScalarFuncExpr on the Name child *)
Definition is_scalar_func (n : expr) : bool :=
  match call_name n with
  | Some nm => match func_info nm with Some _ => true | None => false end
  | None => false
  end.

(* the body of the called function returns a Go int (funcLen) *)
Definition returns_go_int (n : expr) : bool :=
  match call_name n with Some nm => String.eqb nm "len" | None => false end.

Section Fold.
Variable fo : fops.
Variable re_match : bytes -> bytes -> res bool.
(* fmt.Sprintf("%v", f) for a float64 *)
Variable fmt_v : F fo -> string.

(* e.Execute(NewKVP(nil, nil), nil) *)
Definition const_eval (e : expr) : res (value fo) := eval fo re_match "" "" e.

(* tryOptimizeFunctionCall after its argument loop; [args] are the optimised arguments *)
Definition call_fold (p : nat) (n : expr) (args : list expr) : expr * bool :=
  let e := ECall p n args in
  if negb (forallb is_value args && is_scalar_func n) then (e, false)
  else
    let rt := rtype e in
    match rt with
    | TJson => (e, false)
    | _ =>
        match const_eval e with
        | Ok ret =>
            match rt with
            | TStr =>
                match ret with
                | VStr s => (EStr p s, true)
                | _ => (e, false)                   (* ret.(string): proved unreachable *)
                end
            | TNumber =>
                match ret with
                | VInt z =>
                    if returns_go_int n then (e, false)        (* a Go int is not an int64 *)
                    else if in64 z then (ENum p (str_of_Z z), true)
                    else (e, false)                            (* not a Go int64 *)
                | VFlt f => (EFloat p (fmt_v f), true)
                | _ => (e, false)
                end
            | TBool =>
                match ret with
                | VBool b => (EBool p b, true)
                | _ => (e, false)                   (* ret.(bool): proved unreachable *)
                end
            | _ => (e, false)
            end
        | _ => (e, false)
        end
    end.

(* tryOptimizeBinaryOpExecute(e); calls below it have their arguments optimised already *)
Fixpoint try_exec (e : expr) : expr * bool :=
  match e with
  | EBin p o l r =>
      let '(l', lv) :=
        match l with
        | EBin _ _ _ _ => try_exec l
        | ECall cp cn cargs => call_fold cp cn cargs
        | EStr _ _ | ENum _ _ | EFloat _ _ | EBool _ _ => (l, true)
        | _ => (l, false)
        end in
      let '(r', rv) :=
        match r with
        | EBin _ _ _ _ => try_exec r
        | ECall cp cn cargs => call_fold cp cn cargs
        | EStr _ _ | ENum _ _ | EFloat _ _ | EBool _ _ => (r, true)
        | _ => (r, false)
        end in
      let e' := EBin p o l' r' in
      if negb (lv && rv) then (e', false)
      else
        let lp := epos l' in
        match o with
        | OAdd | OSub | OMul | ODiv =>
            (* the literal takes the kind of the result (D14) *)
            match const_eval e' with
            | Ok (VStr s) => (EStr lp s, true)
            | Ok (VInt z) => (ENum lp (str_of_Z z), true)
            | Ok (VFlt f) => (EFloat lp (fmt_v f), true)
            | _ => (e', false)
            end
        | OAnd | OOr | OEq | ONotEq | OGt | OGte | OLt | OLte =>
            match const_eval e' with
            | Ok (VBool b) => (EBool lp b, true)
            | _ => (e', false)                      (* error; ret.(bool) cannot fail *)
            end
        | _ => (e', false)
        end
  | _ => (e, false)
  end.

(* optimize(expr) on a BinaryOpExpr whose calls have optimised arguments *)
Definition finish_bin (e : expr) : expr := fst (and_or (fst (try_exec (reorder e)))).

(* optimize(expr); [opt_args] = the argument loops of the calls that tryOptimizeBinaryOpExecute
   will reach from a BinaryOpExpr (through BinaryOpExpr children only) *)
Fixpoint optimize (e : expr) : expr :=
  match e with
  | EBin p o l r => finish_bin (EBin p o (opt_args l) (opt_args r))
  | ECall p n args => fst (call_fold p n (map optimize args))
  | _ => e
  end
with opt_args (e : expr) : expr :=
  match e with
  | EBin p o l r => EBin p o (opt_args l) (opt_args r)
  | ECall p n args => ECall p n (map optimize args)
  | _ => e
  end.

(* ExpressionOptimizer.Optimize: "Optimize twice will fully evaluate constant" *)
Definition fold (e : expr) : expr := optimize (optimize e).

(* the variant before the D14 fix: the folded literal of + - * / took the kind of the LEFT
   operand literal; kept only for the regression witness in Properties/C04.v *)
Definition rewrap_by_left_kind (l' : expr) (lp : nat) (ret : value fo) : option expr :=
  match l', ret with
  | EStr _ _, VStr s => Some (EStr lp s)
  | ENum _ _, VInt z => Some (ENum lp (str_of_Z z))
  | ENum _ _, VFlt f => match f_trunc fo f with Some z => Some (ENum lp (str_of_Z z)) | None => None end
  | EFloat _ _, VFlt f => Some (EFloat lp (fmt_v f))
  | EFloat _ _, VInt z => Some (EFloat lp (fmt_v (f_of_Z fo z)))
  | _, _ => None
  end.

End Fold.

(* What checker.go guarantees at the nodes the optimizer visits (operands of binary operators
   and arguments of calls, which is also how BinaryOpExpr.Check / FunctionCallExpr.Check
   recurse): checkWithAndOr -- both operands of & and | have return type BOOL; checkWithMath --
   the operands of + are both text or both numbers. *)
Fixpoint wt (e : expr) : bool :=
  match e with
  | EBin _ o l r =>
      wt l && wt r &&
      match o with
      | OAnd | OOr => ty_eqb (rtype l) TBool && ty_eqb (rtype r) TBool
      | OAdd => Bool.eqb (ty_eqb (rtype l) TStr) (ty_eqb (rtype r) TStr)
      | _ => true
      end
  | ECall _ _ args => forallb wt args
  | _ => true
  end.

(* ---- for RUNNING the twin with Base/Flt.prim_fops: an exact decimal rendering of a binary64
   value in the grammar of Base/Flt.pf_parse (it stands in for fmt "%v"; the correspondence
   compares float literals by the value their text denotes, not by the text) *)
Local Open Scope Z_scope.

Fixpoint strip2 (fuel : nat) (m e : Z) : Z * Z :=
  match fuel with
  | O => (m, e)
  | S f => if (e <? 0) && Z.even m then strip2 f (m / 2) (e + 1) else (m, e)
  end.

Fixpoint zeros (k : nat) : string :=
  match k with O => EmptyString | S k' => String "0"%char (zeros k') end.

Definition pf_fmt_v (f : float) : string :=
  match Prim2SF f with
  | S754_zero s => if s then "-0"%string else "0"%string
  | S754_infinity s => if s then "-Inf"%string else "+Inf"%string
  | S754_nan => "NaN"%string
  | S754_finite s m e =>
      let '(m', e') := strip2 1100 (Z.pos m) e in
      let body :=
        if 0 <=? e' then str_of_Z (m' * 2 ^ e')
        else
          let k := - e' in
          let d := m' * 5 ^ k in
          let fr := str_of_Z (d mod 10 ^ k) in
          (str_of_Z (d / 10 ^ k) ++ "." ++ zeros (Z.to_nat k - String.length fr) ++ fr)%string in
      ((if s then "-" else "") ++ body)%string
  end.
