(* Model/FoldStmt.v -- executable twin of Optimizer.optimizeSelectExpressions /
   optimizeDeleteExpressions (optimizer.go): what the constant folder (Model/Fold.v) does to a
   whole checked statement, and therefore WHICH TREES THE PLANS EXECUTE.

     stmt.Where.Expr = eo.Optimize()                       -- fold of the WHERE tree
     for i, field := range stmt.Fields { stmt.Fields[i] = eo.Optimize() }   -- fold of every field

   The filter (FilterExec{Ast: stmt.Where}) and the projection (ProjectionPlan.Fields =
   stmt.Fields) evaluate the roots Optimize RETURNS, i.e. [fold T].  One thing the per-tree twin
   Model/Fold.v cannot see: a FieldReferenceExpr POINTS to the root object of the field it names
   (SelectStmt.resolveFieldNames / tryRewriteExpr: FieldExpr: ctx.GetNamedExpr(name)), and the
   folder works IN PLACE.  The root a reference points to is not replaced (only the slot
   stmt.Fields[i] is), but the object it points to has been rewritten by the two passes of
   Optimize that ran with it as Root:

     tryReorderBinaryOp(e)            assigns e.Left / e.Right (and those of the BinaryOpExpr below)
     tryOptimizeBinaryOpExecute(e)    assigns e.Left / e.Right = the folded operands, then returns
                                      e or a NEW literal
     tryOptimizeAndOr(x)              assigns nothing; returns x, x.Left, x.Right or a new literal
     tryOptimizeFunctionCall(e)       assigns e.Args[i] = optimize(arg), returns e or a new literal

   so a reference evaluates the object in the state [in_place d] (d the definition): the
   operands are folded, the root is not replaced.  Example (the position of an execution error
   shows it):  select 10 / (1 - 1) as x, key where x > 1  fails with "Divide by zero" at the
   offset of the first `1` of `(1 - 1)` -- the folded literal 0 standing in e.Right -- although
   the field itself stays `10 / ...` (folding it fails).

     after_pass e   the state of the object e after optimize(e) ran once with e as argument
     in_place e     the state after Optimize() (two passes: the second pass runs on what the
                    first returned -- the same object, one of its operands (tryOptimizeAndOr:
                    `true & X` returns X), or a new literal, which leaves e alone)
     relink e       every reference inside e carries the final state of the field object it
                    points to: [in_place] of the definition, whose own references are re-pointed
                    first (the folder never looks inside a reference, so it does not matter
                    whether the references inside a field are re-pointed before or after the
                    field is folded; this order makes the function structurally recursive)
     exec_tree e    relink (fold e): the tree the plan executes for the checked tree e

   The field cache is off here, as in Model/Eval.v.  No proofs in this file
   (Proofs/ExecPosProofs.v). *)
From Coq Require Import List String ZArith Bool.
Import ListNotations.
From KV Require Import Base.Bytes Model.Ast Model.Value Model.Eval Model.Fold.

Section FoldStmt.
Variable fo : fops.
Variable re_match : bytes -> bytes -> res bool.
Variable fmt_v : F fo -> string.

Notation optimize := (Fold.optimize fo re_match fmt_v).
Notation opt_args := (Fold.opt_args fo re_match fmt_v).
Notation try_exec := (Fold.try_exec fo re_match fmt_v).
Notation call_fold := (Fold.call_fold fo re_match fmt_v).

(* e.Left / e.Right as tryOptimizeBinaryOpExecute(e) leaves it *)
Definition exec_operand (c : expr) : expr :=
  match c with
  | EBin _ _ _ _ => fst (try_exec c)
  | ECall cp cn cargs => fst (call_fold cp cn cargs)
  | _ => c
  end.

(* the object e after optimize(e): the e' of Fold.try_exec / the call with optimised arguments *)
Definition after_pass (e : expr) : expr :=
  match e with
  | EBin p o l r =>
      match reorder (EBin p o (opt_args l) (opt_args r)) with
      | EBin p' o' tl tr => EBin p' o' (exec_operand tl) (exec_operand tr)
      | x => x
      end
  | ECall p n args => ECall p n (map optimize args)
  | _ => e
  end.

(* did tryOptimizeBinaryOpExecute / tryOptimizeFunctionCall return a new literal for e *)
Definition was_folded (e : expr) : bool :=
  match e with
  | EBin p o l r => snd (try_exec (reorder (EBin p o (opt_args l) (opt_args r))))
  | ECall p n args => snd (call_fold p n (map optimize args))
  | _ => false
  end.

Definition bool_lit (e : expr) : option bool := match e with EBool _ b => Some b | _ => None end.

Definition in_place (e : expr) : expr :=
  let e1 := after_pass e in
  if was_folded e then e1                       (* pass 2 runs on the new literal *)
  else
    match e1 with
    | EBin p o l' r' =>
        if negb (op_eqb o OAnd || op_eqb o OOr) then after_pass e1     (* pass 2 on e itself *)
        else
          let is_and := op_eqb o OAnd in
          match bool_lit l', bool_lit r' with
          | Some a, None =>                      (* true & X, false | X: pass 2 runs on X = e.Right *)
              if Bool.eqb is_and a then EBin p o l' (after_pass r') else e1
          | None, Some b =>                      (* X & true, X | false: pass 2 runs on X = e.Left *)
              if Bool.eqb is_and b then EBin p o (after_pass l') r' else e1
          | Some _, Some _ => e1                 (* a new literal *)
          | None, None => after_pass e1          (* pass 2 on e itself *)
          end
    | ECall _ _ _ => after_pass e1              (* pass 2 on e itself *)
    | _ => e1
    end.

Fixpoint relink (e : expr) {struct e} : expr :=
  match e with
  | EBin p o l r => EBin p o (relink l) (relink r)
  | ENot p r => ENot p (relink r)
  | ECall p n args => ECall p n (map relink args)
  | ERef p s d => ERef p s (in_place (relink d))
  | EList p items => EList p (map relink items)
  | EAccess p l f => EAccess p (relink l) (relink f)
  | _ => e
  end.

(* the tree a plan executes for the checked tree e *)
Definition exec_tree (e : expr) : expr := relink (Fold.fold fo re_match fmt_v e).

End FoldStmt.
