(* Model/Interleave.v -- the logical half of C19: statements as deterministic machines that are
   interleaved by an arbitrary scheduler.

   Part 1 (generic).  A memory is a total map from locations to values.  Locations stand for
   everything a Go statement can touch: its own Optimizer/Parser/AST/plan nodes/ExecuteCtx
   ("owned" locations), the package-level variables of package kvql and the objects reachable
   from them (funcMap, aggrFuncMap, PlanBatchSize, EnableFieldCache, DefaultErrorPadding, the
   token/operator name tables: read, never owned), and the cells of the storage.  A machine
   declares the locations it owns (may write) and the further locations it reads, and has a
   deterministic step function on the whole memory.  [run] executes an arbitrary schedule (a
   list of machine indices; an index without a machine is a no-op); [run_alone] iterates one
   machine's step.  What ties the declaration to the step function are the two frame
   conditions [frame_write] / [frame_read]; what ties the machines to each other is
   [independent]: nobody owns what somebody else owns or reads.  For the Go code the premise
   "the shared environment is owned by no statement" is what the footprint analysis of
   harness/c19_footprint.go establishes on every run.

   Part 2 (storage instance).  Statements as programs of storage operations over a
   linearizable key-value store (every operation is one atomic step, which is what a
   mutex-protected Storage provides): Get / (Batch)Put / (Batch)Delete.  Machine i owns its
   private cell (program counter + the values its Gets returned) and the keys it writes, and
   reads the keys it gets.  [indep_b] is the computable "disjoint write-sets or read-only"
   condition.  The correspondence (Corr/C19.v) runs [kv_run] on the linearization orders
   recorded by the harness.

   No proofs in this file. *)
From Coq Require Import List Arith Bool String.
Import ListNotations.

Set Implicit Arguments.

(* ------------------------------------------------------------------ Part 1: generic *)
Section Generic.
Variables loc val : Type.

Definition mem := loc -> val.

Record machine := Machine {
  owns  : loc -> bool;        (* private state: the only locations the machine may write *)
  reads : loc -> bool;        (* further locations it may read (shared, immutable environment) *)
  step  : mem -> mem          (* one deterministic step *)
}.

Definition view (mc : machine) (l : loc) : bool := owns mc l || reads mc l.

(* one step of machine number i; no such machine: nothing happens *)
Definition step_at (ms : list machine) (i : nat) (m : mem) : mem :=
  match nth_error ms i with
  | Some mc => step mc m
  | None => m
  end.

(* an arbitrary interleaving: the scheduler picks the machine that moves next *)
Fixpoint run (ms : list machine) (sched : list nat) (m : mem) : mem :=
  match sched with
  | [] => m
  | i :: s => run ms s (step_at ms i m)
  end.

Fixpoint iter (k : nat) (f : mem -> mem) (m : mem) : mem :=
  match k with
  | 0 => m
  | S k' => iter k' f (f m)
  end.

(* the machine on its own, k steps *)
Definition run_alone (mc : machine) (k : nat) (m : mem) : mem := iter k (step mc) m.

(* how many steps the schedule grants machine i *)
Definition steps_of (i : nat) (sched : list nat) : nat := count_occ Nat.eq_dec sched i.

(* two memories look the same to a machine *)
Definition agree (mc : machine) (m m' : mem) : Prop :=
  forall l, view mc l = true -> m l = m' l.

(* the step writes only owned locations ... *)
Definition frame_write (mc : machine) : Prop :=
  forall m l, owns mc l = false -> step mc m l = m l.
(* ... and what it writes there depends only on what it owns or reads *)
Definition frame_read (mc : machine) : Prop :=
  forall m m', agree mc m m' -> forall l, owns mc l = true -> step mc m l = step mc m' l.
Definition well_behaved (mc : machine) : Prop := frame_write mc /\ frame_read mc.

(* nobody owns a location that another machine owns or reads *)
Definition independent (ms : list machine) : Prop :=
  forall i j mi mj, i <> j -> nth_error ms i = Some mi -> nth_error ms j = Some mj ->
  forall l, owns mi l = true -> view mj l = false.

(* a location of the shared environment: owned by no machine *)
Definition shared (ms : list machine) (l : loc) : Prop :=
  forall mc, In mc ms -> owns mc l = false.

(* the machine has finished after k steps on its own: a further step changes nothing it sees *)
Definition halted_after (mc : machine) (m0 : mem) (k : nat) : Prop :=
  agree mc (step mc (run_alone mc k m0)) (run_alone mc k m0).

(* a result is any function of the memory that looks only at the machine's view *)
Definition observes (mc : machine) (R : Type) (res : mem -> R) : Prop :=
  forall m m', agree mc m m' -> res m = res m'.

End Generic.

(* ------------------------------------------------------------------ Part 2: storage programs *)

Inductive op :=
| OGet (k : string)                       (* Storage.Get *)
| OPut (kvs : list (string * string))     (* Storage.Put / BatchPut, atomic *)
| ODel (ks : list string).                (* Storage.Delete / BatchDelete, atomic *)

Inductive kloc :=
| LKey (k : string)                       (* a cell of the store *)
| LPc (i : nat).                          (* the private cell of statement i *)

Inductive kval :=
| VCell (v : option string)                         (* content of a store cell; None = absent *)
| VPriv (pc : nat) (out : list (option string)).    (* ops done, values returned by the Gets *)

Definition kmem := kloc -> kval.

Definition kloc_eqb (a b : kloc) : bool :=
  match a, b with
  | LKey x, LKey y => String.eqb x y
  | LPc i, LPc j => Nat.eqb i j
  | _, _ => false
  end.

Definition upd (l : kloc) (v : kval) (m : kmem) : kmem :=
  fun l' => if kloc_eqb l l' then v else m l'.

Definition cell (m : kmem) (k : string) : option string :=
  match m (LKey k) with
  | VCell v => v
  | VPriv _ _ => None
  end.

Fixpoint put_all (kvs : list (string * string)) (m : kmem) : kmem :=
  match kvs with
  | [] => m
  | (k, v) :: r => put_all r (upd (LKey k) (VCell (Some v)) m)
  end.

Fixpoint del_all (ks : list string) (m : kmem) : kmem :=
  match ks with
  | [] => m
  | k :: r => del_all r (upd (LKey k) (VCell None) m)
  end.

(* one storage operation of statement i, executed atomically *)
Definition exec (i pc : nat) (out : list (option string)) (o : op) (m : kmem) : kmem :=
  match o with
  | OGet k  => upd (LPc i) (VPriv (S pc) (out ++ [cell m k])) m
  | OPut kvs => upd (LPc i) (VPriv (S pc) out) (put_all kvs m)
  | ODel ks => upd (LPc i) (VPriv (S pc) out) (del_all ks m)
  end.

Definition kstep (i : nat) (p : list op) (m : kmem) : kmem :=
  match m (LPc i) with
  | VPriv pc out =>
      match nth_error p pc with
      | Some o => exec i pc out o m
      | None => m                       (* program finished *)
      end
  | VCell _ => m
  end.

Definition wkeys_op (o : op) : list string :=
  match o with
  | OGet _ => []
  | OPut kvs => map fst kvs
  | ODel ks => ks
  end.
Definition rkeys_op (o : op) : list string :=
  match o with
  | OGet k => [k]
  | _ => []
  end.
Definition wkeys (p : list op) : list string := flat_map wkeys_op p.
Definition rkeys (p : list op) : list string := flat_map rkeys_op p.

Definition mem_str (k : string) (l : list string) : bool := existsb (String.eqb k) l.

Definition kowns (i : nat) (p : list op) (l : kloc) : bool :=
  match l with
  | LPc j => Nat.eqb j i
  | LKey k => mem_str k (wkeys p)
  end.
Definition kreads (p : list op) (l : kloc) : bool :=
  match l with
  | LPc _ => false
  | LKey k => mem_str k (rkeys p)
  end.

Definition kmachine (i : nat) (p : list op) : machine kloc kval :=
  Machine (kowns i p) (kreads p) (kstep i p).

Fixpoint kmachines_from (i : nat) (ps : list (list op)) : list (machine kloc kval) :=
  match ps with
  | [] => []
  | p :: r => kmachine i p :: kmachines_from (S i) r
  end.
Definition kmachines (ps : list (list op)) := kmachines_from 0 ps.

(* initial memory: the store, every statement at its first operation *)
Fixpoint lookup (k : string) (st : list (string * string)) : option string :=
  match st with
  | [] => None
  | (k', v) :: r => if String.eqb k k' then Some v else lookup k r
  end.
Definition kinit (st : list (string * string)) : kmem :=
  fun l => match l with
           | LKey k => VCell (lookup k st)
           | LPc _ => VPriv 0 []
           end.

(* what statement i has seen: the values returned by its Gets, and how far it got *)
Definition kout (i : nat) (m : kmem) : list (option string) :=
  match m (LPc i) with VPriv _ out => out | VCell _ => [] end.
Definition kpc (i : nat) (m : kmem) : nat :=
  match m (LPc i) with VPriv pc _ => pc | VCell _ => 0 end.

Definition kv_run (ps : list (list op)) (sched : list nat) (st : list (string * string)) : kmem :=
  run (kmachines ps) sched (kinit st).
Definition kv_alone (i : nat) (p : list op) (k : nat) (st : list (string * string)) : kmem :=
  run_alone (kmachine i p) k (kinit st).

(* "disjoint write-sets or read-only": no key written by one program is written or read by
   another one *)
Definition disjoint_b (a b : list string) : bool :=
  forallb (fun k => negb (mem_str k b)) a.
Definition pair_ok (p q : list op) : bool :=
  disjoint_b (wkeys p) (wkeys q) && disjoint_b (wkeys p) (rkeys q).
Fixpoint indep_b (ps : list (list op)) : bool :=
  match ps with
  | [] => true
  | p :: r => forallb (fun q => pair_ok p q && pair_ok q p) r && indep_b r
  end.

(* final content of the store at the listed keys *)
Definition kcells (m : kmem) (ks : list string) : list (option string) := map (cell m) ks.

(* a small concrete workload used by the non-vacuity example of Properties/C19.v: a writer on
   its own keys, a second writer, a reader of untouched keys; index 7 in the schedule has no
   machine (no-op) *)
Local Open Scope string_scope.
Definition ex_progs : list (list op) :=
  [ [OPut [("g0_a", "1")]; OGet "g0_a"; ODel ["g0_a"]; OGet "g0_a"];
    [OGet "g1_a"; OPut [("g1_a", "x"); ("g1_b", "y")]; OGet "g1_b"];
    [OGet "shared"; OGet "missing"] ].
Definition ex_store : list (string * string) := [("g1_a", "old"); ("shared", "s")].
Definition ex_sched : list nat := [1; 0; 2; 0; 1; 7; 0; 2; 1; 0; 0].

