(* Model/Json.v -- executable twin of json() and of navigation into JSON values:
   funcJson / funcJsonVec (scalar_func.go, scalar_func_vec.go), FieldAccessExpr.Execute /
   execDictAccess / execListAccess (expression_exec.go) and ExecuteBatch / execDictAccessBatch /
   execListAccessBatch (expression_exec_vec.go), as they are in /repo.

   funcJson:  ret := make(JSON); json.Unmarshal(data, &ret); return ret, nil   -- the error of
   Unmarshal is IGNORED.  encoding/json validates the whole text first (checkValid) and
   decodes nothing when it is not valid JSON, so an invalid text gives the empty object; a
   valid text whose top-level value is not an object (array, string, number, true, false:
   UnmarshalTypeError; null: the map is set to nil) gives an object without members too;
   a repeated member name keeps the LAST value (the map element is zeroed before every
   member is decoded: no merging).  Nested values arrive as Go's `any` tree: object ->
   map[string]any, array -> []any, string, number -> float64 (strconv.ParseFloat of the
   numeral), true / false, null -> nil.

   encoding/json is library code: [parse_json] below is its executable stand-in on a stated
   FRAGMENT of JSON texts: whitespace (space, tab, LF, CR), objects, arrays, strings made of
   the bytes 0x20..0x7F without quote and backslash (no escapes, no bytes >= 0x80: Go
   rewrites invalid UTF-8), numerals (optional minus, 0 or a non-zero digit and digits, optional point and digits) without exponent, true,
   false, null, nesting depth <= 1000 (Go's limit is 10000).  The parser has three answers:
   [POk] (a document of the fragment), [PBad] (certainly not JSON: a syntax error was found
   while everything before it was understood -- Go then decodes nothing) and [PUnsup] (an
   escape, a byte >= 0x80, an exponent, too deep: outside the fragment -> OutOfModel).

   A number keeps its NUMERAL; the float64 the Go value holds is [f_parse fo numeral]
   (strconv.ParseFloat, the same oracle as float()), taken when the number is looked at
   ([of_json]).  No proofs in this file. *)
From Coq Require Import List String Ascii ZArith Bool Arith.
Import ListNotations.
From KV Require Import Base.Bytes Base.Num Model.Ast Model.Value Model.Eval Model.EvalVec.
Open Scope string_scope.

(* ---------------------------------------------------------------- documents *)

Inductive json :=
  | JNull
  | JBool (b : bool)
  | JNum (numeral : string)
  | JStr (s : string)
  | JArr (l : list json)
  | JObj (m : list (string * json)).     (* members in the order written *)

(* m[name] = v on a Go map, as an association list with distinct names *)
Fixpoint obj_set (m : list (string * json)) (name : string) (v : json) : list (string * json) :=
  match m with
  | [] => [(name, v)]
  | (n, w) :: m' => if String.eqb n name then (n, v) :: m' else (n, w) :: obj_set m' name v
  end.

(* decoding the members of an object one after the other into an empty map *)
Definition dedup (ms : list (string * json)) : list (string * json) :=
  fold_left (fun m kv => obj_set m (fst kv) (snd kv)) ms [].

(* v, have := m[name] *)
Fixpoint obj_get (m : list (string * json)) (name : string) : option json :=
  match m with
  | [] => None
  | (n, w) :: m' => if String.eqb n name then Some w else obj_get m' name
  end.

(* ---------------------------------------------------------------- the JSON text fragment *)

Inductive pres (A : Type) :=
  | POk (a : A) (rest : string)
  | PBad                           (* not JSON *)
  | PUnsup.                        (* outside the fragment *)
Arguments POk {A} a rest.
Arguments PBad {A}.
Arguments PUnsup {A}.

Definition is_ws (c : ascii) : bool :=
  let n := nat_of_ascii c in
  Nat.eqb n 32 || Nat.eqb n 9 || Nat.eqb n 10 || Nat.eqb n 13.

Fixpoint skip_ws (s : string) : string :=
  match s with
  | String c s' => if is_ws c then skip_ws s' else s
  | EmptyString => s
  end.

Definition is_digit (c : ascii) : bool :=
  let n := nat_of_ascii c in Nat.leb 48 n && Nat.leb n 57.

(* the bytes a numeral (with or without exponent) is made of: - + . 0-9 e E *)
Definition is_numch (c : ascii) : bool :=
  let n := nat_of_ascii c in
  is_digit c || Nat.eqb n 45 || Nat.eqb n 43 || Nat.eqb n 46 || Nat.eqb n 101 || Nat.eqb n 69.

Definition is_expch (c : ascii) : bool :=
  let n := nat_of_ascii c in Nat.eqb n 43 || Nat.eqb n 101 || Nat.eqb n 69.

Fixpoint span_num (s : string) : string * string :=
  match s with
  | String c s' => if is_numch c then let '(a, b) := span_num s' in (String c a, b) else (EmptyString, s)
  | EmptyString => (EmptyString, EmptyString)
  end.

Fixpoint any_ch (f : ascii -> bool) (s : string) : bool :=
  match s with
  | String c s' => f c || any_ch f s'
  | EmptyString => false
  end.

Fixpoint all_ch (f : ascii -> bool) (s : string) : bool :=
  match s with
  | String c s' => f c && all_ch f s'
  | EmptyString => true
  end.

(* one or more digits *)
Definition digits1 (s : string) : bool :=
  match s with EmptyString => false | _ => all_ch is_digit s end.

(* digits, then optionally a point and one or more digits *)
Fixpoint int_tail (s : string) : bool :=
  match s with
  | EmptyString => true
  | String c s' => if Nat.eqb (nat_of_ascii c) 46 then digits1 s'
                   else is_digit c && int_tail s'
  end.

(* 0 or a non-zero digit and digits; then optionally a point and one or more digits *)
Definition unsigned_ok (s : string) : bool :=
  match s with
  | EmptyString => false
  | String c s' =>
      if Nat.eqb (nat_of_ascii c) 48 then
        match s' with
        | EmptyString => true
        | String d s'' => Nat.eqb (nat_of_ascii d) 46 && digits1 s''
        end
      else is_digit c && int_tail s'
  end.

(* the numerals of the fragment: an optional minus and the above *)
Definition num_ok (s : string) : bool :=
  match s with
  | String c s' => if Nat.eqb (nat_of_ascii c) 45 then unsigned_ok s' else unsigned_ok s
  | EmptyString => false
  end.

(* a string literal after its opening quote *)
Fixpoint pstr (s : string) : pres string :=
  match s with
  | EmptyString => PBad
  | String c s' =>
      let n := nat_of_ascii c in
      if Nat.eqb n 34 then POk EmptyString s'
      else if Nat.eqb n 92 then PUnsup
      else if Nat.ltb n 32 then PBad
      else if Nat.leb 128 n then PUnsup
      else match pstr s' with
           | POk t r => POk (String c t) r
           | PBad => PBad
           | PUnsup => PUnsup
           end
  end.

(* a character the text fragment allows inside a string literal *)
Definition str_ch (c : ascii) : bool :=
  let n := nat_of_ascii c in
  Nat.leb 32 n && Nat.ltb n 128 && negb (Nat.eqb n 34) && negb (Nat.eqb n 92).

Definition pnum (s : string) : pres json :=
  let '(t, r) := span_num s in
  if any_ch is_expch t then PUnsup
  else if num_ok t then POk (JNum t) r else PBad.

Definition plit (lit : string) (v : json) (s : string) : pres json :=
  if has_prefix lit s then POk v (drop (String.length lit) s) else PBad.

(* value / elements of an array after '[' (up to and including ']') / members of an object
   after '{' (up to and including '}'); [fuel] bounds the recursion (the length of the text
   is enough), [dp] is the nesting budget *)
Fixpoint pval (fuel dp : nat) (s : string) {struct fuel} : pres json :=
  match fuel with
  | O => PUnsup
  | S f =>
      match skip_ws s with
      | EmptyString => PBad
      | String c s' =>
          let n := nat_of_ascii c in
          if Nat.eqb n 34 then
            match pstr s' with POk t r => POk (JStr t) r | PBad => PBad | PUnsup => PUnsup end
          else if Nat.eqb n 123 then
            match dp with
            | O => PUnsup
            | S dp' =>
                match skip_ws s' with
                | String c2 r2 =>
                    if Nat.eqb (nat_of_ascii c2) 125 then POk (JObj []) r2
                    else match pmembers f dp' s' with
                         | POk ms r => POk (JObj (dedup ms)) r
                         | PBad => PBad | PUnsup => PUnsup
                         end
                | EmptyString => PBad
                end
            end
          else if Nat.eqb n 91 then
            match dp with
            | O => PUnsup
            | S dp' =>
                match skip_ws s' with
                | String c2 r2 =>
                    if Nat.eqb (nat_of_ascii c2) 93 then POk (JArr []) r2
                    else match pelems f dp' s' with
                         | POk l r => POk (JArr l) r
                         | PBad => PBad | PUnsup => PUnsup
                         end
                | EmptyString => PBad
                end
            end
          else if Nat.eqb n 116 then plit "true" (JBool true) (String c s')
          else if Nat.eqb n 102 then plit "false" (JBool false) (String c s')
          else if Nat.eqb n 110 then plit "null" JNull (String c s')
          else if Nat.eqb n 45 || is_digit c then pnum (String c s')
          else PBad
      end
  end
with pelems (fuel dp : nat) (s : string) {struct fuel} : pres (list json) :=
  match fuel with
  | O => PUnsup
  | S f =>
      match pval f dp s with
      | POk v r =>
          match skip_ws r with
          | String c r' =>
              let n := nat_of_ascii c in
              if Nat.eqb n 44 then
                match pelems f dp r' with
                | POk l r'' => POk (v :: l) r''
                | PBad => PBad | PUnsup => PUnsup
                end
              else if Nat.eqb n 93 then POk [v] r'
              else PBad
          | EmptyString => PBad
          end
      | PBad => PBad
      | PUnsup => PUnsup
      end
  end
with pmembers (fuel dp : nat) (s : string) {struct fuel} : pres (list (string * json)) :=
  match fuel with
  | O => PUnsup
  | S f =>
      match skip_ws s with
      | String q s1 =>
          if Nat.eqb (nat_of_ascii q) 34 then
            match pstr s1 with
            | POk name r =>
                match skip_ws r with
                | String c r1 =>
                    if Nat.eqb (nat_of_ascii c) 58 then
                      match pval f dp r1 with
                      | POk v r2 =>
                          match skip_ws r2 with
                          | String c2 r3 =>
                              let n := nat_of_ascii c2 in
                              if Nat.eqb n 44 then
                                match pmembers f dp r3 with
                                | POk ms r4 => POk ((name, v) :: ms) r4
                                | PBad => PBad | PUnsup => PUnsup
                                end
                              else if Nat.eqb n 125 then POk [(name, v)] r3
                              else PBad
                          | EmptyString => PBad
                          end
                      | PBad => PBad
                      | PUnsup => PUnsup
                      end
                    else PBad
                | EmptyString => PBad
                end
            | PBad => PBad
            | PUnsup => PUnsup
            end
          else PBad
      | EmptyString => PBad
      end
  end.

Definition max_depth : nat := 1000.

Inductive jparse := JOk (d : json) | JBad | JUnsup.

(* the whole text: one value between optional whitespace *)
Definition parse_json (s : string) : jparse :=
  match pval (S (String.length s)) max_depth s with
  | POk d r => match skip_ws r with EmptyString => JOk d | _ => JBad end
  | PBad => JBad
  | PUnsup => JUnsup
  end.

(* ---------------------------------------------------------------- canonical rendering *)

Fixpoint render (d : json) : string :=
  match d with
  | JNull => "null"
  | JBool true => "true"
  | JBool false => "false"
  | JNum t => t
  | JStr s => """" ++ s ++ """"
  | JArr l =>
      "[" ++ (fix elems (l : list json) : string :=
                match l with
                | [] => "]"
                | [x] => render x ++ "]"
                | x :: l' => render x ++ "," ++ elems l'
                end) l
  | JObj m =>
      "{" ++ (fix membs (m : list (string * json)) : string :=
                match m with
                | [] => "}"
                | [(n, x)] => """" ++ n ++ """:" ++ render x ++ "}"
                | (n, x) :: m' => """" ++ n ++ """:" ++ render x ++ "," ++ membs m'
                end) m
  end.

(* ---------------------------------------------------------------- values of the extended evaluator *)

Section JsonEval.
Variable fo : fops.
Variable re_match : bytes -> bytes -> res bool.

Notation value := (value fo).

(* what an expression over JSON evaluates to: a value of Model/Value.v, a JSON object
   (JSON / map[string]any) or a JSON array ([]any) *)
Inductive jv :=
  | JV (v : value)
  | JM (m : list (string * json))
  | JA (l : list json).

(* a member / element as the Go value it was decoded into *)
Definition of_json (j : json) : res jv :=
  match j with
  | JNull => Ok (JV VNil)
  | JBool b => Ok (JV (VBool b))
  | JNum t => match f_parse fo t with PF_ok f => Ok (JV (VFlt f)) | _ => OutOfModel end
  | JStr s => Ok (JV (VStr s))
  | JArr l => Ok (JA l)
  | JObj m => Ok (JM m)
  end.

(* funcJson after the argument was evaluated; [apos] = args[0].GetPos() *)
Definition func_json (apos : nat) (a : value) : res jv :=
  match conv_bytes fo a with
  | None => Err (EExec apos)
  | Some text =>
      match parse_json text with
      | JOk (JObj m) => Ok (JM m)
      | JOk _ => Ok (JM [])
      | JBad => Ok (JM [])
      | JUnsup => OutOfModel
      end
  end.

(* execDictAccess(fieldName, left); [lpos] = e.Left.GetPos() *)
Definition dict_access (lpos : nat) (name : string) (lft : jv) : res jv :=
  match lft with
  | JM m => match obj_get m name with Some j => of_json j | None => Ok (JV (VStr "")) end
  | JV (VStr s) => match s with EmptyString => Ok (JV (VStr "")) | _ => Err (EExec lpos) end
  | _ => Err (EExec lpos)
  end.

(* lval[idx] guarded by `idx < len(lval)` only: a negative index panics *)
Definition index_list {A} (idx : Z) (l : list A) (conv : A -> res jv) : res jv :=
  if Z.ltb idx 0 then Panic
  else match nth_error l (Z.to_nat idx) with Some x => conv x | None => Ok (JV (VStr "")) end.

(* execListAccess(idx, left) *)
Definition list_access (lpos : nat) (idx : Z) (lft : jv) : res jv :=
  match lft with
  | JA l => index_list idx l of_json
  | JV (VStrs xs) => index_list idx xs (fun x => Ok (JV (VStr x)))
  | JV (VInts xs) => index_list idx xs (fun x => Ok (JV (VInt x)))
  | JV (VFlts xs) => index_list idx xs (fun x => Ok (JV (VFlt x)))
  | JV (VStr s) => match s with EmptyString => Ok (JV (VStr "")) | _ => Err (EExec lpos) end
  | _ => Err (EExec lpos)
  end.

(* FieldAccessExpr.Execute after the left side was evaluated *)
Definition access (l fn : expr) (lft : jv) : res jv :=
  match fn with
  | EStr _ name => dict_access (epos l) name lft
  | ENum _ d => list_access (epos l) (num_value d) lft
  | _ => Err (ESyntax (epos fn))
  end.

Definition is_json_call (n : expr) : bool :=
  match call_name n with Some nm => String.eqb nm "json" | None => false end.

Definition lift (r : res value) : res jv :=
  match r with Ok v => Ok (JV v) | Err e => Err e | Panic => Panic | OutOfModel => OutOfModel end.

(* Expression.Execute on access chains over json(...): everything below a json() call and
   every node that is neither an access nor a json() call is Model/Eval.v's [eval] *)
Fixpoint jeval (k v : bytes) (e : expr) {struct e} : res jv :=
  match e with
  | EAccess _ l fn =>
      match jeval k v l with
      | Ok lft => access l fn lft
      | Err x => Err x
      | Panic => Panic
      | OutOfModel => OutOfModel
      end
  | ERef _ _ d => jeval k v d
  | ECall _ (EName _ _ as n) [arg] =>
      if is_json_call n then
        match eval fo re_match k v arg with
        | Ok a => func_json (epos arg) a
        | Err x => Err x
        | Panic => Panic
        | OutOfModel => OutOfModel
        end
      else lift (eval fo re_match k v e)
  | _ => lift (eval fo re_match k v e)
  end.

(* for i { lft[i] = f(lft[i]) }: the first failing index decides *)
Fixpoint jmap {A} (f : A -> res jv) (xs : list A) : res (list jv) :=
  match xs with
  | [] => Ok []
  | x :: xs' =>
      match f x with
      | Ok y => match jmap f xs' with
                | Ok ys => Ok (y :: ys)
                | Err e => Err e | Panic => Panic | OutOfModel => OutOfModel
                end
      | Err e => Err e
      | Panic => Panic
      | OutOfModel => OutOfModel
      end
  end.

Definition lift_col (r : res (list value)) : res (list jv) :=
  match r with Ok vs => Ok (map JV vs) | Err e => Err e | Panic => Panic | OutOfModel => OutOfModel end.

(* Expression.ExecuteBatch on the same trees: execDictAccessBatch / execListAccessBatch /
   funcJsonVec loop over the column *)
Fixpoint jeval_batch (e : expr) (ch : list kvpair) {struct e} : res (list jv) :=
  match e with
  | EAccess _ l fn =>
      match jeval_batch l ch with
      | Ok lefts =>
          match fn with
          | EStr _ _ | ENum _ _ => jmap (access l fn) lefts
          | _ => Err (ESyntax (epos fn))
          end
      | Err x => Err x
      | Panic => Panic
      | OutOfModel => OutOfModel
      end
  | ERef _ _ d => jeval_batch d ch
  | ECall _ (EName _ _ as n) [arg] =>
      if is_json_call n then
        match eval_batch fo re_match true arg ch with
        | Ok vals => jmap (func_json (epos arg)) vals
        | Err x => Err x
        | Panic => Panic
        | OutOfModel => OutOfModel
        end
      else lift_col (eval_batch fo re_match true e ch)
  | _ => lift_col (eval_batch fo re_match true e ch)
  end.

End JsonEval.

Arguments JV {fo} v.
Arguments JM {fo} m.
Arguments JA {fo} l.

(* ---------------------------------------------------------------- navigation, as documented *)

(* one step of a path: a member name or a 0-based index *)
Inductive step := SName (name : string) | SIdx (n : nat).

(* the member called [name] of an object as written: the last one wins *)
Fixpoint last_member (m : list (string * json)) (name : string) : option json :=
  match m with
  | [] => None
  | (n, w) :: m' =>
      match last_member m' name with
      | Some x => Some x
      | None => if String.eqb n name then Some w else None
      end
  end.

(* None: the step does not apply to this kind of value (the implementation reports an
   ExecuteError); an absent member / element is the empty string, and so is every step from
   the empty string *)
Definition nav1 (j : json) (s : step) : option json :=
  match j, s with
  | JObj m, SName name => Some (match last_member m name with Some x => x | None => JStr "" end)
  | JArr l, SIdx n => Some (nth n l (JStr ""))
  | JStr EmptyString, _ => Some (JStr "")
  | _, _ => None
  end.

Fixpoint navigate (j : json) (p : list step) : option json :=
  match p with
  | [] => Some j
  | s :: p' => match nav1 j s with Some j' => navigate j' p' | None => None end
  end.
