(* Model/Lexer.v -- executable twin of lexer.go: Lexer.Split, buildToken, isNumber, isFloat.

   [lex_step] is one iteration of the loop of Lexer.Split: it takes the Go loop variables
   (tokStart, tokLen, tokStartPos, strStart, strStartChar, prev, ret), the index [i], the byte
   [c] = Query[i] and the look-ahead byte [next] (0 at the end), and dispatches on the byte
   exactly like the Go [switch char].  [lex] folds it over the byte positions and then runs the
   code after the loop ([lex_finish]).

   The Boolean [fx] selects the code that is modelled:
     fx = true   the repaired lexer (fix: commits for D20, D21 and the unterminated quote)
     fx = false  the pinned lexer (kept for the [..._refuted] witnesses only).

   Out of model (flagged in the ghost field [oom], never silently equal): a word -- text outside
   quotes -- that holds a byte >= 0x80 (strings.ToLower / TrimSpace work on UTF-8 runes there),
   and words on which strconv.ParseFloat is not modelled (hex floats 0x.., digit
   separators _).  Bytes inside quotes are unrestricted.

   No proofs in this file. *)
From Coq Require Import String Ascii List NArith ZArith Bool Arith.
From KV Require Import Base.Bytes Model.Token.
Import ListNotations.
Local Open Scope string_scope.

(* ------------------------------------------------------------------ bytes *)

Definition zero_char : ascii := Ascii.zero.
Definition str1 (c : ascii) : string := String c EmptyString.      (* string(char) *)

Fixpoint smap (f : ascii -> ascii) (s : string) : string :=
  match s with
  | EmptyString => EmptyString
  | String c s' => String (f c) (smap f s')
  end.

Fixpoint sforall (p : ascii -> bool) (s : string) : bool :=
  match s with
  | EmptyString => true
  | String c s' => p c && sforall p s'
  end.

Fixpoint sexists (p : ascii -> bool) (s : string) : bool :=
  match s with
  | EmptyString => false
  | String c s' => p c || sexists p s'
  end.

Definition shead (s : string) (d : ascii) : ascii :=
  match s with EmptyString => d | String c _ => c end.

(* the ASCII part of unicode.IsSpace: \t \n \v \f \r and space *)
Definition is_space (c : ascii) : bool :=
  match c with
  | " "%char | "009"%char | "010"%char | "011"%char | "012"%char | "013"%char => true
  | _ => false
  end.

Definition is_ascii_char (c : ascii) : bool := (N_of_ascii c <? 128)%N.

(* strings.ToLower on ASCII text *)
Definition lower_char (c : ascii) : ascii :=
  let n := N_of_ascii c in
  if ((65 <=? n) && (n <=? 90))%N then ascii_of_N (n + 32) else c.
Definition to_lower (s : string) : string := smap lower_char s.

(* strings.TrimSpace on ASCII text *)
Fixpoint trim_left (s : string) : string :=
  match s with
  | EmptyString => EmptyString
  | String c s' => if is_space c then trim_left s' else s
  end.
Fixpoint trim_right (s : string) : string :=
  match s with
  | EmptyString => EmptyString
  | String c s' =>
      match trim_right s' with
      | EmptyString => if is_space c then EmptyString else str1 c
      | r => String c r
      end
  end.
Definition trim_space (s : string) : string := trim_right (trim_left s).

(* ------------------------------------------------------------------ isNumber / isFloat *)

Definition is_digit (c : ascii) : bool :=
  let n := N_of_ascii c in ((48 <=? n) && (n <=? 57))%N.
Definition digit_val (c : ascii) : Z := (Z.of_N (N_of_ascii c) - 48)%Z.
Fixpoint digits_val (acc : Z) (s : string) : Z :=
  match s with
  | EmptyString => acc
  | String c s' => digits_val (acc * 10 + digit_val c)%Z s'
  end.

(* optional sign: None = no sign, Some true = '-', Some false = '+' *)
Definition strip_sign (s : string) : option bool * string :=
  match s with
  | String "-"%char r => (Some true, r)
  | String "+"%char r => (Some false, r)
  | _ => (None, s)
  end.

(* longest prefix of decimal digits, and the rest *)
Fixpoint span_digits (s : string) : string * string :=
  match s with
  | EmptyString => (EmptyString, EmptyString)
  | String c s' =>
      if is_digit c then let (d, r) := span_digits s' in (String c d, r)
      else (EmptyString, s)
  end.

(* strconv.ParseInt(val, 10, 64) succeeds: [+-]? digits+, within the int64 range *)
Definition parse_int_ok (s : string) : bool :=
  let (sg, b) := strip_sign s in
  negb (b =? "") && sforall is_digit b &&
  (let v := digits_val 0 b in
   match sg with
   | Some true => (v <=? 2 ^ 63)%Z
   | _ => (v <? 2 ^ 63)%Z
   end).

(* the decimal exponent as readFloat accumulates it: if e < 10000 { e = e*10 + digit } *)
Fixpoint exp_val (e : Z) (s : string) : Z :=
  match s with
  | EmptyString => e
  | String c s' => exp_val (if (e <? 10000)%Z then (e * 10 + digit_val c)%Z else e) s'
  end.

(* the decimal value m * 10^e rounds (to nearest even, binary64) to +Inf: it is at least
   2^1024 - 2^970, the midpoint between MaxFloat64 and 2^1024 (MaxFloat64 has an odd mantissa) *)
Definition float_overflows (digits : string) (e : Z) : bool :=
  let m := digits_val 0 digits in
  let nd := Z.of_nat (String.length digits) in
  let thr := ((2 ^ 54 - 1) * 2 ^ 970)%Z in
  if (m =? 0)%Z then false
  else if (e + nd <=? 0)%Z then false                 (* value < 1 *)
  else if (400 <? e)%Z then true                       (* value >= 1e401 *)
  else if (0 <=? e)%Z then (thr <=? m * 10 ^ e)%Z
  else (thr * 10 ^ (- e) <=? m)%Z.

(* strconv.ParseFloat(val, 64) succeeds, for lower-cased [val] without '_' and without a hex
   prefix: "inf" / "infinity" (optionally signed), "nan", or
   [+-]? (digits [. digits*] | . digits+) (e [+-]? digits+)?  whose value does not overflow *)
Definition parse_float_ok (s : string) : bool :=
  let (sg, b) := strip_sign s in
  if (b =? "inf") || (b =? "infinity") then true
  else if (b =? "nan") then (match sg with None => true | Some _ => false end)
  else
    let (ip, r1) := span_digits b in
    let (fp, r2) := match r1 with
                    | String "."%char r => span_digits r
                    | _ => (EmptyString, r1)
                    end in
    let mant := ip ++ fp in
    let nfrac := Z.of_nat (String.length fp) in
    if mant =? "" then false
    else match r2 with
         | EmptyString => negb (float_overflows mant (- nfrac))
         | String "e"%char r3 =>
             let (esg, r4) := strip_sign r3 in
             let (ed, r5) := span_digits r4 in
             if ed =? "" then false
             else if negb (r5 =? "") then false
             else
               let e := exp_val 0 ed in
               let e := match esg with Some true => (- e)%Z | _ => e end in
               negb (float_overflows mant (e - nfrac))
         | _ => false
         end.

(* shapes of ParseFloat that the twin does not model: hex floats and digit separators *)
Definition num_char (c : ascii) : bool :=
  is_digit c ||
  match c with "."%char | "e"%char | "+"%char | "-"%char | "_"%char => true | _ => false end.
Definition num_oom (w : string) : bool :=
  let (_, b) := strip_sign w in
  match b with
  | String "0"%char (String "x"%char (String _ _)) => true
  | _ => sforall num_char w && sexists (Ascii.eqb "_"%char) w
  end.

Definition is_number (w : string) : bool := parse_int_ok w.
Definition is_float (w : string) : bool := parse_float_ok w.

(* ------------------------------------------------------------------ buildToken *)

Definition keywords : list (string * toktype) :=
  [ ("select", SELECT); ("where", WHERE); ("key", KEY); ("value", VALUE); ("limit", LIMIT);
    ("order", ORDER); ("by", BY); ("asc", ASC); ("desc", DESC); ("true", TRUE);
    ("false", FALSE); ("as", AS); ("group", GROUP); ("in", OPERATOR); ("between", OPERATOR);
    ("put", PUT); ("remove", REMOVE); ("and", OPERATOR); ("or", OPERATOR); ("delete", DELETE) ].

Fixpoint kw_lookup (w : string) (l : list (string * toktype)) : option toktype :=
  match l with
  | [] => None
  | (k, t) :: l' => if w =? k then Some t else kw_lookup w l'
  end.

(* the [switch curr] of buildToken *)
Definition word_kind (w : string) : toktype :=
  match kw_lookup w keywords with
  | Some t => t
  | None => if is_number w then NUMBER else if is_float w then FLOAT else NAME
  end.

Definition build_token (curr : string) (p : nat) : option token :=
  let w := to_lower (trim_space curr) in
  if w =? "" then None else Some (Tok (word_kind w) w p).

Definition word_oom (curr : string) : bool :=
  let w := to_lower (trim_space curr) in
  negb (sforall is_ascii_char curr) || num_oom w.

(* ------------------------------------------------------------------ Lexer.Split *)

Record lstate := LS {
  tokStart : nat;
  tokLen : nat;
  tokStartPos : nat;
  strStart : bool;
  strStartChar : ascii;
  prev : ascii;
  ret : list token;
  oom : bool          (* ghost: some word so far was out of model *)
}.

Definition init_state : lstate := LS 0 0 0 false zero_char zero_char [] false.

(* the case groups of [switch char] *)
Inductive cclass := CSpace | CQuote | CBackq | COper | CPunct | CSepar | CDefault.

Definition char_class (fx : bool) (c : ascii) : cclass :=
  match c with
  | " "%char => CSpace
  | "009"%char | "010"%char | "011"%char | "012"%char | "013"%char =>
      if fx then CSpace else CDefault
  | """"%char | "'"%char => CQuote
  | "`"%char => CBackq
  | "~"%char | "^"%char | "="%char | "!"%char | "*"%char | "+"%char | "-"%char | "/"%char
  | ">"%char | "<"%char => COper
  | "&"%char | "|"%char | "("%char | ")"%char | "["%char | "]"%char => CPunct
  | ","%char | ";"%char => CSepar
  | _ => CDefault
  end.

(* curr = l.Query[tokStart : tokStart+min(tokLen, l.Length-tokStart)] *)
Definition cur (q : string) (len : nat) (st : lstate) : string :=
  substring (tokStart st) (Nat.min (tokLen st) (len - tokStart st)) q.

(* if token := buildToken(curr, tokStartPos); token != nil { ret = append(ret, token) } *)
Definition emit_word (q : string) (len : nat) (st : lstate) : list token :=
  match build_token (cur q len st) (tokStartPos st) with
  | Some t => (ret st ++ [t])%list
  | None => ret st
  end.
Definition oom_word (q : string) (len : nat) (st : lstate) : bool :=
  oom st || word_oom (cur q len st).

Definition bump (st : lstate) : lstate :=                      (* tokLen++ *)
  LS (tokStart st) (S (tokLen st)) (tokStartPos st) (strStart st) (strStartChar st) (prev st)
     (ret st) (oom st).

(* case ' ' (and, repaired, the other ASCII blanks) *)
Definition step_space (q : string) (len i : nat) (st : lstate) : lstate :=
  if strStart st then bump st
  else LS (S i) 0 (S i) false (strStartChar st) (prev st) (emit_word q len st) (oom_word q len st).

(* the two quote cases: double / single quote (tp = STRING) and backquote (tp = NAME) *)
Definition step_quote (fx : bool) (tp : toktype) (q : string) (len i : nat) (c : ascii)
           (st : lstate) : lstate :=
  if negb (strStart st) then
    if fx then
      (* repaired: the pending word is flushed first *)
      LS (S i) 0 i true c (prev st) (emit_word q len st) (oom_word q len st)
    else
      LS (S i) (tokLen st) i true c (prev st) (ret st) (oom st)
  else if Ascii.eqb (strStartChar st) c then
    let t := Tok tp (cur q len st) (tokStartPos st) in
    if fx then
      (* repaired: the next word starts after the closing quote *)
      LS (S i) 0 (S i) false (strStartChar st) (prev st) (ret st ++ [t])%list (oom st)
    else
      LS (tokStart st) 0 (tokStartPos st) false (strStartChar st) (prev st) (ret st ++ [t])%list
         (oom st)
  else bump st.

(* the operator characters that are emitted on their own at this position *)
Definition single_op (fx : bool) (c next : ascii) : bool :=
  if fx then
    (negb (Ascii.eqb next "="%char) ||
     match c with "*"%char | "+"%char | "-"%char | "/"%char => true | _ => false end) &&
    match c with
    | "!"%char | "*"%char | "+"%char | "-"%char | "/"%char | "^"%char | "~"%char
    | ">"%char | "<"%char => true
    | _ => false
    end
  else
    negb (Ascii.eqb next "="%char) &&
    match c with
    | "!"%char | "*"%char | "+"%char | "-"%char | "/"%char | ">"%char | "<"%char => true
    | _ => false
    end.

(* if char == '=' { switch prev {...} } *)
Definition eq_token (p : ascii) (i : nat) : token :=
  match p with
  | "^"%char => Tok OPERATOR "^=" (i - 1)
  | "~"%char => Tok OPERATOR "~=" (i - 1)
  | "!"%char => Tok OPERATOR "!=" (i - 1)
  | "<"%char => Tok OPERATOR "<=" (i - 1)
  | ">"%char => Tok OPERATOR ">=" (i - 1)
  | _ => Tok OPERATOR "=" i
  end.

(* case '~', '^', '=', '!', '*', '+', '-', '/', '>', '<' *)
Definition step_oper (fx : bool) (q : string) (len i : nat) (c next : ascii) (st : lstate)
  : lstate :=
  if strStart st then bump st
  else
    let r := emit_word q len st in
    let o := oom_word q len st in
    if single_op fx c next then
      LS (S i) 0 (S i) false (strStartChar st) (prev st) (r ++ [Tok OPERATOR (str1 c) i])%list o
    else if Ascii.eqb c "="%char then
      LS (S i) 0 (S i) false (strStartChar st) (prev st) (r ++ [eq_token (prev st) i])%list o
    else
      LS (S i) 0 (S i) false (strStartChar st) (prev st) r o.

Definition punct_token (c : ascii) (i : nat) : token :=
  match c with
  | "("%char => Tok LPAREN (str1 c) i
  | ")"%char => Tok RPAREN (str1 c) i
  | "["%char => Tok LBRACK (str1 c) i
  | "]"%char => Tok RBRACK (str1 c) i
  | _ => Tok OPERATOR (str1 c) i
  end.

Definition sep_token (c : ascii) (i : nat) : token :=
  match c with
  | ","%char => Tok SEP (str1 c) i
  | _ => Tok SEMI (str1 c) i
  end.

(* case '&', '|', '(', ')', '[', ']'   and   case ',', ';' *)
Definition step_single (mk : ascii -> nat -> token) (q : string) (len i : nat) (c : ascii)
           (st : lstate) : lstate :=
  if strStart st then bump st
  else
    LS (S i) 0 (S i) false (strStartChar st) (prev st) (emit_word q len st ++ [mk c i])%list
       (oom_word q len st).

Definition set_prev (st : lstate) (c : ascii) : lstate :=
  LS (tokStart st) (tokLen st) (tokStartPos st) (strStart st) (strStartChar st) c (ret st)
     (oom st).

(* one iteration of the for loop *)
Definition lex_step (fx : bool) (q : string) (len i : nat) (c next : ascii) (st : lstate)
  : lstate :=
  set_prev
    (match char_class fx c with
     | CSpace => step_space q len i st
     | CQuote => step_quote fx STRING q len i c st
     | CBackq => step_quote fx NAME q len i c st
     | COper => step_oper fx q len i c next st
     | CPunct => step_single punct_token q len i c st
     | CSepar => step_single sep_token q len i c st
     | CDefault => bump st
     end) c.

(* for i := 0; i < l.Length; i++ : [rest] is Query[i:], the look-ahead is its second byte *)
Fixpoint lex_loop (fx : bool) (q : string) (len i : nat) (rest : string) (st : lstate) : lstate :=
  match rest with
  | EmptyString => st
  | String c rest' =>
      lex_loop fx q len (S i) rest' (lex_step fx q len i c (shead rest' zero_char) st)
  end.

(* the code after the loop *)
Definition lex_finish (fx : bool) (q : string) (len : nat) (st : lstate) : lstate :=
  let st1 :=
    if fx && strStart st then
      (* repaired: an unterminated quote is reported as a word that begins at the quote *)
      LS (tokStartPos st) (S (tokLen st)) (tokStartPos st) (strStart st) (strStartChar st)
         (prev st) (ret st) (oom st)
    else st in
  if Nat.ltb 0 (tokLen st1) then
    LS (tokStart st1) (tokLen st1) (tokStartPos st1) (strStart st1) (strStartChar st1) (prev st1)
       (emit_word q len st1) (oom_word q len st1)
  else st1.

Definition lex_state (fx : bool) (q : string) : lstate :=
  let len := String.length q in
  lex_finish fx q len (lex_loop fx q len 0 q init_state).

(* Lexer.Split of the repaired lexer, of the pinned lexer, and the out-of-model flag *)
Definition lex (q : string) : list token := ret (lex_state true q).
Definition lex_pinned (q : string) : list token := ret (lex_state false q).
Definition lex_oom (q : string) : bool := oom (lex_state true q).

(* what spacing must not change: kinds and texts *)
Definition kind_text (t : token) : toktype * string := (tp t, data t).
