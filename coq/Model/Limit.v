(* Model/Limit.v -- executable twin of limit_plan.go (LimitPlan and FinalLimitPlan share
   the same code up to the row type, so the twin is polymorphic in the row type A).

   The child plan is abstracted as what Next/Batch can observe of it:
     - row mode  : the list of rows the child yields before it yields nil (forever);
     - batch mode: a list of batches [bs]; pulling from an exhausted child yields the
       empty batch (forever).  An empty batch inside [bs] is allowed in the model (the Go
       code treats it as end-of-stream for that call), the theorems exclude it by
       [Forall nonempty bs], which is what every real child guarantees.

   [fixed = true] is the code as it is in /repo after the fix: commit for D5 (the batch that
   is skipped in full is dropped);  [fixed = false] is the pinned behaviour, kept for the
   regression witness [limit_batch_slice_refuted]. *)
From Coq Require Import List Arith Lia Bool.
Import ListNotations.

Set Implicit Arguments.

Section Limit.
Variable A : Type.

(* mutable fields of LimitPlan / FinalLimitPlan *)
Record lstate := LState { skips : nat; current : nat }.
Definition linit := LState 0 0.

(* ---------------- row mode: Next ---------------- *)

(* for p.skips < p.Start { child.Next; if nil return nil; p.skips++ } *)
Fixpoint next_skip (start sk : nat) (rows : list A) : option (nat * list A) :=
  if sk <? start then
    match rows with
    | [] => None                      (* child exhausted while skipping: return nil *)
    | _ :: rows' => next_skip start (S sk) rows'
    end
  else Some (sk, rows).

(* One call of Next.  Result: the row (None = nil = end), new state, rest of the child. *)
Definition next (start count : nat) (st : lstate) (rows : list A)
  : option A * lstate * list A :=
  match next_skip start (skips st) rows with
  | None => (None, LState (skips st + length rows) (current st), [])
      (* skips is incremented once per consumed row; it is not observable afterwards *)
  | Some (sk, rows1) =>
      if count <=? current st then (None, LState sk (current st), rows1)
      else match rows1 with
           | [] => (None, LState sk (current st), [])
           | r :: rows2 => (Some r, LState sk (S (current st)), rows2)
           end
  end.

(* drain in row mode: call Next until it returns nil.  Fuel = |rows| + 1 calls suffice. *)
Fixpoint drain_row_fuel (fuel : nat) (start count : nat) (st : lstate) (rows : list A)
  : option (list A) :=
  match fuel with
  | 0 => None
  | S f =>
      match next start count st rows with
      | (None, _, _) => Some []
      | (Some r, st', rows') =>
          match drain_row_fuel f start count st' rows' with
          | None => None
          | Some out => Some (r :: out)
          end
      end
  end.

Definition drain_row (start count : nat) (rows : list A) : option (list A) :=
  drain_row_fuel (S (length rows)) start count linit rows.

(* ---------------- batch mode: Batch ---------------- *)

Variable fixed : bool.

(* the skip loop.  Result: None  = child returned an empty batch (Batch returns nil,nil);
                           Some rows = loop left, [rows] is the Go variable of that name. *)
Fixpoint skip_loop (start sk : nat) (last : list A) (bs : list (list A))
  : option (list A) * nat * list (list A) :=
  if sk <? start then
    match bs with
    | [] => (None, sk, [])
    | b :: bs' =>
        let rest := start - sk in
        let n := length b in
        if n =? 0 then (None, sk, bs')
        else if n <=? rest then
               skip_loop start (sk + n) (if fixed then [] else b) bs'
             else (Some (skipn rest b), sk + rest, bs')
    end
  else (Some last, sk, bs).

(* for _, row := range rows { if p.current >= p.Count {break}; ret = append(ret,row); count++; p.current++ } *)
Fixpoint take_left (count cur : nat) (rows : list A) (ret : list A) (cnt : nat)
  : list A * nat * nat :=
  match rows with
  | [] => (ret, cur, cnt)
  | r :: rows' =>
      if count <=? cur then (ret, cur, cnt)
      else take_left count (S cur) rows' (ret ++ [r]) (S cnt)
  end.

(* inner loop of the refill: append, count++, current++, then test current >= Count *)
Fixpoint take_fill (count cur : nat) (rows : list A) (ret : list A) (cnt : nat)
  : list A * nat * nat * bool :=
  match rows with
  | [] => (ret, cur, cnt, false)
  | r :: rows' =>
      let cur' := S cur in
      if count <=? cur' then (ret ++ [r], cur', S cnt, true)
      else take_fill count cur' rows' (ret ++ [r]) (S cnt)
  end.

(* for !finish { rows = child.Batch(); if empty break; inner loop; if count >= B break } *)
Fixpoint fill_loop (B count cur : nat) (ret : list A) (cnt : nat) (bs : list (list A))
  : list A * nat * list (list A) :=
  match bs with
  | [] => (ret, cur, [])
  | b :: bs' =>
      if length b =? 0 then (ret, cur, bs')
      else
        match take_fill count cur b ret cnt with
        | (ret', cur', cnt', fin) =>
            if fin then (ret', cur', bs')
            else if B <=? cnt' then (ret', cur', bs')
            else fill_loop B count cur' ret' cnt' bs'
        end
  end.

(* One call of Batch. *)
Definition batch (B start count : nat) (st : lstate) (bs : list (list A))
  : list A * lstate * list (list A) :=
  match skip_loop start (skips st) [] bs with
  | (None, sk, bs1) => ([], LState sk (current st), bs1)
  | (Some rows, sk, bs1) =>
      match take_left count (current st) rows [] 0 with
      | (ret, cur, cnt) =>
          if count <=? cur then (ret, LState sk cur, bs1)
          else
            match fill_loop B count cur ret cnt bs1 with
            | (ret', cur', bs2) => (ret', LState sk cur', bs2)
            end
      end
  end.

(* drain in batch mode: call Batch until it returns no rows. *)
Fixpoint drain_batch_fuel (fuel B start count : nat) (st : lstate) (bs : list (list A))
  : option (list (list A)) :=
  match fuel with
  | 0 => None
  | S f =>
      match batch B start count st bs with
      | ([], _, _) => Some []
      | (out, st', bs') =>
          match drain_batch_fuel f B start count st' bs' with
          | None => None
          | Some outs => Some (out :: outs)
          end
      end
  end.

Definition drain_batch (B start count : nat) (bs : list (list A)) : option (list (list A)) :=
  drain_batch_fuel (S (length bs)) B start count linit bs.

End Limit.

(* ---------------- the skip/limit logic embedded in AggregatePlan.Batch/Next ---------------- *)
(* aggregate_plan.go prepares all group rows first and then serves them from [a.pos] with the
   same skip/limit arithmetic (Start, Limit = -1 means no limit).  See Model/Aggregate.v. *)
