(* Model/Limit64.v -- MACHINE-INTEGER twin of limit_plan.go (LimitPlan / FinalLimitPlan .Next and
   .Batch: the same code up to the row type), of the skip/limit bookkeeping that aggregate_plan.go
   embeds in AggregatePlan.Next / .Batch, and of DeletePlan.execute's row counter.

   Model/Limit.v (C08) is the same code with UNBOUNDED [nat] counters.  Here every Go variable of
   type int (Start, Count / Limit, skips, current, restSkips, nrows, count, PlanBatchSize) is a [Z]
   and every arithmetic expression the Go code forms goes through the two's-complement wrap-around
   [Base.Num.wrap64] (int = int64: GOARCH amd64 / arm64, the platform the correspondence runs on):

        Go expression (limit_plan.go, both plans)          twin
        p.skips++                                          add64 sk 1
        p.current++                                        add64 cur 1
        restSkips := p.Start - p.skips                     sub64 start sk
        nrows := len(rows)                                 len64 b         (a length: 0 <= . < 2^63)
        p.skips += nrows                                   add64 sk n
        p.skips += restSkips                               add64 sk rest
        rows[restSkips:]                                   skipnZ rest b
        count++                                            add64 cnt 1
        p.skips < p.Start, p.current >= p.Count,
        nrows <= restSkips, count >= PlanBatchSize         Z comparisons of the wrapped values

   The Go code forms NO sum Start + Count anywhere (that is what Proofs/Limit64Proofs.v turns into a
   theorem: under 0 <= Start, Count < 2^63 -- all the parser can produce -- no intermediate value
   leaves the int64 range, so this twin and the [nat] twin return the same rows).

   Nothing is clamped: [limit 9223372036854775807, 9223372036854775807] runs through these
   functions as it is (binary [Z]; only list positions are unary).  No proofs in this file. *)
From Coq Require Import List ZArith Bool.
Import ListNotations.
From KV Require Import Base.Num.
Local Open Scope Z_scope.

Set Implicit Arguments.

Section Limit64.
Variable A : Type.

(* mutable fields of LimitPlan / FinalLimitPlan (Go int) *)
Record mstate := MState { mskips : Z; mcurrent : Z }.
Definition minit := MState 0 0.

(* len(rows) as a Go int *)
Definition len64 (l : list A) : Z := Z.of_nat (length l).

(* rows[k:] for 0 <= k <= len(rows) (the only way the code uses it); structural, so that a huge k
   is never converted to a unary number *)
Fixpoint skipnZ (k : Z) (l : list A) : list A :=
  match l with
  | [] => []
  | _ :: l' => if k <=? 0 then l else skipnZ (k - 1) l'
  end.

(* ---------------- row mode: Next ---------------- *)

(* for p.skips < p.Start { child.Next; if nil return nil; p.skips++ }
   result: (child ended inside the loop, skips, rest of the child) *)
Fixpoint next_skip64 (start sk : Z) (rows : list A) : bool * Z * list A :=
  if sk <? start then
    match rows with
    | [] => (true, sk, [])
    | _ :: rows' => next_skip64 start (add64 sk 1) rows'
    end
  else (false, sk, rows).

(* one call of Next: the row (None = nil), the new state, the rest of the child *)
Definition next64 (start count : Z) (st : mstate) (rows : list A)
  : option A * mstate * list A :=
  match next_skip64 start (mskips st) rows with
  | (true, sk, _) => (None, MState sk (mcurrent st), [])
  | (false, sk, rows1) =>
      if count <=? mcurrent st then (None, MState sk (mcurrent st), rows1)  (* p.current >= p.Count *)
      else match rows1 with
           | [] => (None, MState sk (mcurrent st), [])
           | r :: rows2 => (Some r, MState sk (add64 (mcurrent st) 1), rows2)
           end
  end.

Fixpoint drain_row64_fuel (fuel : nat) (start count : Z) (st : mstate) (rows : list A)
  : option (list A) :=
  match fuel with
  | O => None
  | S f =>
      match next64 start count st rows with
      | (None, _, _) => Some []
      | (Some r, st', rows') =>
          match drain_row64_fuel f start count st' rows' with
          | None => None
          | Some out => Some (r :: out)
          end
      end
  end.

Definition drain_row64 (start count : Z) (rows : list A) : option (list A) :=
  drain_row64_fuel (S (length rows)) start count minit rows.

(* ---------------- batch mode: Batch ---------------- *)

(* the skip loop.  None = the child returned an empty batch (Batch returns nil, nil);
   Some rows = the loop was left, [rows] is the Go variable of that name *)
Fixpoint skip_loop64 (start sk : Z) (last : list A) (bs : list (list A))
  : option (list A) * Z * list (list A) :=
  if sk <? start then
    match bs with
    | [] => (None, sk, [])
    | b :: bs' =>
        let rest := sub64 start sk in            (* restSkips := p.Start - p.skips *)
        let n := len64 b in                      (* nrows := len(rows) *)
        if n =? 0 then (None, sk, bs')
        else if n <=? rest then skip_loop64 start (add64 sk n) [] bs'   (* p.skips += nrows; rows = nil *)
        else (Some (skipnZ rest b), add64 sk rest, bs')                 (* p.skips += restSkips; rows[restSkips:] *)
    end
  else (Some last, sk, bs).

(* for _, row := range rows { if p.current >= p.Count {break}; append; count++; p.current++ } *)
Fixpoint take_left64 (count cur : Z) (rows : list A) (ret : list A) (cnt : Z)
  : list A * Z * Z :=
  match rows with
  | [] => (ret, cur, cnt)
  | r :: rows' =>
      if count <=? cur then (ret, cur, cnt)
      else take_left64 count (add64 cur 1) rows' (ret ++ [r]) (add64 cnt 1)
  end.

(* inner loop of the refill: append, count++, p.current++, then test p.current >= p.Count *)
Fixpoint take_fill64 (count cur : Z) (rows : list A) (ret : list A) (cnt : Z)
  : list A * Z * Z * bool :=
  match rows with
  | [] => (ret, cur, cnt, false)
  | r :: rows' =>
      let cur' := add64 cur 1 in
      if count <=? cur' then (ret ++ [r], cur', add64 cnt 1, true)
      else take_fill64 count cur' rows' (ret ++ [r]) (add64 cnt 1)
  end.

(* for !finish { rows = child.Batch(); if empty break; inner loop; if count >= PlanBatchSize break } *)
Fixpoint fill_loop64 (B count cur : Z) (ret : list A) (cnt : Z) (bs : list (list A))
  : list A * Z * list (list A) :=
  match bs with
  | [] => (ret, cur, [])
  | b :: bs' =>
      if len64 b =? 0 then (ret, cur, bs')
      else
        match take_fill64 count cur b ret cnt with
        | (ret', cur', cnt', fin) =>
            if fin then (ret', cur', bs')
            else if B <=? cnt' then (ret', cur', bs')
            else fill_loop64 B count cur' ret' cnt' bs'
        end
  end.

(* one call of Batch *)
Definition batch64 (B start count : Z) (st : mstate) (bs : list (list A))
  : list A * mstate * list (list A) :=
  match skip_loop64 start (mskips st) [] bs with
  | (None, sk, bs1) => ([], MState sk (mcurrent st), bs1)
  | (Some rows, sk, bs1) =>
      match take_left64 count (mcurrent st) rows [] 0 with
      | (ret, cur, cnt) =>
          if count <=? cur then (ret, MState sk cur, bs1)
          else
            match fill_loop64 B count cur ret cnt bs1 with
            | (ret', cur', bs2) => (ret', MState sk cur', bs2)
            end
      end
  end.

Fixpoint drain_batch64_fuel (fuel : nat) (B start count : Z) (st : mstate) (bs : list (list A))
  : option (list (list A)) :=
  match fuel with
  | O => None
  | S f =>
      match batch64 B start count st bs with
      | ([], _, _) => Some []
      | (out, st', bs') =>
          match drain_batch64_fuel f B start count st' bs' with
          | None => None
          | Some outs => Some (out :: outs)
          end
      end
  end.

Definition drain_batch64 (B start count : Z) (bs : list (list A)) : option (list (list A)) :=
  drain_batch64_fuel (S (length bs)) B start count minit bs.

(* ---------------- AggregatePlan.Next / .Batch: the pushed-down skip / limit ----------------
   a.next / a.batch serve the prepared group rows (the child stream here); Start / Limit are the
   plan's fields, Limit = -1 when the statement has no LIMIT or has an ORDER BY:
       if a.Limit < 0 { return a.next(ctx) }      resp.  a.batch(ctx)
   and otherwise the code of LimitPlan with a.skips / a.current / a.Start / a.Limit. *)
Definition agg_next64 (start limit : Z) (st : mstate) (rows : list A)
  : option A * mstate * list A :=
  if limit <? 0 then
    match rows with
    | [] => (None, st, [])
    | r :: rows' => (Some r, st, rows')
    end
  else next64 start limit st rows.

Definition agg_batch64 (B start limit : Z) (st : mstate) (bs : list (list A))
  : list A * mstate * list (list A) :=
  if limit <? 0 then
    match bs with
    | [] => ([], st, [])
    | b :: bs' => (b, st, bs')
    end
  else batch64 B start limit st bs.

Fixpoint agg_drain_row64_fuel (fuel : nat) (start limit : Z) (st : mstate) (rows : list A)
  : option (list A) :=
  match fuel with
  | O => None
  | S f =>
      match agg_next64 start limit st rows with
      | (None, _, _) => Some []
      | (Some r, st', rows') =>
          match agg_drain_row64_fuel f start limit st' rows' with
          | None => None
          | Some out => Some (r :: out)
          end
      end
  end.
Definition agg_drain_row64 (start limit : Z) (rows : list A) : option (list A) :=
  agg_drain_row64_fuel (S (length rows)) start limit minit rows.

Fixpoint agg_drain_batch64_fuel (fuel : nat) (B start limit : Z) (st : mstate) (bs : list (list A))
  : option (list (list A)) :=
  match fuel with
  | O => None
  | S f =>
      match agg_batch64 B start limit st bs with
      | ([], _, _) => Some []
      | (out, st', bs') =>
          match agg_drain_batch64_fuel f B start limit st' bs' with
          | None => None
          | Some outs => Some (out :: outs)
          end
      end
  end.
Definition agg_drain_batch64 (B start limit : Z) (bs : list (list A)) : option (list (list A)) :=
  agg_drain_batch64_fuel (S (length bs)) B start limit minit bs.

(* ---------------- DeletePlan.execute ----------------
   count := 0; for { rows := child.Batch(); if len(rows) == 0 { return count }; BatchDelete(keys of
   rows); count += nrows }.   [outs] = the batches the child (the LimitPlan, or the scan) returned
   before its first empty one: result = (batches handed to BatchDelete, the returned count). *)
Fixpoint delete_count64 (cnt : Z) (outs : list (list A)) : Z :=
  match outs with
  | [] => cnt
  | b :: outs' => delete_count64 (add64 cnt (len64 b)) outs'
  end.

(* DELETE ... LIMIT start, count at PlanBatchSize = B over a scan that yields the batches [bs]:
   what is handed to BatchDelete, batch by batch, and the number DeletePlan reports *)
Definition delete_limit64 (B start count : Z) (bs : list (list A)) : option (list (list A) * Z) :=
  match drain_batch64 B start count bs with
  | None => None
  | Some outs => Some (outs, delete_count64 0 outs)
  end.

End Limit64.

(* ---------------- optimizer.go: where Start / Count come from ----------------
   parseLimit (Model/StmtParser.v parse_limit): LimitStmt{Start, Count} = int(NumberExpr.Int) of
   the one or two NUMBER tokens (StmtParser.limit_val: strconv.ParseInt(data, 10, 64), 0 on error).
   buildFinalPlan: AggregatePlan{Start: 0, Limit: -1} unless the statement has a LIMIT and no
   ORDER BY, then {Start: stmt.Limit.Start, Limit: stmt.Limit.Count} and no FinalLimitPlan. *)
Definition agg_fields64 (limit : option (Z * Z)) (has_order : bool) : Z * Z :=
  match limit with
  | Some (s, n) => if has_order then (0, -1) else (s, n)
  | None => (0, -1)
  end.
