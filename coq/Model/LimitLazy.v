(* Model/LimitLazy.v -- executable twin of limit_plan.go (LimitPlan / FinalLimitPlan .Next and
   .Batch, the code after the fix: commit for D5) over a child that is PULLED: the child is a
   state with two step functions that may fail,
       cnext  : child.Next(ctx)   -> (row | nil, new state) or an error
       cbatch : child.Batch(ctx)  -> (rows, new state) or an error.
   Model/Limit.v (C08) is the same code over a child given as the complete list of its batches;
   it cannot express that a child which WOULD fail further down is never asked that far.  The two
   twins are related by Proofs/LimitLazyProofs.v (sim_batch / sim_drain).

   The bottom of the file composes SELECT ... WHERE ... LIMIT s, n:
   FinalLimitPlan(ProjectionPlan(scan)) with the scan / projection of Model/ScanProj.v. *)
From Coq Require Import List String ZArith Bool Arith.
Import ListNotations.
From KV Require Import Base.Bytes Model.Ast Model.Value Model.Eval Model.EvalVec Model.ScanProj.
From KV Require Model.Limit.
Local Open Scope nat_scope.
Local Open Scope list_scope.

Section LimitLazy.
Variable S A : Type.
Variable cnext : S -> res (option A * S).
Variable cbatch : S -> res (list A * S).

Notation lstate := Limit.lstate.
Notation LState := Limit.LState.
Notation skips := Limit.skips.
Notation current := Limit.current.

(* ---------------------------------------------------------------- row mode: Next *)

(* for p.skips < p.Start { child.Next; if nil return nil; p.skips++ }   with n = Start - skips.
   Result: rows skipped, whether the child ended inside the loop, child state *)
Fixpoint lskip (n : nat) (s : S) : res (nat * bool * S) :=
  match n with
  | 0 => Ok (0, false, s)
  | Datatypes.S n' =>
      do r <- cnext s;
      match r with
      | (None, s') => Ok (0, true, s')
      | (Some _, s') =>
          do x <- lskip n' s';
          match x with (k, e, s'') => Ok (Datatypes.S k, e, s'') end
      end
  end.

Definition lnext (start count : nat) (st : lstate) (s : S) : res (option A * lstate * S) :=
  do x <- lskip (start - skips st) s;
  match x with
  | (k, ended, s1) =>
      let st1 := LState (skips st + k) (current st) in
      if ended then Ok (None, st1, s1)
      else if count <=? current st then Ok (None, st1, s1)
      else
        do r <- cnext s1;
        match r with
        | (None, s2) => Ok (None, st1, s2)
        | (Some row, s2) => Ok (Some row, LState (skips st1) (Datatypes.S (current st)), s2)
        end
  end.

(* drain: Next until nil; every returned row increments current, at most count rows *)
Fixpoint ldrain_row_fuel (fuel start count : nat) (st : lstate) (s : S) : res (list A) :=
  match fuel with
  | 0 => OutOfModel
  | Datatypes.S f =>
      do r <- lnext start count st s;
      match r with
      | (None, _, _) => Ok []
      | (Some row, st', s') => do out <- ldrain_row_fuel f start count st' s'; Ok (row :: out)
      end
  end.
Definition ldrain_row (start count : nat) (s : S) : res (list A) :=
  ldrain_row_fuel (Datatypes.S count) start count Limit.linit s.

(* ---------------------------------------------------------------- batch mode: Batch *)

(* the skip loop (repaired code: a batch skipped in full leaves rows = nil).
   None = the child returned an empty batch (Batch returns nil, nil); Some rows = loop left *)
Fixpoint lskip_batch (fuel start sk : nat) (s : S) : res (option (list A) * nat * S) :=
  if sk <? start then
    match fuel with
    | 0 => OutOfModel
    | Datatypes.S f =>
        do r <- cbatch s;
        match r with
        | (b, s') =>
            let rest := start - sk in
            let n := List.length b in
            if n =? 0 then Ok (None, sk, s')
            else if n <=? rest then lskip_batch f start (sk + n) s'
            else Ok (Some (skipn rest b), sk + rest, s')
        end
    end
  else Ok (Some [], sk, s).

(* for !finish { rows = child.Batch(); if empty break; inner loop; if count >= B break } *)
Fixpoint lfill (fuel B count cur : nat) (ret : list A) (cnt : nat) (s : S) : res (list A * nat * S) :=
  match fuel with
  | 0 => OutOfModel
  | Datatypes.S f =>
      do r <- cbatch s;
      match r with
      | (b, s') =>
          if List.length b =? 0 then Ok (ret, cur, s')
          else
            match Limit.take_fill count cur b ret cnt with
            | (ret', cur', cnt', fin) =>
                if fin then Ok (ret', cur', s')
                else if B <=? cnt' then Ok (ret', cur', s')
                else lfill f B count cur' ret' cnt' s'
            end
      end
  end.

(* One call of Batch.  Fuel: the skip loop pulls at most Start - skips non-empty batches, the
   refill loop at most B. *)
Definition lbatch (B start count : nat) (st : lstate) (s : S) : res (list A * lstate * S) :=
  do x <- lskip_batch (Datatypes.S (start - skips st)) start (skips st) s;
  match x with
  | (None, sk, s1) => Ok ([], LState sk (current st), s1)
  | (Some rows, sk, s1) =>
      match Limit.take_left count (current st) rows [] 0 with
      | (ret, cur, cnt) =>
          if count <=? cur then Ok (ret, LState sk cur, s1)
          else
            do y <- lfill (Datatypes.S B) B count cur ret cnt s1;
            match y with (ret', cur', s2) => Ok (ret', LState sk cur', s2) end
      end
  end.

(* drain: Batch until it returns no rows *)
Fixpoint ldrain_batch_fuel (fuel B start count : nat) (st : lstate) (s : S) : res (list (list A)) :=
  match fuel with
  | 0 => OutOfModel
  | Datatypes.S f =>
      do r <- lbatch B start count st s;
      match r with
      | ([], _, _) => Ok []
      | (out, st', s') => do outs <- ldrain_batch_fuel f B start count st' s'; Ok (out :: outs)
      end
  end.

End LimitLazy.

Arguments lskip {S A} cnext n s.
Arguments lnext {S A} cnext start count st s.
Arguments ldrain_row_fuel {S A} cnext fuel start count st s.
Arguments ldrain_row {S A} cnext start count s.
Arguments lskip_batch {S A} cbatch fuel start sk s.
Arguments lfill {S A} cbatch fuel B count cur ret cnt s.
Arguments lbatch {S A} cbatch B start count st s.
Arguments ldrain_batch_fuel {S A} cbatch fuel B start count st s.

(* ---------------------------------------------------------------- SELECT ... LIMIT start, count *)
Section SelectLimit.
Variable fo : fops.
Variable re_match : bytes -> bytes -> res bool.

Definition sel_frow (wh : expr) (kv : kvpair) : res bool := filter_row fo re_match (fst kv) (snd kv) wh.

(* FinalLimitPlan(ProjectionPlan(scan)) drained row by row *)
Definition select_limit_row (start count : nat) (wh : expr) (fields : option (list expr))
           (slots : list (option kvpair)) : res (list (list (value fo))) :=
  ldrain_row (proj_next (sel_frow wh) (sel_prow fo re_match fields)) start count slots.

(* ... and in batches.  Every Batch call that returns rows has consumed at least one slot. *)
Definition select_limit_batch (B start count : nat) (wh : expr) (fields : option (list expr))
           (slots : list (option kvpair)) : res (list (list (list (value fo)))) :=
  ldrain_batch_fuel (proj_batch (filter_batch fo re_match true wh) (sel_pbatch fo re_match fields) B)
                    (Datatypes.S (Datatypes.S (List.length slots))) B start count Limit.linit slots.

End SelectLimit.
