(* Model/Order.v -- executable twin of order_plan.go (FinalOrderPlan, orderColumnsRow.Less and
   compare*, after the fix: commit for D16) and of Optimizer.buildFinalOrderPlan
   (optimizer.go).  No proofs here.

   What is NOT modelled here (oracles, see DESIGN 4.6):
   - the evaluation of the ORDER BY expressions: FinalOrderPlan sorts the rows its child
     (projection or aggregate node) yields; the sort keys are columns of those rows, found by
     field name in Init.  The twin receives the child's rows as data.
   - container/heap: replaced by a list-based priority queue ([pq_push] appends, [pq_pop]
     removes the first minimal element w.r.t. [less]).  Proofs/OrderProofs.v proves the
     law heap.Pop is trusted for (the popped element is minimal, the rest is a permutation).
   - strconv.ParseInt / ParseFloat (used by compareNumber on text operands): section
     variables [parse_int], [parse_float]; theorems hold for every choice of them.
   - the child plan: a finite list of rows (row mode) / of batches (batch mode) followed by
     nil / the empty batch for ever; child errors belong to C13. *)
From Coq Require Import List String ZArith Bool Arith.
Import ListNotations.
From KV Require Import Base.Bytes Model.Ast.
Local Open Scope list_scope.

(* ------------------------------------------------------------------ values and types *)

(* The dynamic types the compare* type switches distinguish.  All Go integer kinds that have
   a case in orderNumber are [VInt] (value after the int64 conversion the code performs);
   float32/float64 are [VFloat] with the binary64 bit pattern as a number in [0, 2^64);
   everything without a case in any of the switches (nil, JSON, lists, int8, uint8, ...) is
   [VOther], carrying a canonical rendering used only to tell rows apart. *)
Inductive value :=
  | VBytes (b : bytes)      (* []byte *)
  | VStr (b : bytes)        (* string *)
  | VInt (z : Z)
  | VFloat (bits : Z)
  | VBool (b : bool)
  | VOther (canon : bytes).

Definition row := list value.

(* Type (expression.go) *)
Inductive type := TUNKNOWN | TBOOL | TSTR | TNUMBER | TIDENT | TLIST | TJSON.

(* ------------------------------------------------------------------ binary64 by its bits *)

Local Open Scope Z_scope.

Definition two52 : Z := 2 ^ 52.
Definition two63 : Z := 2 ^ 63.
Definition f_inf : Z := 2047 * two52.          (* 0x7FF0000000000000 *)

Definition f_wf (bits : Z) : bool := (0 <=? bits) && (bits <? 2 ^ 64).  (* a 64-bit pattern *)
Definition f_neg (bits : Z) : bool := two63 <=? bits.                   (* sign bit *)
Definition f_abs (bits : Z) : Z := if f_neg bits then bits - two63 else bits.
Definition f_is_nan (bits : Z) : bool := f_inf <? f_abs bits.

(* Order-preserving encoding of the non-NaN patterns: sign-magnitude read as an integer
   (+0 and -0 both 0).  Go's ==, <, > on float64 are comparisons of the denoted numbers and
   false if either operand is a NaN; Proofs/OrderProofs.v ([f_key_compare]) proves that
   comparing the encodings is comparing the denoted numbers [f_val]. *)
Definition f_key (bits : Z) : Z := if f_neg bits then - f_abs bits else f_abs bits.

Definition f_eq (a b : Z) : bool := negb (f_is_nan a) && negb (f_is_nan b) && (f_key a =? f_key b).
Definition f_lt (a b : Z) : bool := negb (f_is_nan a) && negb (f_is_nan b) && (f_key a <? f_key b).
Definition f_gt (a b : Z) : bool := f_lt b a.

(* The number a non-NaN pattern denotes, times 2^1074 (an integer; +-0 is 0; the infinities
   count as +-2^1024, beyond every finite binary64 and every int64).  [Z.shiftl x n] is
   x * 2^n.  Used by the specification (Spec/OrderSpec.v), not by the twin. *)
Definition f_exp (bits : Z) : Z := f_abs bits / two52.          (* biased exponent, 0..2047 *)
Definition f_man (bits : Z) : Z := f_abs bits mod two52.
Definition f_mag (bits : Z) : Z :=
  if f_exp bits =? 0 then f_man bits else Z.shiftl (two52 + f_man bits) (f_exp bits - 1).
Definition f_val (bits : Z) : Z := if f_neg bits then - f_mag bits else f_mag bits.

(* float64(x) for x int64: round to nearest, ties to even *)
Definition float_of_int (z : Z) : Z :=
  if z =? 0 then 0
  else
    let a := Z.abs z in
    let n := Z.log2 a in                       (* 2^n <= a < 2^(n+1) *)
    let '(m, e) :=
      if n <=? 52 then (a * 2 ^ (52 - n), n)
      else
        let k := n - 52 in
        let q := a / 2 ^ k in
        let r := a mod 2 ^ k in
        let half := 2 ^ (k - 1) in
        let q' := if (half <? r) || ((r =? half) && Z.odd q) then q + 1 else q in
        if q' =? 2 ^ 53 then (two52, n + 1) else (q', n) in
    (if z <? 0 then two63 else 0) + (e + 1023) * two52 + (m - two52).

Local Close Scope Z_scope.

(* ------------------------------------------------------------------ compare* *)

Section Order.

(* strconv.ParseInt(s, 10, 64) and strconv.ParseFloat(s, 64) (bit pattern), None = error *)
Variable parse_int : bytes -> option Z.
Variable parse_float : bytes -> option Z.

(* Go's compare* return -1 / 0 / 1: [Lt] / [Eq] / [Gt];  0 - x  is [CompOpp x]. *)

(* func orderBytes(val Column) ([]byte, bool) *)
Definition order_bytes (v : value) : option bytes :=
  match v with
  | VBytes b => Some b
  | VStr b => Some b
  | _ => None
  end.

(* func (l *orderColumnsRow) compareBytes(lval, rval Column, reverse bool) int *)
Definition compare_bytes (lval rval : value) (reverse : bool) : comparison :=
  match order_bytes lval, order_bytes rval with
  | Some lb, Some rb =>
      if reverse then CompOpp (bcompare lb rb) else bcompare lb rb
  | _, _ => Eq
  end.

(* func orderBool(val Column) (bool, bool) *)
Definition order_bool (v : value) : option bool :=
  match v with
  | VBool b => Some b
  | VStr s => Some (String.eqb s "true"%string)
  | VBytes s => Some (String.eqb s "true"%string)
  | _ => None
  end.

(* func (l *orderColumnsRow) compareBool(lval, rval Column, reverse bool) int *)
Definition compare_bool (lval rval : value) (reverse : bool) : comparison :=
  match order_bool lval, order_bool rval with
  | Some lbool, Some rbool =>
      let lint := if lbool then 1 else 0 in
      let rint := if rbool then 1 else 0 in
      if Nat.eqb lint rint then Eq
      else if reverse then (if Nat.ltb rint lint then Lt else Gt)
      else (if Nat.ltb lint rint then Lt else Gt)
  | _, _ => Eq
  end.

(* func (l *orderColumnsRow) compareInt(lval, rval int64, reverse bool) int *)
Definition compare_int (lval rval : Z) (reverse : bool) : comparison :=
  if (lval =? rval)%Z then Eq
  else if reverse then (if (lval >? rval)%Z then Lt else Gt)
  else (if (lval <? rval)%Z then Lt else Gt).

(* func (l *orderColumnsRow) compareFloat(lval, rval float64, reverse bool) int *)
Definition compare_float (lval rval : Z) (reverse : bool) : comparison :=
  if f_eq lval rval then Eq
  else if reverse then (if f_gt lval rval then Lt else Gt)
  else (if f_lt lval rval then Lt else Gt).

(* func orderNumberText(s string) (int64, float64, bool, bool) *)
Definition order_number_text (s : bytes) : option (Z * Z * bool) :=
  match parse_int s with
  | Some ival => Some (ival, float_of_int ival, false)
  | None =>
      match parse_float s with
      | Some fval => Some (0%Z, fval, true)
      | None => None
      end
  end.

(* func orderNumber(val Column) (ival int64, fval float64, isFloat bool, ok bool) *)
Definition order_number (v : value) : option (Z * Z * bool) :=
  match v with
  | VInt z => Some (z, float_of_int z, false)
  | VFloat f => Some (0%Z, f, true)
  | VBytes s => order_number_text s
  | VStr s => order_number_text s
  | _ => None
  end.

(* func (l *orderColumnsRow) compareNumber(lval, rval Column, reverse bool) int *)
Definition compare_number (lval rval : value) (reverse : bool) : comparison :=
  match order_number lval, order_number rval with
  | Some (lint, lfloat, lis_float), Some (rint, rfloat, ris_float) =>
      if lis_float || ris_float then compare_float lfloat rfloat reverse
      else compare_int lint rint reverse
  | _, _ => Eq
  end.

(* func (l *orderColumnsRow) compare(tp Type, lval, rval Column, reverse bool) int *)
Definition compare (tp : type) (lval rval : value) (reverse : bool) : comparison :=
  match tp with
  | TSTR => compare_bytes lval rval reverse
  | TNUMBER => compare_number lval rval reverse
  | TBOOL => compare_bool lval rval reverse
  | _ => Eq
  end.

(* ------------------------------------------------------------------ Init and Less *)

(* OrderField (statement.go): Name, Field (the select-list expression the name refers to,
   set by parseOrderBy/findFieldInSelect), Order == DESC *)
Record order_field := OrderField { of_name : string; of_field : expr; of_desc : bool }.

(* orderPos[i], orderTypes[i], orders[i].Order == DESC *)
Record ofield := OField { opos : nat; otype : type; odesc : bool }.

(* func (p *FinalOrderPlan) findOrderIdx(o OrderField) (int, error): first field name equal
   to o.Name; None = SyntaxError "Cannot find field" *)
Fixpoint find_order_idx (names : list string) (fname : string) (i : nat) : option nat :=
  match names with
  | [] => None
  | fn :: names' => if String.eqb fname fn then Some i else find_order_idx names' fname (S i)
  end.

(* the loop of Init: orderPos / orderTypes.  p.FieldTypes[idx] is in range for the plans the
   optimizer builds (FieldTypeList has one entry per field name); out of range is TUNKNOWN
   here. *)
Fixpoint init_orders (orders : list order_field) (names : list string) (types : list type)
  : option (list ofield) :=
  match orders with
  | [] => Some []
  | o :: orders' =>
      match find_order_idx names (of_name o) 0 with
      | None => None
      | Some idx =>
          match init_orders orders' names types with
          | None => None
          | Some rest => Some (OField idx (nth idx types TUNKNOWN) (of_desc o) :: rest)
          end
      end
  end.

(* l.cols[oidx]: the child's rows have one column per field name and oidx < len(FieldNames)
   by Init, so the index is in range; out of range is VOther here. *)
Definition col (r : row) (i : nat) : value := nth i r (VOther ""%string).

(* func (l *orderColumnsRow) Less(r *orderColumnsRow) bool *)
Fixpoint less (ords : list ofield) (l r : row) : bool :=
  match ords with
  | [] => false
  | o :: ords' =>
      match compare (otype o) (col l (opos o)) (col r (opos o)) (odesc o) with
      | Lt => true
      | Gt => false
      | Eq => less ords' l r
      end
  end.

End Order.

(* ------------------------------------------------------------------ the priority queue *)

Section PQ.
Variable A : Type.
Variable lt : A -> A -> bool.          (* Less *)

(* heap.Push *)
Definition pq_push (q : list A) (x : A) : list A := q ++ [x].

(* [m] is the least element seen so far; returns the first minimal element of m :: q and the
   other elements in their original order *)
Fixpoint pop_min (m : A) (q : list A) : A * list A :=
  match q with
  | [] => (m, [])
  | y :: q' =>
      if lt y m then let '(m', rest) := pop_min y q' in (m', m :: rest)
      else let '(m', rest) := pop_min m q' in (m', y :: rest)
  end.

(* heap.Pop; None on an empty heap (container/heap would index out of range) *)
Definition pq_pop (q : list A) : option (A * list A) :=
  match q with
  | [] => None
  | x :: q' => Some (pop_min x q')
  end.

End PQ.

Arguments pq_push {A}.
Arguments pop_min {A}.
Arguments pq_pop {A}.

(* ------------------------------------------------------------------ FinalOrderPlan *)

Section Plan.
Variable parse_int : bytes -> option Z.
Variable parse_float : bytes -> option Z.
Variable ords : list ofield.           (* orderPos / orderTypes / Orders after Init *)

Definition lessf : row -> row -> bool := less parse_int parse_float ords.

(* mutable fields pos, total, sorted *)
Record ostate := OState { pos : nat; total : nat; sorted : list row }.
Definition oinit : ostate := OState 0 0 [].

(* heap.Push(p.sorted, row); p.total++ *)
Definition push_row (st : ostate) (r : row) : ostate :=
  OState (pos st) (S (total st)) (pq_push (sorted st) r).

(* func (p *FinalOrderPlan) prepare: for { col := child.Next(); if col == nil break; push } *)
Fixpoint prepare (st : ostate) (child : list row) : ostate * list row :=
  match child with
  | [] => (st, [])
  | r :: child' => prepare (push_row st r) child'
  end.

(* func (p *FinalOrderPlan) prepareBatch: for { rows := child.Batch(); if len(rows) == 0
   break; push every row }.  An exhausted child returns the empty batch. *)
Fixpoint prepare_batch (st : ostate) (child : list (list row)) : ostate * list (list row) :=
  match child with
  | [] => (st, [])
  | b :: child' =>
      if (List.length b =? 0)%nat then (st, child')
      else prepare_batch (fold_left push_row b st) child'
  end.

Inductive nres := NRow (r : row) | NEnd | NPanic.

(* func (p *FinalOrderPlan) Next *)
Definition next (st : ostate) (child : list row) : nres * ostate * list row :=
  let '(st1, child1) := if (total st =? 0)%nat then prepare st child else (st, child) in
  if (pos st1 <? total st1)%nat then
    match pq_pop lessf (sorted st1) with
    | None => (NPanic, st1, child1)
    | Some (r, q) => (NRow r, OState (S (pos st1)) (total st1) q, child1)
    end
  else (NEnd, st1, child1).

(* the loop of Batch: for p.pos < p.total { pop; append; pos++; count++; if count >=
   PlanBatchSize break }.  It runs at most total - pos times; [fuel] is that number. *)
Fixpoint batch_loop (fuel B : nat) (st : ostate) (ret : list row) (count : nat)
  : option (list row * ostate) :=
  match fuel with
  | 0 => Some (ret, st)
  | S fuel' =>
      if (pos st <? total st)%nat then
        match pq_pop lessf (sorted st) with
        | None => None
        | Some (r, q) =>
            let st' := OState (S (pos st)) (total st) q in
            let count' := S count in
            if (B <=? count')%nat then Some (ret ++ [r], st')
            else batch_loop fuel' B st' (ret ++ [r]) count'
        end
      else Some (ret, st)
  end.

(* func (p *FinalOrderPlan) Batch; None = panic *)
Definition batch (B : nat) (st : ostate) (child : list (list row))
  : option (list row * ostate * list (list row)) :=
  let '(st1, child1) := if (total st =? 0)%nat then prepare_batch st child else (st, child) in
  match batch_loop (total st1 - pos st1) B st1 [] 0 with
  | None => None
  | Some (ret, st2) => Some (ret, st2, child1)
  end.

(* drain in row mode: Next until nil.  None = panic or out of fuel. *)
Fixpoint drain_row_fuel (fuel : nat) (st : ostate) (child : list row) : option (list row) :=
  match fuel with
  | 0 => None
  | S f =>
      match next st child with
      | (NEnd, _, _) => Some []
      | (NPanic, _, _) => None
      | (NRow r, st', child') =>
          match drain_row_fuel f st' child' with
          | None => None
          | Some out => Some (r :: out)
          end
      end
  end.

Definition drain_row (child : list row) : option (list row) :=
  drain_row_fuel (S (List.length child)) oinit child.

(* drain in batch mode: Batch until it returns no rows *)
Fixpoint drain_batch_fuel (fuel B : nat) (st : ostate) (child : list (list row))
  : option (list (list row)) :=
  match fuel with
  | 0 => None
  | S f =>
      match batch B st child with
      | None => None
      | Some ([], _, _) => Some []
      | Some (out, st', child') =>
          match drain_batch_fuel f B st' child' with
          | None => None
          | Some outs => Some (out :: outs)
          end
      end
  end.

Definition drain_batch (B : nat) (child : list (list row)) : option (list (list row)) :=
  drain_batch_fuel (S (List.length (List.concat child))) B oinit child.

End Plan.

(* ------------------------------------------------------------------ buildFinalOrderPlan *)

(* the final plans below and including the order node: [FChild] is the projection or
   aggregate node the order node is put on *)
Inductive final_plan :=
  | FChild
  | FOrder (orders : list order_field) (child : final_plan).

(* func (o *Optimizer) buildFinalOrderPlan(s, ffp, hasAggr, stmt) FinalPlan *)
Definition build_final_order_plan (ffp : final_plan) (has_aggr : bool)
  (orders : list order_field) : final_plan :=
  if negb has_aggr && (List.length orders =? 1)%nat then
    match orders with
    | order :: _ =>
        match of_field order with
        | EField _ KeyKW =>
            (* If order by key asc just ignore it *)
            if negb (of_desc order) then ffp else FOrder orders ffp
        | _ => FOrder orders ffp
        end
    | [] => FOrder orders ffp
    end
  else FOrder orders ffp.

(* the rows a statement returns row-at-a-time: the child's rows pass through the order
   nodes (Init resolves the names against the child's field names and types) *)
Fixpoint run_row (parse_int parse_float : bytes -> option Z) (plan : final_plan)
  (names : list string) (types : list type) (child : list row) : option (list row) :=
  match plan with
  | FChild => Some child
  | FOrder orders below =>
      match run_row parse_int parse_float below names types child with
      | None => None
      | Some rows =>
          match init_orders orders names types with
          | None => None
          | Some ords => drain_row parse_int parse_float ords rows
          end
      end
  end.

(* ------------------------------------------------------------------ the pinned compare* *)
(* The code before the fix: commit asserted the right operand to the dynamic type of the
   left one; None = the failed type assertion (panic).  Kept for the regression witness of
   D16 only, at the granularity of the [value] constructors. *)

Definition compare_bytes_pinned (lval rval : value) (reverse : bool) : option comparison :=
  match lval, rval with
  | VBytes lb, VBytes rb | VStr lb, VStr rb =>
      Some (if reverse then CompOpp (bcompare lb rb) else bcompare lb rb)
  | VBytes _, _ | VStr _, _ => None
  | _, _ => Some Eq
  end.

Definition compare_number_pinned (lval rval : value) (reverse : bool) : option comparison :=
  match lval, rval with
  | VInt l, VInt r => Some (compare_int l r reverse)
  | VFloat l, VFloat r => Some (compare_float l r reverse)
  | VInt _, _ | VFloat _, _ => None
  | _, _ => Some Eq        (* no case in the switch: compareInt(0, 0).  (Text operands take the
                              parsing branch, which this witness does not model.) *)
  end.
