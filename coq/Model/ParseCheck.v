(* Model/ParseCheck.v -- the parser twin (Model/StmtParser.v) joined to the checker twin
   (Model/Checker.v): what Optimizer.init does with a query TEXT before anything touches the
   storage -- NewParser (Lexer.Split), Parser.Parse (syntax, the four semantic tests run in the
   middle of parsing, Validate / Check / ValidateFields once the statement has been read) and
   checkStatementFunctionCalls -- plus optimizeSelectExpressions on the select fields and the
   three tests of buildFinalPlan that come before the first Init (buildFinalPlan looks at the
   fields the constant folder left in stmt.Fields).

     to_check      StmtParser.stmt -> option Checker.stmt: the statement as the checker twin
                   takes it (FieldNames zipped with Fields, WHERE, position and name of every
                   ORDER BY item; PUT pairs; REMOVE keys; DELETE's WHERE).  Every expression
                   tree is handed over unchanged, so every node position is kept.  What
                   Checker.stmt has no place for (statement / clause positions, LIMIT, the GROUP
                   BY items) stays in the parser's statement, which [parse_check] returns next
                   to the checked one.  None (outside the checker twin):
                     - a SELECT whose FieldNames and Fields differ in length (Parser.Parse never
                       builds one: Proofs/ParseCheckProofs.v, parsed_select_lengths,
                       to_check_parsed_some).
                   GROUP BY: SelectStmt.resolveFieldNames has turned the field names inside the
                   select fields into references before parseGroupBy checks the GROUP BY fields,
                   so that Check leaves every field as it is and Checker.build_check applies
                   unchanged -- also when a select field uses the name of a select field
                   (`select int(value) as n, sum(n) as s where .. group by n`).
     check_cycles  twin of SelectStmt.checkFieldCycles (statement.go).
     real_hooks    the four mid-parse tests computed by the checker twin:
                     checkFieldCycles                       check_cycles
                     findFieldInSelect (ORDER BY item)      Checker.find_order_field   } on the fields as
                     findFieldInSelect + aggregate-name test (GROUP BY item)            } resolveFieldNames
                     Check of the GROUP BY fields           Checker.check ([gcheck_loop]) } left them (Checker.link)
     parse_real    parse_with real_hooks
     fold_fields   optimizeSelectExpressions on stmt.Fields: every field replaced by what
                   ExpressionOptimizer.Optimize returns for it (Model/FoldStmt.exec_tree, as in
                   Model/PipelineS.plan_of_front).
     plan_check    the tests of buildFinalPlan on the FOLDED fields: `true | count(1) > 0 as x`
                   is folded to `true` -- no aggregate call is left, a ProjectionPlan is built.
     parse_check   lex, parse_real, to_check, Checker.build_check (its two stages check_stmt and
                   check_stmt_calls told apart), [plan_oom], [plan_check].  Parameters: the
                   float operations, and the two the folder needs -- the regexp oracle and
                   fmt.Sprintf("%v", float64) (Model/Fold.v).  What it returns for an accepted
                   text are the CHECKED trees (what Parser.Parse returns; the folded ones are
                   FoldStmt.exec_tree of them).

   ORDER of errors = order of the Go code: a syntax error or a failing mid-parse test, whichever
   the parser meets first (the tests are hooks of the parser twin, called where parser.go calls
   them); then, for SELECT: WHERE (name resolution, Check, Boolean), the fields one after the
   other (Check, aggregate arguments); for PUT / REMOVE / DELETE their Validate; then the call
   validation of optimizer.go (WHERE before fields; pairs; keys); then the folder (which reports
   no error: Proofs/ExecPosProofs.v fold_reports_no_error); then buildFinalPlan.
   Checker.check_select begins with the ORDER BY lookup ([check_order]); here that has already
   passed as a hook, on the same names and the same resolved fields, and passes again.

   OUTSIDE the model ([pc_oom], decided on the tokens alone, before anything else runs):
     - the lexer twin's own flag (a word with a byte >= 0x80, hex floats, digit separators);
     - a NAME token with a byte >= 0x80 (strings.ToLower in GetFuncNameFromExpr);
     - a FLOAT token outside the modelled fragment of strconv.ParseFloat (the divisor test);
     - 10000 tokens or more (Parser.nestLev / MaxNestLevel is not modelled);
     - a GROUP token together with a call whose function "name" is itself a compound
       expression ( `)` or `]` directly before `(` ): parseGroupBy EXECUTES the name expression
       (GetFuncNameFromExpr) in the middle of parsing; the evaluator is not part of this twin.
   Decided after the call validation has passed ([plan_oom]):
     - Pipeline.fold_oom for a select field: a constant sub-tree the folder reaches that the
       evaluator twin cannot evaluate (json, a regular expression the oracle does not answer, a
       float outside Base/Flt) -- what buildFinalPlan sees of that field is not known.
   After [PCOk], when buildFinalPlan builds an AggregatePlan ([aggregate_plan] = true),
   AggregatePlan.Init validates aggregate argument counts and bodies: not modelled here
   (Model/Aggregate.v belongs to C09); the correspondence counts a rejection there as outside
   the model.

   Field references: the Go code shares the tree of a field between all references to it;
   SelectStmt.resolveFieldNames (right after checkFieldCycles) turns the field names inside the
   fields into references before any of the tests above runs.  The twin's [ERef] carries a copy
   of the resolved definition (Checker.link).

   No proofs in this file. *)
From Coq Require Import String List Arith Bool ZArith.
Import ListNotations.
From KV Require Import Base.Bytes Base.Num Model.Token Model.Ast Model.Value Model.Eval Model.Lexer
                       Model.ExprParser Model.ErrPos Model.StmtParser.
From KV Require Model.Checker Model.Fold Model.FoldStmt Model.Pipeline.
Local Open Scope string_scope.
Local Open Scope list_scope.

(* ------------------------------------------------------------------ to_check *)

(* OrderField: position of the item (field.GetPos()) and its Name *)
Definition order_items (o : option order_t) : list (nat * string) :=
  match o with
  | Some x => map (fun it => (epos (fst it), item_name (fst it))) (o_items x)
  | None => []
  end.

Definition to_check (s : stmt) : option Checker.stmt :=
  match s with
  | StSelect x =>
      if negb (Nat.eqb (length (s_names x)) (length (s_fields x))) then None
      else Some (Checker.SSelect (combine (s_names x) (s_fields x)) (s_where x) (order_items (s_order x)))
  | StPut _ pairs => Some (Checker.SPut pairs)
  | StRemove _ keys => Some (Checker.SRemove keys)
  | StDelete _ _ w _ => Some (Checker.SDelete w)
  end.

(* the expression trees of a statement of the checker twin, and every position it stores *)
Definition cstmt_exprs (c : Checker.stmt) : list expr :=
  match c with
  | Checker.SSelect fields w _ => map snd fields ++ [w]
  | Checker.SPut pairs => flat_map (fun kv => [fst kv; snd kv]) pairs
  | Checker.SRemove keys => keys
  | Checker.SDelete w => [w]
  end.

Definition cstmt_order_positions (c : Checker.stmt) : list nat :=
  match c with
  | Checker.SSelect _ _ order => map fst order
  | _ => []
  end.

Definition cstmt_positions (c : Checker.stmt) : list nat :=
  flat_map positions (cstmt_exprs c) ++ cstmt_order_positions c.

(* ------------------------------------------------------------------ checkFieldCycles *)

Inductive cyc_out :=
  | CNone                 (* nil *)
  | CErr (p : nat)        (* "Field %s is defined in terms of itself", at the name *)
  | CFuel.                (* the twin's fuel ran out (never: Proofs/ParseCheckProofs.v) *)

Fixpoint set_nth {A} (i : nat) (x : A) (l : list A) : list A :=
  match l, i with
  | [], _ => []
  | _ :: l', 0 => x :: l'
  | y :: l', S i' => y :: set_nth i' x l'
  end.

Section Cycles.
Variable names : list string.
Variable fields : list expr.

(* fieldIdx: the first i with FieldNames[i] == name && i < len(Fields) *)
Fixpoint field_idx_from (i : nat) (ns : list string) (name : string) : option nat :=
  match ns with
  | [] => None
  | n :: ns' =>
      if String.eqb n name && Nat.ltb i (length fields) then Some i
      else field_idx_from (S i) ns' name
  end.
Definition field_idx (name : string) : option nat := field_idx_from 0 names name.

(* state: 0 unvisited, 1 visiting, 2 done.  [visit] is the closure of the same name; its walk
   callback is the inner fixpoint: a call walks its arguments only (the function name is not a
   field name), a name that is a field is followed (visiting -> the error, unvisited -> visit),
   every other node is walked through; after the first error nothing else happens. *)
Fixpoint visit (fuel : nat) (st : list nat) (i : nat) {struct fuel} : list nat * cyc_out :=
  match fuel with
  | 0 => (st, CFuel)
  | S f =>
      let st1 := set_nth i 1 st in
      let r :=
        match nth_error fields i with
        | None => (st1, CNone)
        | Some (EName _ _) => (st1, CNone)     (* a field that is only a name is never resolved *)
        | Some fe =>
            (fix walk (st : list nat) (e : expr) {struct e} : list nat * cyc_out :=
               match e with
               | EBin _ _ l r =>
                   match walk st l with
                   | (st', CNone) => walk st' r
                   | x => x
                   end
               | ENot _ r => walk st r
               | ECall _ _ args =>
                   (fix go (st : list nat) (l : list expr) {struct l} : list nat * cyc_out :=
                      match l with
                      | [] => (st, CNone)
                      | a :: l' => match walk st a with
                                   | (st', CNone) => go st' l'
                                   | x => x
                                   end
                      end) st args
               | EName p s =>
                   match field_idx s with
                   | None => (st, CNone)
                   | Some j =>
                       match nth j st 2 with
                       | 1 => (st, CErr p)
                       | 0 => visit f st j
                       | _ => (st, CNone)
                       end
                   end
               | ERef _ _ d => walk st d
               | EList _ items =>
                   (fix go (st : list nat) (l : list expr) {struct l} : list nat * cyc_out :=
                      match l with
                      | [] => (st, CNone)
                      | a :: l' => match walk st a with
                                   | (st', CNone) => go st' l'
                                   | x => x
                                   end
                      end) st items
               | EAccess _ l fn =>
                   match walk st l with
                   | (st', CNone) => walk st' fn
                   | x => x
                   end
               | _ => (st, CNone)
               end) st1 fe
        end in
      (set_nth i 2 (fst r), snd r)
  end.

(* for i := range s.Fields { if state[i] == unvisited { visit(i) } } *)
Fixpoint cyc_loop (k i : nat) (st : list nat) : cyc_out :=
  match k with
  | 0 => CNone
  | S k' =>
      match nth i st 2 with
      | 0 => match visit (S (length fields)) st i with
             | (st', CNone) => cyc_loop k' (S i) st'
             | (_, x) => x
             end
      | _ => cyc_loop k' (S i) st
      end
  end.

Definition check_cycles : cyc_out :=
  cyc_loop (length fields) 0 (repeat 0 (length fields)).

End Cycles.

(* ------------------------------------------------------------------ the real hooks *)

Definition syn_pos {A} (r : res A) : option nat :=
  match r with
  | Err (ESyntax p) => Some p
  | _ => None
  end.

(* index of the first field with that name (the field GetNamedExpr / findFieldInSelect finds) *)
Fixpoint named_idx (i : nat) (fs : list (string * expr)) (s : string) : option nat :=
  match fs with
  | [] => None
  | (n, _) :: fs' => if String.eqb n s then Some i else named_idx (S i) fs' s
  end.

Section Real.
Variable fo : fops.
Variable re_match : bytes -> bytes -> Value.res bool.   (* the regexp oracle of the evaluator twin *)
Variable fmt_v : F fo -> string.                        (* fmt.Sprintf("%v", float64), see Model/Fold.v *)

(* for _, f := range fields { f.Expr.Check(ctx) }: the group field of a key / value item is the
   item itself; of any other item the select field found for its name (the first field with that
   name).  resolveFieldNames has run: Check finds the field resolved and leaves it as it is, so
   nothing changes for what comes after parseGroupBy; its type tests are those Check applies
   to the parser's tree under the CheckCtx of the resolved fields [all] (as in
   Checker.validate_fields) *)
Fixpoint gcheck_loop (all raw : list (string * expr)) (items : list expr) : res unit :=
  match items with
  | [] => Ok tt
  | it :: items' =>
      match it with
      | EField _ _ => do _ <- Checker.check fo true (Checker.Cctx all false false) it; gcheck_loop all raw items'
      | _ =>
          match Checker.get_named raw (item_name it) with
          | None => gcheck_loop all raw items'          (* not reached: the item test has passed *)
          | Some f =>
              do _ <- Checker.check fo true (Checker.Cctx all false false) f;
              gcheck_loop all raw items'
          end
      end
  end.

Definition is_atom_name (n : expr) : bool :=
  match n with
  | EStr _ _ | EField _ _ | ENum _ _ | EFloat _ _ | EBool _ _ | EList _ _ => true
  | _ => false
  end.

(* parseGroupBy, one item that is not key / value: findFieldInSelect, and for a call
   GetFuncNameFromExpr (a name that is not a NameExpr evaluates to something that is not a
   string: "Invalid function name" at the call; compound names are outside the model, pc_oom)
   + "is it an aggregate function" (reported at the select field) *)
Definition gitem_real (names : list string) (fields : list expr) (e : expr) : option nat :=
  let fs := Checker.link (combine names fields) in
  match Checker.find_order_field fs (epos e, item_name e) with
  | Err (ESyntax p) => Some p
  | _ =>
      match e with
      | ECall _ n _ =>
          match n with
          | EName _ _ =>
              match call_name n with
              | Some nm =>
                  match aggr_rtype nm with
                  | Some _ => option_map epos (Checker.get_named fs (item_name e))
                  | None => None
                  end
              | None => None
              end
          | _ => if is_atom_name n then Some (epos e) else None
          end
      | _ => None
      end
  end.

Definition real_hooks : hooks :=
  Hooks
    (fun names fields => match check_cycles names fields with CErr p => Some p | _ => None end)
    (fun names fields e => syn_pos (Checker.find_order_field (Checker.link (combine names fields)) (epos e, item_name e)))
    gitem_real
    (fun names fields items => syn_pos (gcheck_loop (Checker.link (combine names fields)) (combine names fields) items)).

Definition parse_real (ts : list token) : sres := parse_with real_hooks ts.

(* ------------------------------------------------------------------ buildFinalPlan, up to the
   point where the plan node is made *)

(* Optimizer.findAggrFunc *)
Fixpoint find_aggr (e : expr) : bool :=
  match e with
  | EBin _ _ l r => find_aggr l || find_aggr r
  | ECall _ _ _ => Checker.is_aggr_call e
  | _ => false
  end.

Inductive plan_out :=
  | PlProjection            (* ProjectionPlan (+ order / limit): its Init cannot fail before the scan's *)
  | PlAggregate             (* AggregatePlan: its Init is not modelled here *)
  | PlErr (z : Z).          (* SyntaxError of buildFinalPlan *)

Definition plan_select (x : select_t) (fields : list (string * expr)) : plan_out :=
  let nfields := length fields in
  let aggr_fields := length (filter (fun nf => find_aggr (snd nf)) fields) in
  let gitems := match s_group x with Some g => g_items g | None => [] end in
  let has0 := Nat.ltb 0 aggr_fields in
  let has :=
    match s_group x with
    | Some g =>
        if Nat.eqb nfields (length (g_items g))
        then forallb (fun it => existsb (String.eqb (item_name it)) (map fst fields)) (g_items g)
        else has0
    | None => has0
    end in
  if negb has && Nat.ltb 0 (length gitems) then PlErr (Z.of_nat (s_pos x))       (* No aggregate fields *)
  else if negb has then PlProjection
  else if Nat.eqb aggr_fields 0 && Nat.ltb 0 (length gitems) then PlErr (Z.of_nat (s_pos x))
  else if Nat.ltb (aggr_fields + length gitems) nfields then
    match s_group x with
    | Some g => PlErr (Z.of_nat (g_pos g))                                       (* Missing aggregate fields *)
    | None => PlErr (-1)%Z                                                        (* Missing group by statement *)
    end
  else PlAggregate.

(* optimizeSelectExpressions: stmt.Fields[i] = eo.Optimize() *)
Definition fold_fields (fields : list (string * expr)) : list (string * expr) :=
  map (fun nf => (fst nf, FoldStmt.exec_tree fo re_match fmt_v (snd nf))) fields.

(* buildFinalPlan runs after optimizeSelectExpressions: [c] is the CHECKED statement *)
Definition plan_check (s : stmt) (c : Checker.stmt) : plan_out :=
  match s, c with
  | StSelect x, Checker.SSelect fields _ _ => plan_select x (fold_fields fields)
  | _, _ => PlProjection                       (* PutPlan / RemovePlan / DeletePlan: Init returns nil *)
  end.

(* a select field whose folding is outside the evaluator twin *)
Definition plan_oom (c : Checker.stmt) : bool :=
  match c with
  | Checker.SSelect fields _ _ => existsb (fun nf => Pipeline.fold_oom fo re_match fmt_v (snd nf)) fields
  | _ => false
  end.

(* ------------------------------------------------------------------ the composite *)

Inductive pckind :=
  | KSyntax        (* Parser.Parse: the pure syntax rejects at the same offset *)
  | KMidParse      (* Parser.Parse: one of the four semantic tests run in the middle of parsing *)
  | KCheck         (* Parser.Parse: Validate / Check / ValidateFields after the statement has been read *)
  | KCalls         (* checkStatementFunctionCalls of optimizer.go *)
  | KPlan.         (* buildFinalPlan *)

Inductive pcres :=
  | PCOk (s : stmt) (c : Checker.stmt) (aggregate_plan : bool)
  | PCErr (k : pckind) (z : Z)
  | PCOutOfModel
  | PCPanic          (* a nil dereference of the Go parser (proved unreachable) *)
  | PCFuel           (* the twin's fuel ran out (proved unreachable) *)
  | PCOther.         (* the checker twin returned an error that is not a SyntaxError *)

Fixpoint call_on_compound (ts : list token) : bool :=
  match ts with
  | a :: ((b :: _) as ts') =>
      ((is_tp a RPAREN || is_tp a RBRACK) && is_tp b LPAREN) || call_on_compound ts'
  | _ => false
  end.

Definition float_oom (t : token) : bool :=
  is_tp t FLOAT && match f_parse fo (data t) with PF_oom => true | _ => false end.

Definition pc_oom (q : string) (ts : list token) : bool :=
  lex_oom q
  || existsb (fun t => is_tp t NAME && negb (all_ascii (data t))) ts
  || existsb float_oom ts
  || Nat.leb (100 * 100) (length ts)
  || (existsb (fun t => is_tp t GROUP) ts && call_on_compound ts).

Definition sres_is_err (r : sres) (z : Z) : bool :=
  match r with
  | SErr z' => Z.eqb z z'
  | _ => false
  end.

(* optimizeSelectExpressions + buildFinalPlan's tests, for a statement that passed the checker
   and the call validation ([c2]: the checked statement) *)
Definition plan_stage (s : stmt) (c2 : Checker.stmt) : pcres :=
  if plan_oom c2 then PCOutOfModel
  else
    match plan_check s c2 with
    | PlErr z => PCErr KPlan z
    | PlProjection => PCOk s c2 false
    | PlAggregate => PCOk s c2 true
    end.

Definition check_parsed (s : stmt) : pcres :=
  match to_check s with
  | None => PCOutOfModel
  | Some c =>
      (* Checker.build_check fo true, its two stages told apart *)
      match Checker.check_stmt fo true c with
      | Ok c2 =>
          match Checker.check_stmt_calls c2 with
          | Ok _ => plan_stage s c2
          | Err (ESyntax p) => PCErr KCalls (Z.of_nat p)
          | Err _ => PCOther
          | Panic => PCPanic
          | OutOfModel => PCOutOfModel
          end
      | Err (ESyntax p) => PCErr KCheck (Z.of_nat p)
      | Err _ => PCOther
      | Panic => PCPanic
      | OutOfModel => PCOutOfModel
      end
  end.

Definition parse_check (q : string) : pcres :=
  let ts := lex q in
  if pc_oom q ts then PCOutOfModel
  else
    match parse_real ts with
    | SErr z => PCErr (if sres_is_err (parse_statement ts) z then KSyntax else KMidParse) z
    | SPanic => PCPanic
    | SFuel => PCFuel
    | SOk s => check_parsed s
    end.

End Real.
