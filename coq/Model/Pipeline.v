(* Model/Pipeline.v -- `select *` FROM THE QUERY TEXT: the twin of the glue of optimizer.go
   (NewOptimizer(q).BuildPlan(storage), then the caller's Next / Batch loop), which plugs the
   twins of the single layers together in the order the Go code runs them:

     Optimizer.init
       NewParser(q)                    Lexer.Split                        Model/Lexer.v        lex
       Parser.Parse                    statement syntax                   Model/StmtParser.v   parse_statement
                                       expr.Check(ctx), Boolean WHERE,
                                       ValidateFields                     Model/Checker.v      check_select   } build_check
       checkStatementFunctionCalls     WHERE and fields                   Model/Checker.v      check_stmt_calls }
       optimizeSelectExpressions       stmt.Where.Expr = eo.Optimize()    Model/Fold.v         fold
       o.filter = FilterExec{Ast: stmt.Where}      -- a POINTER to the WhereStmt whose Expr was just
                                                      replaced: the filter evaluates the FOLDED tree
     buildSelectPlan
       buildScanPlan                   NewFilterOptimizer(o.filter.Ast, ..).Optimize():
                                       the region is inferred from o.filter.Ast.Expr, the FOLDED
                                       tree                               Model/FilterOpt.v    optimize
                                       switch on the scan type            Model/ScanSem.v      scan_of_region
       buildFinalPlan                  no aggregate, no ORDER / LIMIT: ProjectionPlan{AllFields}
       ret.Init() (twice: buildSelectPlan and BuildPlan)                  Model/ScanSem.v      plan_build
     the caller                        Next until nil / Batch until empty Model/ScanSem.v      select_rows / select_batches
                                       `*` projection: the row is [key, value], i.e. the pair

   The field context of the checker is what Parse hands to it: for `select * where P` the two
   fields FieldExpr{KeyKW}, FieldExpr{ValueKW} under the names "KEY" and "VALUE" (parseSelect
   fills Fields / FieldNames for `*`, so a back-quoted name `KEY` in P is resolved to the key
   field); for `where P` alone nil Fields and FieldNames (nothing is resolved).

   The MODEL BOUNDARY is explicit ([TOom]):
     - the lexer twin's own boundary (lex_oom: number-like words outside its number model);
     - [shape_guard]: statements other than `select * where ..` / `where ..` (PUT, REMOVE, DELETE,
       a select field list), and every text with an ORDER or GROUP token: parser.go runs semantic
       tests on the field list and on ORDER BY / GROUP BY items in the middle of parsing, which
       the pure-syntax twin [parse_statement] does not run (Model/StmtParser.v, hooks).  With the
       guard passed none of these tests is reached (or it cannot fail: checkFieldCycles on the two
       fields of `*`), so [parse_statement] is the whole of Parser.Parse's syntax phase;
     - an accepted statement with a LIMIT clause (another plan shape);
     - [fold_oom]: a constant sub-tree the folder reaches that the evaluator twin cannot evaluate;
     - whatever the checker / evaluator twins do not model (Value.OutOfModel).

   No proofs in this file (Proofs/PipelineProofs.v). *)
From Coq Require Import List String ZArith Bool Arith.
Import ListNotations.
From KV Require Import Base.Bytes Model.Token Model.Ast Model.Value Model.Eval Model.Lexer
                       Model.ExprParser Model.StmtParser Model.Checker Model.Fold Model.FilterOpt
                       Model.Storage Model.ScanIO Model.ScanSem.
Local Open Scope string_scope.
Local Open Scope list_scope.

(* iteration mode of the caller: plan.Next, or plan.Batch with PlanBatchSize = B *)
Inductive tmode := MRow | MBatch (B : nat).

(* outcome of NewOptimizer(q).BuildPlan(s) + drain *)
Inductive tres (A : Type) :=
  | TOk (a : A)                 (* the statement was accepted, planned (and drained) *)
  | TReject (p : Z)             (* BuildPlan returned a *SyntaxError with this Pos (-1: end of input) *)
  | TRunErr (e : Storage.err)   (* the drain failed (storage error; fuel / panic of the scan twins) *)
  | TPanic                      (* the front end would dereference nil (proved unreachable) *)
  | TFuel                       (* front-end fuel exhausted (proved unreachable) *)
  | TOom.                       (* outside the model, see above *)
Arguments TOk {A} a.
Arguments TReject {A} p.
Arguments TRunErr {A} e.
Arguments TPanic {A}.
Arguments TFuel {A}.
Arguments TOom {A}.

Definition tbind {A B} (r : tres A) (f : A -> tres B) : tres B :=
  match r with
  | TOk a => f a
  | TReject p => TReject p
  | TRunErr e => TRunErr e
  | TPanic => TPanic
  | TFuel => TFuel
  | TOom => TOom
  end.

(* ------------------------------------------------------------------ the statement shapes in
   the model, decided on the tokens (see the header) *)
Definition is_star (t : token) : bool := is_tp t OPERATOR && (data t =? "*").

Definition head_in_model (ts : list token) : bool :=
  match trim_end_semis ts with
  | [] => true                                        (* rejected: Expect put, delete, select or where *)
  | t :: rest =>
      match tp t with
      | PUT | REMOVE | DELETE => false
      | SELECT =>
          match rest with
          | [] => true                                (* rejected: Empty fields in select statement *)
          | t1 :: _ => is_star t1 || is_tp t1 WHERE
          end
      | _ => true                                     (* WHERE; anything else is rejected at once *)
      end
  end.

Definition shape_guard (ts : list token) : bool :=
  head_in_model ts && forallb (fun t => negb (is_tp t ORDER || is_tp t GROUP)) ts.

(* ------------------------------------------------------------------ Parser.Parse, syntax phase:
   the field context and the unchecked WHERE tree of `select * where P` / `where P` *)
Definition parsed_where (q : string) : tres (list (string * expr) * expr) :=
  if lex_oom q then TOom
  else
    let ts := lex q in
    if negb (shape_guard ts) then TOom
    else
      match parse_statement ts with
      | SErr p => TReject p
      | SPanic => TPanic
      | SFuel => TFuel
      | SOk (StmtParser.StSelect s) =>
          match s_order s, s_group s, s_limit s with
          | None, None, None =>
              if s_all s then TOk (combine (s_names s) (s_fields s), s_where s) else TOom
          | _, _, _ => TOom
          end
      | SOk _ => TOom
      end.

Section Pipeline.
Variable fo : fops.
Variable re_match : bytes -> bytes -> Value.res bool.
Variable fmt_v : F fo -> string.            (* fmt.Sprintf("%v", float64), see Model/Fold.v *)

(* the rest of Parse (Check, Boolean WHERE, ValidateFields) and checkStatementFunctionCalls:
   Model/Checker.v build_check on the select statement without ORDER BY; the checked WHERE tree *)
Definition of_check {A} (r : Value.res A) : tres A :=
  match r with
  | Value.Ok a => TOk a
  | Value.Err (Value.ESyntax p) => TReject (Z.of_nat p)
  | Value.Err _ => TPanic                    (* the checker raises SyntaxErrors only *)
  | Value.Panic => TPanic
  | Value.OutOfModel => TOom
  end.

Definition checked_where (q : string) : tres expr :=
  tbind (parsed_where q) (fun fw =>
  tbind (of_check (build_check fo true (Checker.SSelect (fst fw) (snd fw) []))) (fun s2 =>
    match s2 with
    | Checker.SSelect _ w2 _ => TOk w2
    | _ => TPanic
    end)).

(* Optimizer.init + buildScanPlan: the tree the filter evaluates and the scan plan.  BOTH come
   from the folded tree. *)
Record planned := Planned {
  p_filter : expr;          (* o.filter.Ast.Expr *)
  p_plan : plan             (* the child of the ProjectionPlan *)
}.

Definition planned_of (w2 : expr) : planned :=
  let wf := Fold.fold fo re_match fmt_v w2 in
  Planned wf (PScan (scan_of_region (FilterOpt.optimize wf))).

(* The folder twin leaves a constant sub-tree unfolded when the evaluator twin cannot evaluate it
   (Value.OutOfModel: a float outside Base/Flt's model, a regular expression, json ...), where
   the Go folder may fold it.  That boundary is made explicit here: a constant sub-tree the
   folder can reach (through binary operators and call arguments, in the checked tree, after one
   pass and after both passes -- re-association builds new constant sub-trees) whose evaluation is
   outside the model puts the whole text outside the model. *)
Fixpoint is_const (e : expr) : bool :=
  match e with
  | EStr _ _ | ENum _ _ | EFloat _ _ | EBool _ _ => true
  | EBin _ _ l r => is_const l && is_const r
  | ENot _ r => is_const r
  | ECall _ _ args => forallb is_const args
  | EList _ l => forallb is_const l
  | _ => false
  end.

Fixpoint const_oom (e : expr) : bool :=
  (is_const e && match eval fo re_match "" "" e with Value.OutOfModel => true | _ => false end) ||
  match e with
  | EBin _ _ l r => const_oom l || const_oom r
  | ECall _ _ args => existsb const_oom args
  | _ => false
  end.

Definition fold_oom (w2 : expr) : bool :=
  const_oom w2 || const_oom (Fold.optimize fo re_match fmt_v w2) || const_oom (Fold.fold fo re_match fmt_v w2).

Definition plan_of_checked (w2 : expr) : tres planned :=
  if fold_oom w2 then TOom else TOk (planned_of w2).

Definition plan_text (q : string) : tres planned :=
  tbind (checked_where q) plan_of_checked.

(* FilterExec.Filter as the scan plans use its answer (Proofs/SelectStarProofs.flt_of): a pair is
   kept iff the WHERE tree evaluates to true on it *)
Definition filter_of (e : expr) (kv : kvp) : bool :=
  match filter_row fo re_match (fst kv) (snd kv) e with Value.Ok true => true | _ => false end.

(* the fuel of the scan twins (Proofs/ScanSemProofs.v: length d + plan_keys p < fuel suffices) *)
Definition drain_fuel (p : plan) (d : store) : nat := S (List.length d + plan_keys p).

Definition of_run {A} (r : Storage.res A) : tres A :=
  match r with
  | Storage.Ok a => TOk a
  | Storage.Err e => TRunErr e
  end.

(* ProjectionPlan with AllFields: the row of a pair is [key, value] -- the pair *)
Definition star_row (kv : kvp) : kvp := kv.

Definition drain (pl : planned) (d : store) (m : tmode) : tres (list kvp) :=
  let flt := filter_of (p_filter pl) in
  let fuel := drain_fuel (p_plan pl) d in
  match m with
  | MRow =>
      tbind (of_run (fst (run_read (select_rows true flt fuel (p_plan pl)) (SState d [] None))))
            (fun rows => TOk (map star_row rows))
  | MBatch B =>
      tbind (of_run (fst (run_read (select_batches true flt B fuel (p_plan pl)) (SState d [] None))))
            (fun outs => TOk (map star_row (List.concat outs)))
  end.

(* NewOptimizer(q).BuildPlan(store), drained *)
Definition select_text (q : string) (d : store) (m : tmode) : tres (list kvp) :=
  tbind (plan_text q) (fun pl => drain pl d m).

End Pipeline.
