(* Model/PipelineFull.v -- the SELECT pipeline of Model/PipelineS.v with the access path FORCED to
   a full scan: the same front end, the same folded trees, the same projection / aggregate /
   order / limit nodes, the same filter (FilterExec over the folded WHERE tree), but the scan node
   under them is FullScanPlan instead of the node buildScanPlan chose from the inferred region.
   Nothing of PipelineS is copied: [with_full] replaces the scan of the planned statement.

   This is the reference C02 speaks about at text level ("exactly what a full scan filtered pair
   by pair would return"); Proofs/NarrowTextProofs.v compares the two.  No proofs in this file. *)
From Coq Require Import List String ZArith Bool.
Import ListNotations.
From KV Require Model.Order.
From KV Require Import Base.Bytes Model.Ast Model.Value Model.Eval Model.Storage Model.ScanIO Model.ScanSem
                       Model.SelectPlans Model.Pipeline Model.PipelineS.

Section PipelineFull.
Variable fo : fops.
Variable re_match : bytes -> bytes -> Value.res bool.
Variable fmt_v : F fo -> string.
Variable ag : aggops fo.
Variable parse_int parse_float : bytes -> option Z.

(* the planned statement over FullScanPlan{Filter: the same filter} *)
Definition with_full (pl : splanned fo) : splanned fo :=
  SPlanned fo (sp_select fo pl) (sp_fields fo pl) (sp_where fo pl) SFull (sp_q fo pl).

Definition select_stmt_text_full_st (q : string) (d : store) (m : tmode) : stres (list Order.row) :=
  stbind (plan_stmt_text fo re_match fmt_v q)
         (fun pl => of_drain (drain_planned fo re_match ag parse_int parse_float (with_full pl) d m)).

Definition select_stmt_text_full (q : string) (d : store) (m : tmode) : tres (list Order.row) :=
  to_tres (select_stmt_text_full_st q d m).

End PipelineFull.
