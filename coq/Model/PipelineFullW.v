(* Model/PipelineFullW.v -- the DELETE statement of Model/PipelineW.v with the access path FORCED to a
   full scan: the same front end (lexer, parser, checker, folder: [delete_plan_text] itself is
   re-used, nothing of it is copied), the same filter (FilterExec over the folded WHERE tree), the
   same LIMIT, but the plan is
       DeletePlan{ [LimitPlan{Start, Count,] FullScanPlan{Filter} [}] }
   instead of what buildDeletePlan makes of the inferred region (EmptyResultPlan with the LIMIT
   dropped / DeletePlan [LimitPlan] over the narrowed scan node / the RemovePlan shortcut).

   This is the reference C02 speaks about for DELETE ("deletes exactly what a full scan filtered pair
   by pair would"); it is what harness/c02text.go builds by hand on the second copy of the store.
   Proofs/NarrowDeleteProofs.v compares the two.  No proofs in this file. *)
From Coq Require Import List String ZArith Bool Arith.
Import ListNotations.
From KV Require Import Base.Bytes Model.Ast Model.Value Model.Eval Model.StmtParser Model.Checker
                       Model.FilterOpt Model.Storage Model.Write Model.ScanIO Model.ScanSem Model.Delete
                       Model.Pipeline Model.PipelineW.
Local Open Scope list_scope.

(* DeletePlan over [LimitPlan over] the given scan node: no EmptyResultPlan special case, no
   RemovePlan shortcut *)
Definition dplan_over (sc : scan) (limit : option (nat * nat)) : dplan :=
  match limit with
  | None => DScan (PScan sc)
  | Some (start, count) => DScan (PLimit start count (PScan sc))
  end.

Section PipelineFullW.
Variable fo : fops.
Variable re_match : bytes -> bytes -> Value.res bool.
Variable fmt_v : F fo -> string.

(* the LIMIT clause of the statement the front end accepts, as LimitPlan's (Start, Count) *)
Definition delete_limit_text (q : string) : tres (option (nat * nat)) :=
  tbind (front fo is_delete_kind q) (fun sc =>
    match fst sc with
    | StmtParser.StDelete _ _ _ lim =>
        match limit_of lim with
        | None => TOom
        | Some limit => TOk limit
        end
    | _ => TPanic
    end).

(* the planned DELETE with its plan replaced: the filter is the one of [delete_plan_text] *)
Definition delete_plan_text_over (sc : scan) (q : string) : tres dplanned :=
  tbind (delete_plan_text fo re_match fmt_v q) (fun pl =>
  tbind (delete_limit_text q) (fun limit =>
    TOk (DPlanned (dp_filter pl) (dplan_over sc limit)))).

(* what [delete_text] does once the statement is planned (Model/PipelineW.v delete_text is
   [run_dplanned (delete_plan_text q)]: NarrowDeleteProofs.delete_text_run, by cases on the outcome) *)
Definition run_dplanned (r : tres dplanned) (B : nat) (s : sstate) : tres dplan * sstate :=
  match r with
  | TOk pl =>
      if filter_oom fo re_match (dp_filter pl) (sdata s) then (TOom, s)
      else (TOk (dp_plan pl),
            run_delete (filter_of fo re_match (dp_filter pl)) B (delete_fuel (dp_plan pl) (sdata s)) (dp_plan pl) s)
  | r => (tcast r, s)
  end.

Definition delete_text_over (sc : scan) (q : string) (B : nat) (s : sstate) : tres dplan * sstate :=
  run_dplanned (delete_plan_text_over sc q) B s.

(* the forced full scan *)
Definition delete_text_full (q : string) (B : nat) (s : sstate) : tres dplan * sstate :=
  delete_text_over SFull q B s.

End PipelineFullW.
