(* Model/PipelineIO.v -- the STORAGE SIDE of a SELECT given as query text: which statement of
   Model/ScanIO.v (the plan nodes as programs over the storage instructions Cursor / Seek / Next /
   Get) NewOptimizer(q).BuildPlan(storage) builds for the text.  Nothing new is modelled here:
   Model/PipelineS.v says which scan node ([sp_scan]) and which final-plan shape ([sp_shape],
   SelectPlans.build_final_plan) the text gets, Model/ScanIO.v has a node for each of them, and
   this file only maps one onto the other:

     SelectPlans.shape                      ScanIO.fplan
       SProj                                  FProj (PScan scan)             ProjectionPlan{ChildPlan: scan}
       SAgg start limit                       FAggr (PScan scan) all start limit
                                                                             AggregatePlan{ChildPlan: scan, AggrAll, Start, Limit}
       SOrder _ child                         FOrder child                   FinalOrderPlan
       SLimit start count child               FLimit start count child       FinalLimitPlan

   (a SELECT never has a LimitPlan between the scan and the projection: optimizer.go builds
   LimitPlan for DELETE only.)  The WHERE filter and the GROUP BY key are ScanIO's oracles [flt] /
   [gkey]; the theorems of Proofs/ScanSlotsProofs.v hold for all of them.

   A text BuildPlan rejects (SyntaxError of the front end or of buildFinalPlan, or the
   ExecuteError AggregatePlan.Init raises BEFORE it calls ChildPlan.Init) is ScanIO.StRejected: no
   Init of a scan node has run, no storage call has been made.  A text outside Model/PipelineS.v's
   boundary has no statement here ([None]).

   No proofs in this file (Proofs/ScanSlotsProofs.v). *)
From Coq Require Import List String ZArith Bool Arith.
Import ListNotations.
From KV Require Import Base.Bytes Model.Value Model.Storage Model.ScanIO Model.ScanSem Model.SelectPlans
                       Model.Pipeline Model.PipelineS.
Local Open Scope list_scope.

(* the final plan of a shape over a scan node *)
Fixpoint fplan_of_shape (sc : scan) (all : bool) (sh : shape) : fplan :=
  match sh with
  | SProj => FProj (PScan sc)
  | SAgg start limit => FAggr (PScan sc) all start limit
  | SOrder _ child => FOrder (fplan_of_shape sc all child)
  | SLimit start count child => FLimit start count (fplan_of_shape sc all child)
  end.

Section PipelineIO.
Variable fo : fops.
Variable re_match : bytes -> bytes -> Value.res bool.
Variable fmt_v : F fo -> string.

(* AggregatePlan.AggrAll: no GROUP BY clause *)
Definition aggr_all (c : cstmt fo) : bool :=
  match s_aggr (F fo) (q_stmt fo c) with
  | Some (all, _) => all
  | None => true
  end.

Definition text_fplan (pl : splanned fo) : fplan :=
  fplan_of_shape (sp_scan fo pl) (aggr_all (sp_q fo pl)) (sp_shape fo pl).

(* the statement ScanIO.run_stmt runs for the text *)
Definition text_stmt (q : string) : option ScanIO.stmt :=
  match plan_stmt_text fo re_match fmt_v q with
  | STOk pl => Some (StSelect (text_fplan pl))
  | STReject _ => Some StRejected
  | STBuildErr _ => Some StRejected
  | _ => None
  end.

(* iteration mode and batch size of the caller in ScanIO's vocabulary *)
Definition io_mode (m : tmode) : mode := match m with MRow => RowMode | MBatch _ => BatchMode end.
Definition io_batch (m : tmode) : nat := match m with MRow => 1 | MBatch B => B end.

End PipelineIO.
