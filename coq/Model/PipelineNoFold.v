(* Model/PipelineNoFold.v -- Model/PipelineS.v's SELECT pipeline PARAMETERISED by the folder:
   [plan_of_front_gen fexec fobj] is PipelineS.plan_of_front with
     fexec  in place of FoldStmt.exec_tree (what optimizeSelectExpressions leaves in stmt.Where
            and stmt.Fields[i]: the trees the nodes execute, buildFinalPlan looks at and the scan
            region is inferred from), and
     fobj   in place of in_place . relink (the state of the field OBJECT a GROUP BY item points to).
   With the real folder it IS plan_of_front ((not proved: that plan_of_front_gen instantiated with the real folder IS plan_of_front is compared by stream T only), by
   reflexivity); with the identity it is the pipeline of a kvql whose optimizeSelectExpressions
   does nothing: [select_stmt_text_nofold].  Everything else (front end, model boundary incl.
   Pipeline.fold_oom, plan construction, drain) is shared, not copied.  No proofs in this file. *)
From Coq Require Import List String ZArith Bool Arith.
Import ListNotations.
From KV Require Import Base.Bytes Base.Num Model.Token Model.Ast Model.Value Model.Eval Model.EvalVec
                       Model.Lexer Model.ExprParser Model.StmtParser Model.ParseCheck Model.Fold
                       Model.FilterOpt Model.Storage Model.ScanIO Model.ScanSem Model.ScanProj
                       Model.SelectPlans Model.Pipeline Model.PipelineW Model.PipelineS.
From KV Require Model.Checker Model.FoldStmt Model.Order Model.Aggregate Spec.Group.
Local Open Scope string_scope.
Local Open Scope list_scope.

Section PipelineNoFold.
Variable fo : fops.
Variable re_match : bytes -> bytes -> Value.res bool.
Variable fmt_v : F fo -> string.
Variable ag : aggops fo.
Variable parse_int parse_float : bytes -> option Z.

Variable fexec : expr -> expr.      (* the tree a node executes for a checked tree *)
Variable fobj : expr -> expr.       (* the state of a field object a GROUP BY item points to *)

Definition group_expr_gen (fields : list (string * expr)) (it : expr) : expr :=
  match it with
  | EField _ _ => it
  | _ =>
      match Checker.get_named fields (item_name it) with
      | Some f => fobj f
      | None => it
      end
  end.

Definition plan_of_front_gen (x : select_t) (fields : list (string * expr)) (w : expr) : stres (splanned fo) :=
  match limit_of (StmtParser.s_limit x) with
  | None => STOom
  | Some limit =>
      if fold_oom fo re_match fmt_v w || existsb (fun nf => fold_oom fo re_match fmt_v (snd nf)) fields
      then STOom
      else
        let wf := fexec w in
        let ffields := map (fun nf => (fst nf, fexec (snd nf))) fields in
        let sc := scan_of_region (FilterOpt.optimize wf) in
        let names := plan_names x fields in
        let types := plan_types x fields in
        let order := option_map (order_fields fields) (StmtParser.s_order x) in
        match plan_select x ffields with
        | PlErr z => STReject z
        | PlProjection =>
            STOk (SPlanned fo x fields w sc
                    (CStmt fo wf (if s_all x then None else Some (map snd ffields)) [] [] []
                           (Stmt (F fo) None names types order limit)))
        | PlAggregate =>
            stbind (of_init (agg_split fo (map snd ffields) [] [])) (fun sp =>
              let gs := match s_group x with
                        | Some g => map (group_expr_gen fields) (g_items g)
                        | None => []
                        end in
              let all := match s_group x with Some _ => false | None => true end in
              STOk (SPlanned fo x fields w sc
                      (CStmt fo wf (Some (map snd ffields)) gs (snd (fst sp)) (snd sp)
                             (Stmt (F fo) (Some (all, fst (fst sp))) names types order limit))))
        end
  end.

Definition plan_stmt_text_gen (q : string) : stres (splanned fo) :=
  stbind (front_s fo q) (fun r => plan_of_front_gen (fst (fst r)) (snd (fst r)) (snd r)).

Definition select_stmt_text_st_gen (q : string) (d : store) (m : tmode) : stres (list Order.row) :=
  stbind (plan_stmt_text_gen q) (fun pl =>
    of_drain (drain_planned fo re_match ag parse_int parse_float pl d m)).

Definition select_stmt_text_gen (q : string) (d : store) (m : tmode) : tres (list Order.row) :=
  to_tres (select_stmt_text_st_gen q d m).

End PipelineNoFold.

(* the pipeline with the folder replaced by the identity *)
Definition plan_stmt_text_nofold fo re_match fmt_v (q : string) : stres (splanned fo) :=
  plan_stmt_text_gen fo re_match fmt_v (fun e => e) (fun e => e) q.
Definition select_stmt_text_st_nofold fo re_match fmt_v ag parse_int parse_float
           (q : string) (d : store) (m : tmode) : stres (list Order.row) :=
  select_stmt_text_st_gen fo re_match fmt_v ag parse_int parse_float (fun e => e) (fun e => e) q d m.
Definition select_stmt_text_nofold fo re_match fmt_v ag parse_int parse_float
           (q : string) (d : store) (m : tmode) : tres (list Order.row) :=
  to_tres (select_stmt_text_st_nofold fo re_match fmt_v ag parse_int parse_float q d m).
