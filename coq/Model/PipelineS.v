(* Model/PipelineS.v -- SELECT FROM THE QUERY TEXT, in general: field lists (aliases, duplicate
   names), WHERE, ORDER BY, GROUP BY / aggregates, LIMIT.  The twin of the GLUE of optimizer.go --
   kvql.NewOptimizer(q).BuildPlan(storage) followed by the caller's Next / Batch loop -- which plugs
   the twins of the single layers together in the order the Go code runs them:

     Optimizer.init
       NewParser(q)                    Lexer.Split                          Model/Lexer.v       lex
       Parser.Parse                    statement syntax WITH the four semantic tests parser.go
                                       runs in the middle of parsing (checkFieldCycles, the
                                       ORDER BY / GROUP BY lookups, Check of the GROUP BY
                                       fields)                              Model/ParseCheck.v  parse_real
                                       resolveFieldNames, WHERE (Check, Boolean), ValidateFields;
                                       FieldTypes[i] = Fields[i].ReturnType() taken HERE, on the
                                       checked, not yet folded fields       Model/Checker.v     check_stmt
       checkStatementFunctionCalls     WHERE, then the fields               Model/Checker.v     check_stmt_calls
                                       ([front_s] = ParseCheck.parse_check up to this point:
                                       parse_check is front_s followed by ParseCheck.plan_stage,
                                       Proofs/PipelineSProofs.v front_s_parse_check)
       optimizeSelectExpressions       stmt.Where.Expr = eo.Optimize(); stmt.Fields[i] = eo.Optimize()
                                       IN PLACE: references, ORDER BY and GROUP BY items keep
                                       pointing to the field OBJECTS        Model/FoldStmt.v    exec_tree, in_place
       o.filter = FilterExec{Ast: stmt.Where}      a POINTER: the filter evaluates the folded tree
     buildSelectPlan
       buildScanPlan                   the region is inferred from the FOLDED WHERE tree
                                                                            Model/FilterOpt.v   optimize
                                       EmptyResultPlan / MultiGetPlan / PrefixScanPlan /
                                       RangeScanPlan / FullScanPlan         Model/ScanSem.v     scan_of_region
       buildFinalPlan                  hasAggr / aggrFields are computed on the FOLDED fields
                                       (`true | count(1) > 0 as x` is folded to `true`: a
                                       ProjectionPlan); the three SyntaxErrors
                                                                            Model/ParseCheck.v  plan_select
                                       ProjectionPlan{Fields (folded), FieldNames, FieldTypes} or
                                       AggregatePlan{Fields (folded), GroupByFields (the field
                                       OBJECTS found at parse time, in the state the folder left
                                       them), AggrAll, Start / Limit}; buildFinalOrderPlan
                                       (`order by key asc` alone is dropped over a projection;
                                       OrderField.Field is the FIRST field of that name);
                                       buildFinalLimitPlan (LIMIT pushed into the AggregatePlan
                                       only without ORDER BY)               Model/SelectPlans.v build_final_plan
       ret.Init() (twice)              FinalOrderPlan.Init: orderPos / orderTypes by the FIRST
                                       field name equal to the item's name  Model/Order.v       init_orders
                                       AggregatePlan.Init: which fields are keys, the aggregate
                                       calls of each field, argument counts, group_concat's
                                       separator ([agg_split])
     the caller                        Next until nil / Batch until empty   Model/SelectPlans.v run_shape_row / run_shape_batch
                                       over the slots of the scan           [scan_slots]

   [scan_slots]: what the scan node reads, as Model/ScanProj.v's slots: a cursor scan yields the
   stored pairs from its seek position up to (not including) the first pair beyond its end; a
   MultiGetPlan has one slot per listed key (sorted, duplicate-free: ScanSem.mget_keys), empty
   when the key is not stored.  Storage faults are C13's; the storage traffic is C18's.

   THE MODEL BOUNDARY is explicit ([STOom] / [TOom]).  Decided on the TEXT and on the statement,
   before any pair is read:
     - ParseCheck.pc_oom: the lexer twin's own boundary, a NAME token with a byte >= 0x80, a FLOAT
       token outside the modelled fragment of strconv.ParseFloat, 10000 tokens or more, GROUP
       together with a call on a compound function name;
     - the first token (trailing semicolons dropped) is PUT / REMOVE / DELETE: Model/PipelineW.v;
     - a SELECT whose FieldNames and Fields differ in length (Parser.Parse never builds one).
       (GROUP BY together with a select field that uses a field name,
       `select int(value) as n, sum(n) .. group by n`, is inside this twin -- and inside
       ParseCheck.to_check, which is [to_check_s] below on a SELECT -- and compared with the Go
       code on every run);
     - a LIMIT offset or count above PipelineW.limit_bound (unary [nat] counters);
     - Pipeline.fold_oom for the WHERE tree or a field: a constant sub-tree the folder reaches that
       the evaluator twin cannot evaluate (json, a regular expression, a float outside Base/Flt);
     - an AggregatePlan whose fields are outside Spec/Group.v ([agg_split]): quantile, an
       aggregate field that is not built from aggregate calls, integer literals and + - * /
       (a float literal, a scalar call or a field name next to an aggregate call, a comparison
       of aggregates), group_concat with a separator that is not a string literal after folding.
   Decided by the evaluator twin while the plan runs (the drain answers Value.OutOfModel):
     - json(), JSON field access, a regular expression the oracle [re_match] does not answer,
       non-ASCII case mapping, a float outside Base/Flt's fragment, a list value handed to the
       aggregate code (Model/SelectPlans.v gval).
   NOT modelled: the field cache (off: C05 proves it invisible), storage faults (C13).

   No proofs in this file (Proofs/PipelineSProofs.v). *)
From Coq Require Import List String ZArith Bool Arith.
Import ListNotations.
From KV Require Import Base.Bytes Base.Num Model.Token Model.Ast Model.Value Model.Eval Model.EvalVec
                       Model.Lexer Model.ExprParser Model.StmtParser Model.ParseCheck Model.Fold
                       Model.FilterOpt Model.Storage Model.ScanIO Model.ScanSem Model.ScanProj
                       Model.SelectPlans Model.Pipeline Model.PipelineW.
From KV Require Model.Checker Model.FoldStmt Model.Order Model.Aggregate Spec.Group.
Local Open Scope string_scope.
Local Open Scope list_scope.

(* ------------------------------------------------------------------ outcomes.  Pipeline.tres
   with the errors of the run kept as the evaluator twins report them (class and position), and
   one more way BuildPlan can fail: an error of AggregatePlan.Init that is not a SyntaxError. *)
Inductive stres (A : Type) :=
  | STOk (a : A)
  | STReject (p : Z)              (* BuildPlan: *SyntaxError with this Pos (-1: end of input) *)
  | STBuildErr (e : Value.err)    (* BuildPlan: another error (AggregatePlan.Init: ExecuteError) *)
  | STRunErr (e : Value.err)      (* the drain failed *)
  | STRunPanic                    (* the drain would panic (heap.Pop on an empty heap ...) *)
  | STPanic                       (* the front end would dereference nil (proved unreachable) *)
  | STFuel                        (* front-end fuel exhausted (proved unreachable) *)
  | STOom.                        (* outside the model, see the header *)
Arguments STOk {A} a.
Arguments STReject {A} p.
Arguments STBuildErr {A} e.
Arguments STRunErr {A} e.
Arguments STRunPanic {A}.
Arguments STPanic {A}.
Arguments STFuel {A}.
Arguments STOom {A}.

Definition stbind {A B} (r : stres A) (f : A -> stres B) : stres B :=
  match r with
  | STOk a => f a
  | STReject p => STReject p
  | STBuildErr e => STBuildErr e
  | STRunErr e => STRunErr e
  | STRunPanic => STRunPanic
  | STPanic => STPanic
  | STFuel => STFuel
  | STOom => STOom
  end.

Definition verr_class (e : Value.err) : Storage.err :=
  match e with
  | Value.EExec _ => Storage.EExec
  | Value.ESyntax _ => Storage.ESyntax
  | Value.EOther => Storage.EExec
  end.

Definition to_tres {A} (r : stres A) : tres A :=
  match r with
  | STOk a => TOk a
  | STReject p => TReject p
  | STBuildErr (Value.ESyntax p) => TReject (Z.of_nat p)
  | STBuildErr e => TRunErr (verr_class e)
  | STRunErr e => TRunErr (verr_class e)
  | STRunPanic => TRunErr Storage.EPanic
  | STPanic => TPanic
  | STFuel => TFuel
  | STOom => TOom
  end.

(* a stage of the front end: only SyntaxErrors are raised there *)
Definition of_front {A} (r : Value.res A) : stres A :=
  match r with
  | Value.Ok a => STOk a
  | Value.Err (Value.ESyntax p) => STReject (Z.of_nat p)
  | Value.Err _ => STPanic
  | Value.Panic => STPanic
  | Value.OutOfModel => STOom
  end.

(* AggregatePlan.Init *)
Definition of_init {A} (r : Value.res A) : stres A :=
  match r with
  | Value.Ok a => STOk a
  | Value.Err (Value.ESyntax p) => STReject (Z.of_nat p)
  | Value.Err e => STBuildErr e
  | Value.Panic => STPanic
  | Value.OutOfModel => STOom
  end.

(* the drain *)
Definition of_drain {A} (r : Value.res A) : stres A :=
  match r with
  | Value.Ok a => STOk a
  | Value.Err e => STRunErr e
  | Value.Panic => STRunPanic
  | Value.OutOfModel => STOom
  end.

(* ------------------------------------------------------------------ the slots of a scan *)

(* the pairs a cursor yields before the loop-exit test of the scan fires *)
Fixpoint take_until (stop : kvp -> bool) (d : store) : store :=
  match d with
  | [] => []
  | kv :: d' => if stop kv then [] else kv :: take_until stop d'
  end.

Definition scan_slots (sc : scan) (d : store) : list (option kvpair) :=
  match sc with
  | SEmpty => []
  | SFull => map (@Some kvpair) (seek_from EmptyString d)
  | SPrefix p => map (@Some kvpair) (take_until (scan_stop sc) (seek_from p d))
  | SRange lo _ =>
      map (@Some kvpair) (take_until (scan_stop sc) (match lo with Some k => seek_from k d | None => d end))
  | SMget ks => map (fun k => match sget k d with Some v => Some (k, v) | None => None end) ks
  end.

(* ------------------------------------------------------------------ types and names *)

Definition oty (t : ty) : Order.type :=
  match t with
  | TUnknown => Order.TUNKNOWN
  | TBool => Order.TBOOL
  | TStr => Order.TSTR
  | TNumber => Order.TNUMBER
  | TIdent => Order.TIDENT
  | TList => Order.TLIST
  | TJson => Order.TJSON
  end.

(* arithmetic inside an aggregate field *)
Definition arith_of (o : op) : option Group.arith :=
  match o with
  | OAdd => Some Group.Plus
  | OSub => Some Group.Minus
  | OMul => Some Group.Times
  | ODiv => Some Group.Divide
  | _ => None
  end.

Section PipelineS.
Variable fo : fops.
Variable re_match : bytes -> bytes -> Value.res bool.
Variable fmt_v : F fo -> string.            (* fmt.Sprintf("%v", float64), see Model/Fold.v *)
Variable ag : aggops fo.                    (* float64 library operations of the aggregate / order code *)
Variable parse_int parse_float : bytes -> option Z.   (* strconv, for compareNumber on text *)

(* ------------------------------------------------------------------ Optimizer.init up to the
   point where the statement is accepted: ParseCheck.parse_check without its last stage
   (ParseCheck.plan_stage: the folder on the fields and buildFinalPlan's tests, which
   [plan_of_front] below runs itself, next to what else buildSelectPlan does).
   Result: the parser's statement, the checked fields (FieldNames zipped with Fields, names
   resolved) and the checked WHERE tree. *)
(* ParseCheck.to_check for a SELECT (Proofs/PipelineSProofs.v to_check_s_agrees: the two are
   the same function on a SELECT).  GROUP BY statements whose select fields use field names are
   inside: SelectStmt.resolveFieldNames has turned those names into references before
   parseGroupBy checks the GROUP BY fields, so that Check leaves the fields as they are. *)
Definition to_check_s (x : select_t) : option Checker.stmt :=
  if negb (Nat.eqb (List.length (StmtParser.s_names x)) (List.length (s_fields x))) then None
  else Some (Checker.SSelect (combine (StmtParser.s_names x) (s_fields x)) (s_where x) (order_items (StmtParser.s_order x))).

Definition front_s (q : string) : stres (select_t * list (string * expr) * expr) :=
  let ts := lex q in
  if pc_oom fo q ts then STOom
  else
    match head_kind ts with
    | KOther =>
        match parse_real fo ts with
        | SErr z => STReject z
        | SPanic => STPanic
        | SFuel => STFuel
        | SOk (StmtParser.StSelect x) =>
            match to_check_s x with
            | None => STOom
            | Some c =>
                stbind (of_front (Checker.check_stmt fo true c)) (fun c2 =>
                stbind (of_front (Checker.check_stmt_calls c2)) (fun _ =>
                  match c2 with
                  | Checker.SSelect fields w _ => STOk (x, fields, w)
                  | _ => STPanic                (* the checker returns the statement kind it was given *)
                  end))
            end
        | SOk _ => STOom                        (* not reached: head_kind *)
        end
    | _ => STOom                                (* PUT / REMOVE / DELETE: Model/PipelineW.v *)
    end.

(* ------------------------------------------------------------------ AggregatePlan.Init: the
   fields as Spec/Group.v's fields.  [calls]: the aggregate calls of the field so far (AECall i
   is the i-th); [args]: the first arguments of all aggregate calls of the statement so far
   (c_arg indexes this list), in the order listAggrFuncs / updateRowAggrFunc visit the calls. *)

(* functor.NumArgs != len(Args): ExecuteError at the call; functor.Body(args) *)
Definition afun_of (nm : string) (p : nat) (cargs : list expr) : Value.res Group.afun :=
  let arity (n : nat) (f : Value.res Group.afun) :=
    if Nat.eqb (List.length cargs) n then f else Value.Err (Value.EExec p) in
  if String.eqb nm "count" then arity 1 (Value.Ok Group.ACount)
  else if String.eqb nm "sum" then arity 1 (Value.Ok Group.ASum)
  else if String.eqb nm "avg" then arity 1 (Value.Ok Group.AAvg)
  else if String.eqb nm "min" then arity 1 (Value.Ok Group.AMin)
  else if String.eqb nm "max" then arity 1 (Value.Ok Group.AMax)
  else if String.eqb nm "json_arrayagg" then arity 1 (Value.Ok Group.AJsonArrayAgg)
  else if String.eqb nm "group_concat" then
    arity 2 (match cargs with
             | [_; sep] =>
                 if negb (ty_eqb (rtype sep) TStr) then Value.Err (Value.ESyntax (epos sep))
                 else match sep with
                      | EStr _ s => Value.Ok (Group.AGroupConcat s)
                      | _ => Value.OutOfModel
                      end
             | _ => Value.Panic
             end)
  else Value.OutOfModel.                       (* quantile *)

Fixpoint aexpr_of (e : expr) (calls : list Group.call) (args : list expr)
  : Value.res (Group.aexpr (F fo) * list Group.call * list expr) :=
  match e with
  | EBin _ o l r =>
      do x <- aexpr_of l calls args;
      do y <- aexpr_of r (snd (fst x)) (snd x);
      match arith_of o with
      | Some a => Value.Ok (Group.AEBin a (fst (fst x)) (fst (fst y)), snd (fst y), snd y)
      | None => Value.OutOfModel
      end
  | ENum _ d => Value.Ok (Group.AEInt (num_value d), calls, args)
  | ECall p n cargs =>
      if Checker.is_aggr_call e then
        match call_name n with
        | Some nm =>
            do f <- afun_of nm p cargs;
            match cargs with
            | a :: _ => Value.Ok (Group.AECall (List.length calls),
                                  calls ++ [Group.Call f (List.length args)], args ++ [a])
            | [] => Value.Panic                (* not reached: every arity is >= 1 *)
            end
        | None => Value.Panic
        end
      else Value.OutOfModel
  | _ => Value.OutOfModel
  end.

(* the switch of AggregatePlan.Init: FunctionCallExpr / BinaryOpExpr with an aggregate call
   inside are aggregate fields, everything else is a key field *)
Definition is_agg_field (e : expr) : bool :=
  match e with
  | EBin _ _ _ _ | ECall _ _ _ => find_aggr e
  | _ => false
  end.

Fixpoint agg_split (fields : list expr) (keys args : list expr)
  : Value.res (list (Group.field (F fo)) * list expr * list expr) :=
  match fields with
  | [] => Value.Ok ([], keys, args)
  | f :: fields' =>
      if is_agg_field f then
        do x <- aexpr_of f [] args;
        do r <- agg_split fields' keys (snd x);
        Value.Ok (Group.FAgg (fst (fst x)) (snd (fst x)) :: fst (fst r), snd (fst r), snd r)
      else
        do r <- agg_split fields' (keys ++ [f]) args;
        Value.Ok (Group.FKey (List.length keys) :: fst (fst r), snd (fst r), snd r)
  end.

(* ------------------------------------------------------------------ what buildFinalPlan reads
   off the statement *)

(* OrderStmt.Orders: Name, Field = the FIRST select field of that name (findFieldInSelect at
   parse time; the kind of that object never changes afterwards), Order *)
Definition order_fields (fields : list (string * expr)) (o : order_t) : list Order.order_field :=
  map (fun it =>
         Order.OrderField (item_name (fst it))
           (match Checker.get_named fields (item_name (fst it)) with
            | Some f => f
            | None => EName 0 ""             (* not reached: the ORDER BY lookup has passed *)
            end)
           (match snd it with DDesc => true | DAsc => false end))
      (o_items o).

(* GroupByField.Expr: a key / value item is the item itself; any other item is the select
   field OBJECT found for its name at parse time (the first of that name).  The folder rewrote
   that object in place; the slot stmt.Fields[i] holds what Optimize returned, the GROUP BY
   item still points to the object (FoldStmt.in_place, as for a field reference). *)
Definition group_expr (fields : list (string * expr)) (it : expr) : expr :=
  match it with
  | EField _ _ => it
  | _ =>
      match Checker.get_named fields (item_name it) with
      | Some f => FoldStmt.in_place fo re_match fmt_v (FoldStmt.relink fo re_match fmt_v f)
      | None => it                             (* not reached: the GROUP BY lookup has passed *)
      end
  end.

(* FieldNameList / FieldTypeList of the projection or aggregate node.  FieldTypes were taken by
   Parser.Parse from the CHECKED fields, before the folder ran. *)
Definition plan_names (x : select_t) (fields : list (string * expr)) : list string :=
  if s_all x then ["KEY"; "VALUE"] else map fst fields.
Definition plan_types (x : select_t) (fields : list (string * expr)) : list Order.type :=
  if s_all x then [Order.TSTR; Order.TSTR] else map (fun nf => oty (rtype (snd nf))) fields.

(* the statement as planned *)
Record splanned := SPlanned {
  sp_select : select_t;                       (* the parser's statement *)
  sp_fields : list (string * expr);           (* the checker's fields (names resolved, not folded) *)
  sp_where : expr;                            (* the checker's WHERE tree (not folded) *)
  sp_scan : scan;                             (* the scan node under the projection / aggregate node *)
  sp_q : cstmt fo                             (* the trees the nodes execute, and what buildFinalPlan looks at *)
}.

Definition exec_of (e : expr) : expr := FoldStmt.exec_tree fo re_match fmt_v e.

(* optimizeSelectExpressions + buildSelectPlan, for an accepted statement *)
Definition plan_of_front (x : select_t) (fields : list (string * expr)) (w : expr) : stres splanned :=
  match limit_of (StmtParser.s_limit x) with
  | None => STOom
  | Some limit =>
      if fold_oom fo re_match fmt_v w || existsb (fun nf => fold_oom fo re_match fmt_v (snd nf)) fields
      then STOom
      else
        let wf := exec_of w in
        let ffields := map (fun nf => (fst nf, exec_of (snd nf))) fields in
        let sc := scan_of_region (FilterOpt.optimize wf) in
        let names := plan_names x fields in
        let types := plan_types x fields in
        let order := option_map (order_fields fields) (StmtParser.s_order x) in
        match plan_select x ffields with
        | PlErr z => STReject z
        | PlProjection =>
            STOk (SPlanned x fields w sc
                    (CStmt fo wf (if s_all x then None else Some (map snd ffields)) [] [] []
                           (Stmt (F fo) None names types order limit)))
        | PlAggregate =>
            stbind (of_init (agg_split (map snd ffields) [] [])) (fun sp =>
              let gs := match s_group x with
                        | Some g => map (group_expr fields) (g_items g)
                        | None => []
                        end in
              let all := match s_group x with Some _ => false | None => true end in
              STOk (SPlanned x fields w sc
                      (CStmt fo wf (Some (map snd ffields)) gs (snd (fst sp)) (snd sp)
                             (Stmt (F fo) (Some (all, fst (fst sp))) names types order limit))))
        end
  end.

(* NewOptimizer(q).BuildPlan(store): accepted, or the error it returns *)
Definition plan_stmt_text (q : string) : stres splanned :=
  stbind (front_s q) (fun r => plan_of_front (fst (fst r)) (snd (fst r)) (snd r)).

(* the shape buildFinalPlan built *)
Definition sp_shape (pl : splanned) : shape := stmt_shape (F fo) (q_stmt fo (sp_q pl)).

(* the caller's loop over the plan *)
Definition run_mode (m : tmode) (c : cstmt fo) (sh : shape) (sl : list (option kvpair))
  : Value.res (list Order.row) :=
  match m with
  | MRow => select_shape_row fo re_match ag parse_int parse_float c sh sl
  | MBatch B => select_shape_batch fo re_match ag parse_int parse_float B c sh sl
  end.

Definition drain_planned (pl : splanned) (d : store) (m : tmode) : Value.res (list Order.row) :=
  run_mode m (sp_q pl) (sp_shape pl) (scan_slots (sp_scan pl) d).

(* NewOptimizer(q).BuildPlan(store), drained: errors with class and position *)
Definition select_stmt_text_st (q : string) (d : store) (m : tmode) : stres (list Order.row) :=
  stbind (plan_stmt_text q) (fun pl => of_drain (drain_planned pl d m)).

(* ... in Model/Pipeline.v's vocabulary *)
Definition select_stmt_text (q : string) (d : store) (m : tmode) : tres (list Order.row) :=
  to_tres (select_stmt_text_st q d m).

End PipelineS.
