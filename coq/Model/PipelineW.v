(* Model/PipelineW.v -- the WRITE statements FROM THE QUERY TEXT: the twin of the glue of
   optimizer.go for PUT, REMOVE and DELETE -- kvql.NewOptimizer(q).BuildPlan(storage) followed by
   the caller's polls -- which plugs the twins of the single layers together in the order the Go
   code runs them:

     Optimizer.init
       NewParser(q)                    Lexer.Split                        Model/Lexer.v        lex
       Parser.Parse                    trimEndSemis, dispatch on the first
                                       token, parsePut / parsePutKVPair,
                                       parseRemove, parseDelete + parseLimit  Model/StmtParser.v parse_statement
                                       stmt.Validate(ctx) at the end of parsePut
                                       (NotAllowValue; the key expression with
                                       NotAllowKey; text-or-number results),
                                       parseRemove (NotAllowKey, NotAllowValue;
                                       the type test BEFORE Check), parseDelete
                                       (Check, Boolean WHERE)             Model/Checker.v      check_stmt   } build_check
       checkStatementFunctionCalls     pairs: key then value; keys; WHERE Model/Checker.v      check_stmt_calls }
       PUT / REMOVE                    NOTHING is folded: the switch of Optimizer.init has no
                                       case for *PutStmt / *RemoveStmt, buildPutPlan /
                                       buildRemovePlan hand stmt.KVPairs / stmt.Keys to the plan
                                       as the parser and the checker left them
       DELETE                          optimizeDeleteExpressions: stmt.Where.Expr = eo.Optimize()
                                                                          Model/Fold.v         fold
                                       o.filter = FilterExec{Ast: stmt.Where}: a POINTER to the
                                       WhereStmt whose Expr was just replaced -- the filter
                                       evaluates the FOLDED tree
     buildPutPlan / buildRemovePlan    PutPlan{KVPairs} / RemovePlan{Keys}, Init            Model/Write.v     WPut / WRemove
     buildDeletePlan                   buildScanPlan: NewFilterOptimizer(o.filter.Ast, ..).Optimize():
                                       the region is inferred from the FOLDED tree             Model/FilterOpt.v optimize
                                       EmptyResultPlan -> DeletePlan over it, LIMIT ignored;
                                       MultiGetPlan && stmt.Limit == nil &&
                                       canOptimizeDeletePlanToRemovePlan (no AND / and anywhere in
                                       mgPlan.Filter.Ast.Expr, the FOLDED tree) -> RemovePlan over the
                                       listed keys (sorted, duplicate-free), the filter is never run;
                                       otherwise DeletePlan over the scan, or over
                                       LimitPlan{Start, Count, scan}                            Model/Delete.v    build_delete
     BuildPlan                         Init once more                                           (wexec / delete_prog)
     the caller                        PUT / REMOVE: any sequence of Next / Batch polls         Model/Write.v     wexec
                                       DELETE: polls until nil (one row, then nil)              Model/Delete.v    run_delete

   The mid-parse semantic tests of parser.go (Model/StmtParser.v hooks: checkFieldCycles, the ORDER
   BY / GROUP BY lookups) are IRRELEVANT here: Parser.Parse dispatches on the type of the first
   token; parsePut / parseRemove / parseDelete never call them (parse_put / parse_remove /
   parse_delete of the twin do not take the hooks), and every other first token is outside this
   twin ([head_kind]).  So [parse_statement] IS Parser.Parse's whole syntax phase on these texts.

   Expression evaluation: [ev_expr] = toString (e.Execute (KVPair{key, value}, ctx)) through the
   evaluator twin Model/Eval.v.

   The MODEL BOUNDARY is explicit ([TOom]):
     - ParseCheck.pc_oom: the lexer twin's own boundary, a NAME token with a byte >= 0x80, a FLOAT
       token outside the modelled fragment of strconv.ParseFloat, 10000 tokens or more;
     - the first token (after the trailing semicolons are dropped) is not PUT / REMOVE
       ([write_text]) resp. not DELETE ([delete_text]): SELECT / WHERE statements are
       Model/Pipeline.v's, and a text that starts with anything else -- or is empty -- is not a write
       statement (it is rejected at once by Parser.Parse: C15 / C17);
     - PUT / REMOVE: a key or value expression the plan evaluates (in statement order, up to the
       first one that fails) on which the evaluator twin is outside its model (a regular expression,
       a float outside Base/Flt's fragment, json) ([plan_stat]);
     - DELETE: a LIMIT offset or count above [limit_bound] (the limit twin of Model/ScanIO.v counts
       in unary [nat]; int64 values beyond that are C08's saturating model); [fold_oom]: a constant
       sub-tree the folder reaches that the evaluator twin cannot evaluate; a stored pair on which
       the evaluator twin is outside its model for the folded WHERE tree;
     - whatever the checker twin does not model (Value.OutOfModel).
   NOT modelled: a WHERE clause that FAILS to evaluate on a pair the scan reads (the filter twin
   [filter_of] answers false; DeletePlan returns the error, possibly after some BatchDelete calls:
   outside C11, which assumes an evaluable WHERE -- the correspondence counts those runs), storage
   faults (C13), the number reported in the result row of a DELETE (RemovePlan: listed keys,
   DeletePlan: deleted pairs; not part of the property).

   No proofs in this file (Proofs/PipelineWProofs.v). *)
From Coq Require Import List String ZArith Bool Arith.
Import ListNotations.
From KV Require Import Base.Bytes Model.Token Model.Ast Model.Value Model.Eval Model.Lexer
                       Model.ExprParser Model.StmtParser Model.Checker Model.ParseCheck Model.Fold
                       Model.FilterOpt Model.Storage Model.Write Model.ScanIO Model.ScanSem
                       Model.Delete Model.Pipeline.
Local Open Scope string_scope.
Local Open Scope list_scope.

(* ------------------------------------------------------------------ which statement a text is,
   decided on the tokens as Parser.Parse does: the type of the first token once trimEndSemis has
   dropped the trailing semicolons *)
Inductive wkind := KPut | KRemove | KDelete | KOther.

Definition head_kind (ts : list token) : wkind :=
  match trim_end_semis ts with
  | [] => KOther
  | t :: _ =>
      match tp t with
      | PUT => KPut
      | REMOVE => KRemove
      | DELETE => KDelete
      | _ => KOther
      end
  end.

Definition is_write_kind (k : wkind) : bool := match k with KPut | KRemove => true | _ => false end.
Definition is_delete_kind (k : wkind) : bool := match k with KDelete => true | _ => false end.

(* a non-Ok outcome carries no value *)
Definition tcast {A B} (r : tres A) : tres B :=
  match r with
  | TOk _ => TPanic
  | TReject p => TReject p
  | TRunErr e => TRunErr e
  | TPanic => TPanic
  | TFuel => TFuel
  | TOom => TOom
  end.

(* LIMIT values the limit twin runs with *)
Definition limit_bound : Z := 4096.

(* LimitStmt{Start, Count} as the (start, count) of LimitPlan; None = outside the model *)
Definition limit_of (l : option limit_t) : option (option (nat * nat)) :=
  match l with
  | None => Some None
  | Some x =>
      if ((0 <=? l_start x) && (l_start x <=? limit_bound) && (0 <=? l_count x) && (l_count x <=? limit_bound))%Z
      then Some (Some (Z.to_nat (l_start x), Z.to_nat (l_count x)))
      else None
  end.

Section PipelineW.
Variable fo : fops.
Variable re_match : bytes -> bytes -> Value.res bool.
Variable fmt_v : F fo -> string.            (* fmt.Sprintf("%v", float64), see Model/Fold.v *)

(* ------------------------------------------------------------------ Parser.Parse, syntax phase:
   the statement as the parser reads it (expression trees unchecked, nothing folded) *)
Definition parsed_text (want : wkind -> bool) (q : string) : tres StmtParser.stmt :=
  let ts := lex q in
  if pc_oom fo q ts then TOom
  else if negb (want (head_kind ts)) then TOom
  else
    match parse_statement ts with
    | SErr p => TReject p
    | SPanic => TPanic
    | SFuel => TFuel
    | SOk s => TOk s
    end.

(* Optimizer.init up to the point where the statement is accepted: the rest of Parser.Parse
   (Validate) and the call check.  Result: the statement as the parser read it and as the checker
   left it. *)
Definition front (want : wkind -> bool) (q : string) : tres (StmtParser.stmt * Checker.stmt) :=
  tbind (parsed_text want q) (fun s =>
    match to_check s with
    | None => TOom                           (* never for PUT / REMOVE / DELETE *)
    | Some c => tbind (of_check (build_check fo true c)) (fun c2 => TOk (s, c2))
    end).

(* ------------------------------------------------------------------ PUT / REMOVE *)

(* toString (e.Execute (KVPair{k, v}, ctx)): what processKVPair / processKey make of an
   expression.  Every evaluation error is one class for C12 (EExec). *)
Definition ev_expr (e : expr) (k v : bytes) : Storage.res bytes :=
  match eval fo re_match k v e with
  | Value.Ok x => Storage.Ok (to_string fo x)
  | Value.Err _ => Storage.Err Storage.EExec
  | Value.Panic => Storage.Err Storage.EPanic
  | Value.OutOfModel => Storage.Err Storage.EFuel     (* excluded by [plan_stat] before the plan runs *)
  end.

(* is some evaluation the plan performs -- in statement order, up to the first one that fails --
   outside the evaluator twin, or a panic of it? *)
Inductive estat := EsRuns | EsOom | EsPanic.

Fixpoint pairs_stat (prs : list (expr * expr)) : estat :=
  match prs with
  | [] => EsRuns
  | (ke, ve) :: prs' =>
      match eval fo re_match "" "" ke with
      | Value.Ok kx =>
          match eval fo re_match (to_string fo kx) "" ve with
          | Value.Ok _ => pairs_stat prs'
          | Value.Err _ => EsRuns                     (* execute returns here *)
          | Value.Panic => EsPanic
          | Value.OutOfModel => EsOom
          end
      | Value.Err _ => EsRuns
      | Value.Panic => EsPanic
      | Value.OutOfModel => EsOom
      end
  end.

Fixpoint keys_stat (ks : list expr) : estat :=
  match ks with
  | [] => EsRuns
  | ke :: ks' =>
      match eval fo re_match "" "" ke with
      | Value.Ok _ => keys_stat ks'
      | Value.Err _ => EsRuns
      | Value.Panic => EsPanic
      | Value.OutOfModel => EsOom
      end
  end.

Definition plan_stat (pl : wplan expr) : estat :=
  match pl with
  | WPut prs => pairs_stat prs
  | WRemove ks => keys_stat ks
  end.

(* buildPutPlan / buildRemovePlan: the pairs / keys of the checked statement, NOT folded *)
Definition wplan_of (c : Checker.stmt) : option (wplan expr) :=
  match c with
  | Checker.SPut prs => Some (WPut prs)
  | Checker.SRemove ks => Some (WRemove ks)
  | _ => None
  end.

(* the plan BuildPlan returns for a PUT / REMOVE text *)
Definition write_plan_text (q : string) : tres (wplan expr) :=
  tbind (front is_write_kind q) (fun sc =>
    match wplan_of (snd sc) with
    | None => TPanic                        (* the checker returns the statement kind it was given *)
    | Some pl =>
        match plan_stat pl with
        | EsRuns => TOk pl
        | EsOom => TOom
        | EsPanic => TPanic
        end
    end).

(* NewOptimizer(q).BuildPlan(store), then the polls: the poll results and the storage state.
   A text that is not accepted leaves the storage state as it is. *)
Definition write_text (q : string) (polls : list poll) (s : sstate) : tres (list pres) * sstate :=
  match write_plan_text q with
  | TOk pl => let out := wexec ev_expr pl polls s in (TOk (fst out), snd out)
  | r => (tcast r, s)
  end.

(* ------------------------------------------------------------------ DELETE *)

Record dplanned := DPlanned {
  dp_filter : expr;           (* o.filter.Ast.Expr: the folded WHERE tree *)
  dp_plan : dplan             (* what buildDeletePlan returns *)
}.

(* Optimizer.init + buildDeletePlan: filter AND plan come from the folded tree; has_and (the
   shortcut's test) looks at the folded tree as well *)
Definition delete_plan_text (q : string) : tres dplanned :=
  tbind (front is_delete_kind q) (fun sc =>
    match sc with
    | (StmtParser.StDelete _ _ _ lim, Checker.SDelete w2) =>
        match limit_of lim with
        | None => TOom
        | Some limit =>
            if fold_oom fo re_match fmt_v w2 then TOom
            else
              let wf := Fold.fold fo re_match fmt_v w2 in
              TOk (DPlanned wf (build_delete wf limit))
        end
    | _ => TPanic
    end).

Definition dplan_nkeys (dp : dplan) : nat :=
  match dp with
  | DScan c => plan_keys c
  | DRemove _ => 0
  end.

(* the fuel of the scan / delete twins (Proofs/DeleteProofs.v: |store| + keys + 2 suffices) *)
Definition delete_fuel (dp : dplan) (d : store) : nat := 2 * List.length d + dplan_nkeys dp + 8.

(* a stored pair on which the evaluator twin is outside its model for the filter *)
Definition filter_oom (wf : expr) (d : store) : bool :=
  existsb (fun kv => match filter_row fo re_match (fst kv) (snd kv) wf with
                     | Value.OutOfModel => true
                     | _ => false
                     end) d.

(* NewOptimizer(q).BuildPlan(store) at PlanBatchSize = B, polled until nil: the plan that was
   built and the storage state afterwards *)
Definition delete_text (q : string) (B : nat) (s : sstate) : tres dplan * sstate :=
  match delete_plan_text q with
  | TOk pl =>
      if filter_oom (dp_filter pl) (sdata s) then (TOom, s)
      else (TOk (dp_plan pl),
            run_delete (filter_of fo re_match (dp_filter pl)) B (delete_fuel (dp_plan pl) (sdata s)) (dp_plan pl) s)
  | r => (tcast r, s)
  end.

End PipelineW.
