(* Model/RenderText.v -- the canonical rendering of an expression (Expression.String(), twin
   [ExprParser.render]) read as a sequence of LEXEMES with their spacing, in the vocabulary of
   Spec/LexSpec.v (the subject of C16's lexemes_lex_to_their_tokens).

     render_text e        the text Expression.String() returns (= ExprParser.render e)
     ritems g e rest      the lexemes of that text, each with the blanks written before it; the
                          first lexeme gets the gap [g]; [rest] is appended (accumulator style, so
                          that no list append has to be re-associated in the proofs)
     txt_ok e             the leaves of e are texts the printer can print faithfully:
                            - a string literal does not contain the quote ' it is printed in
                              (the language has no escape syntax);
                            - a name that is printed in backticks (not [plain_name]) and every
                              alias reference does not contain a backtick;
                            - the text of a number / float literal is a word the lexer reads back
                              as a NUMBER / FLOAT token with that very text ([word_lit]; true of
                              every NUMBER / FLOAT token the lexer ever produces).

   No proofs in this file. *)
From Coq Require Import String Ascii List Bool Arith.
From KV Require Import Base.Bytes Model.Token Model.Ast Model.Lexer Model.ExprParser Spec.LexSpec.
Import ListNotations.
Local Open Scope string_scope.

Definition render_text (e : expr) : string := ExprParser.render e.

(* operator words are words for the lexer, operator symbols are symbols *)
Definition op_lexeme (o : op) : lexeme :=
  match o with
  | OIn | OBetween | OKWAnd | OKWOr => LWord (op_text o)
  | _ => LSym (op_text o)
  end.

Definition name_lexeme (s : string) : lexeme :=
  if plain_name s then LWord s else LQuote "`"%char s.

Definition ritem : Type := LexSpec.item.

Fixpoint ritems (g : string) (e : expr) (rest : list ritem) {struct e} : list ritem :=
  match e with
  | EBin _ o l r =>
      (g, LSym "(") :: ritems "" l
        match o, r with
        | OBetween, EList _ [lo; hi] =>
            (" ", LWord "BETWEEN") :: ritems " " lo
              ((" ", LWord "AND") :: ritems " " hi (("", LSym ")") :: rest))
        | _, _ => (" ", op_lexeme o) :: ritems " " r (("", LSym ")") :: rest)
        end
  | EField _ KeyKW => (g, LWord "KEY") :: rest
  | EField _ ValueKW => (g, LWord "VALUE") :: rest
  | EStr _ s => (g, LQuote "'"%char s) :: rest
  | ENot _ r => (g, LSym "!") :: ("", LSym "(") :: ritems "" r (("", LSym ")") :: rest)
  | ECall _ n args =>
      ritems g n (("", LSym "(") ::
        (fix go (g0 : string) (l : list expr) {struct l} : list ritem :=
           match l with
           | [] => ("", LSym ")") :: rest
           | a :: l' =>
               ritems g0 a (match l' with
                            | [] => ("", LSym ")") :: rest
                            | _ => ("", LSym ",") :: go " " l'
                            end)
           end) "" args)
  | EName _ s => (g, name_lexeme s) :: rest
  | ERef _ s _ => (g, LQuote "`"%char s) :: rest
  | ENum _ d => (g, LWord d) :: rest
  | EFloat _ d => (g, LWord d) :: rest
  | EBool _ true => (g, LWord "true") :: rest
  | EBool _ false => (g, LWord "false") :: rest
  | EList _ l =>
      (g, LSym "(") ::
        (fix go (g0 : string) (l : list expr) {struct l} : list ritem :=
           match l with
           | [] => ("", LSym ")") :: rest
           | a :: l' =>
               ritems g0 a (match l' with
                            | [] => ("", LSym ")") :: rest
                            | _ => ("", LSym ",") :: go " " l'
                            end)
           end) "" l
  | EAccess _ l f => ritems g l (("", LSym "[") :: ritems "" f (("", LSym "]") :: rest))
  end.

(* the argument / item loop on its own (the local fixpoints above are this function) *)
Fixpoint ritems_list (g0 : string) (l : list expr) (rest : list ritem) {struct l} : list ritem :=
  match l with
  | [] => rest
  | a :: l' =>
      ritems g0 a (match l' with
                   | [] => rest
                   | _ => ("", LSym ",") :: ritems_list " " l' rest
                   end)
  end.

(* a word that the lexer reads back as one token of kind [k] with this very text *)
Definition word_lit (k : toktype) (d : string) : bool :=
  negb (d =? "") && sforall word_char d && (to_lower d =? d) && toktype_eqb (word_kind d) k.

Definition name_ok (s : string) : bool := plain_name s || negb (occurs "`"%char s).

Fixpoint txt_ok (e : expr) : bool :=
  match e with
  | EBin _ _ l r => txt_ok l && txt_ok r
  | EStr _ s => negb (occurs "'"%char s)
  | ENot _ r => txt_ok r
  | ECall _ n args => txt_ok n && forallb txt_ok args
  | EName _ s => name_ok s
  | ERef _ s _ => negb (occurs "`"%char s)
  | ENum _ d => word_lit NUMBER d
  | EFloat _ d => word_lit FLOAT d
  | EList _ l => forallb txt_ok l
  | EAccess _ l f => txt_ok l && txt_ok f
  | EField _ _ | EBool _ _ => true
  end.

(* kinds and texts of a lexeme sequence, as tokens at offset 0 *)
Definition etoks (items : list ritem) : list token :=
  map (fun it => strip (lexeme_token (snd it) 0)) items.

(* what may stand directly after a word / a one-character operator without fusing with it *)
Definition safe_head (rest : list ritem) : bool :=
  match rest with
  | [] => true
  | (g, l) :: _ =>
      negb (g =? "") ||
      match l with
      | LSym s => negb (s =? "=")
      | LQuote _ _ => true
      | LWord _ => false
      end
  end.

Definition noword (p : option lexeme) : bool :=
  match p with Some (LWord _) => false | _ => true end.
