(* Model/ScanBatches.v -- WHAT A CALLER POLLING THE PLAN SEES, CALL BY CALL: the storage calls of
   every single Next() / Batch() call of a built SELECT plan (not only the whole log of the
   statement), and the specification of the batch boundaries of the four scan plans over the
   slots of Model/PipelineS.v.

   1. [select_polls]: BuildPlan (two Init calls) and then the caller's loop of Model/ScanIO.v
      ([drain]) with every poll of the final plan run on its own from the storage state the
      previous one left: the result is the list of storage calls of BuildPlan, and per poll the
      calls it issued and the number of rows it returned (the last poll is the one that returned
      nothing).  Nothing new is modelled: the programs are ScanIO's [select_build], [f_next],
      [f_batch]; Proofs/ScanBatchBoundaryProofs.v [select_polls_is_run_stmt] proves that the
      concatenation is ScanIO.run_stmt's log and the non-zero counts are its sizes, for EVERY
      storage state (faults included).
      [scan_polls]: the same over a kvql.Plan (the scan node itself), keeping the pairs.

   2. [batch_pass] / [polls_spec]: the batches of scan_plan.go's Batch over ANNOTATED slots
      (a slot of Model/ScanProj.v together with the storage call that reads it: Next for a pair
      the cursor yields, Get for a listed key of a MultiGetPlan, whether the key exists or not).
      [batch_pass] is ScanProj.scan_batch_loop with the calls written next to it: each pass of
      the read loop takes the next B slots, issues their calls, and when fewer than B slots are
      left the call that discovers the end ([term]: the Next that returns the pair beyond the
      region or nil; nothing for a MultiGetPlan).  No proofs here. *)
From Coq Require Import List String Bool Arith.
Import ListNotations.
From KV Require Import Base.Bytes Model.Storage Model.ScanIO Model.ScanSem Model.ScanProj Model.PipelineS.

Local Open Scope list_scope.
Local Open Scope nat_scope.

(* ------------------------------------------------------------------ 1. polls, one by one *)

Section PollLoop.
Variables (St X : Type).
Variable pollp : St -> rprog (X * St).       (* one Next() / Batch() call *)
Variable is_end : X -> bool.                 (* nil / the empty batch *)

(* the caller's loop: poll until the end answer; each poll's own log segment and answer *)
Fixpoint poll_loop (f : nat) (st : St) (s : sstate) (acc : list (list scall * X))
  : res (list (list scall * X)) * sstate :=
  match f with
  | 0 => (Err EFuel, s)
  | S f' =>
      match run exec_req (rd (pollp st)) s with
      | (Ok (x, st'), s') =>
          let seg := skipn (List.length (slog s)) (slog s') in
          if is_end x then (Ok (acc ++ [(seg, x)]), s')
          else poll_loop f' st' s' (acc ++ [(seg, x)])
      | (Err e, s') => (Err e, s')
      end
  end.
End PollLoop.
Arguments poll_loop {St X} pollp is_end f st s acc.

Section Polls.
Variable remember_end : bool.
Variable flt : kvp -> bool.
Variable gkey : kvp -> bytes.
Variable B : nat.
Variable fuel : nat.

(* one poll of a final plan: how many rows came back *)
Definition f_poll (m : mode) (fp : fplan) (st : fstate) : rprog (nat * fstate) :=
  match m with
  | RowMode =>
      bind (f_next remember_end flt gkey fuel fp st)
           (fun x => Ret (match fst x with None => 0 | Some _ => 1 end, snd x))
  | BatchMode =>
      bind (f_batch remember_end flt gkey B fuel fp st)
           (fun x => Ret (List.length (fst x), snd x))
  end.

(* BuildPlan, then the polls: (calls of BuildPlan, [(calls of poll i, rows of poll i)]) *)
Definition select_polls (m : mode) (fp : fplan) (s : sstate)
  : res (list scall * list (list scall * nat)) * sstate :=
  match run exec_req (rd (select_build fp)) s with
  | (Ok st, s') =>
      let seg := skipn (List.length (slog s)) (slog s') in
      match poll_loop (f_poll m fp) (Nat.eqb 0) fuel st s' [] with
      | (Ok ps, s'') => (Ok (seg, ps), s'')
      | (Err e, s'') => (Err e, s'')
      end
  | (Err e, s') => (Err e, s')
  end.

(* the same over the scan node (a kvql.Plan) in batch mode, keeping the pairs *)
Definition is_nil (A : Type) (l : list A) : bool := match l with [] => true | _ => false end.

Definition scan_polls (p : plan) (s : sstate)
  : res (list scall * list (list scall * list kvp)) * sstate :=
  match run exec_req (rd (plan_build p)) s with
  | (Ok st, s') =>
      let seg := skipn (List.length (slog s)) (slog s') in
      match poll_loop (plan_batch remember_end flt B fuel p) (@is_nil kvp) fuel st s' [] with
      | (Ok ps, s'') => (Ok (seg, ps), s'')
      | (Err e, s'') => (Err e, s'')
      end
  | (Err e, s') => (Err e, s')
  end.

End Polls.

(* ------------------------------------------------------------------ 2. the batches over annotated slots *)

Definition aslot := (scall * option kvp)%type.

(* where the cursor of a cursor scan stands after Init *)
Definition scan_start (sc : scan) (d : store) : store :=
  match sc with
  | SFull => seek_from EmptyString d
  | SPrefix p => seek_from p d
  | SRange (Some k) _ => seek_from k d
  | SRange None _ => d
  | _ => []
  end.

(* the slots of Model/PipelineS.v [scan_slots], each with the storage call that reads it *)
Definition ascan_slots (sc : scan) (d : store) : list aslot :=
  match sc with
  | SEmpty => []
  | SMget ks => map (fun k => (CGet k, match sget k d with Some v => Some (k, v) | None => None end)) ks
  | _ => map (fun kv : kvp => (CNext (Some (fst kv)), Some kv)) (take_until (scan_stop sc) (scan_start sc d))
  end.

(* the Next call that discovers the end of a cursor scan standing at [rest]: positioned at the
   first pair beyond the region, or at the end of the data *)
Fixpoint cursor_term (stop : kvp -> bool) (rest : store) : scall :=
  match rest with
  | [] => CNext None
  | kv :: rest' => if stop kv then CNext (Some (fst kv)) else cursor_term stop rest'
  end.

Definition scan_term (sc : scan) (d : store) : list scall :=
  match sc with
  | SEmpty | SMget _ => []
  | _ => [cursor_term (scan_stop sc) (scan_start sc d)]
  end.

(* does a scan that has seen its end stay silent when polled again (the `done` flag of the
   prefix and range scans; a full scan asks its cursor again, a multi-get has no key left) *)
Definition scan_silent (sc : scan) : bool :=
  match sc with SPrefix _ | SRange _ _ => true | _ => false end.

Section Spec.
Variable flt : kvp -> bool.
Variable B : nat.

(* one Batch() call: `for !finish { read up to B slots; filter; append; finish when the end was
   seen inside the read loop or count >= B }`.  Result: rows, calls, slots left, end seen. *)
Fixpoint batch_pass (f : nat) (term : list scall) (rest : list aslot) (ret : list kvp)
  : list kvp * list scall * list aslot * bool :=
  match f with
  | 0 => (ret, [], rest, false)
  | S f' =>
      let fr := firstn B rest in
      let eof := List.length rest <? B in
      let calls := map fst fr ++ (if eof then term else []) in
      let chunk := somes (map snd fr) in
      let ret' := ret ++ filter flt chunk in
      let fin := match chunk with
                 | [] => eof
                 | _ => eof || (B <=? List.length ret')
                 end in
      if fin then (ret', calls, skipn B rest, eof)
      else
        match batch_pass f' term (skipn B rest) ret' with
        | (rows, log, rest', e) => (rows, calls ++ log, rest', e)
        end
  end.

(* Batch() until the empty batch: per call, its storage calls and its rows *)
Fixpoint polls_spec (f : nat) (silent : bool) (term : list scall) (rest : list aslot) (ended : bool)
  : list (list scall * list kvp) :=
  match f with
  | 0 => []
  | S f' =>
      if silent && ended then [([], [])]
      else
        match batch_pass (S (List.length rest)) term rest [] with
        | (rows, log, rest', e) =>
            match rows with
            | [] => [(log, [])]
            | _ => (log, rows) :: polls_spec f' silent term rest' e
            end
        end
  end.

Definition scan_polls_spec (sc : scan) (d : store) : list (list scall * list kvp) :=
  match sc with
  | SEmpty => [([], [])]
  | _ => polls_spec (S (S (List.length (ascan_slots sc d)))) (scan_silent sc) (scan_term sc d)
                    (ascan_slots sc d) false
  end.

End Spec.

(* the calls of BuildPlan over a scan node: Init twice *)
Definition scan_init_calls (sc : scan) : list scall :=
  match sc with
  | SEmpty | SMget _ => []
  | SFull => [CCursor; CSeek EmptyString]
  | SPrefix p => [CCursor; CSeek p]
  | SRange (Some k) _ => [CCursor; CSeek k]
  | SRange None _ => [CCursor]
  end.
