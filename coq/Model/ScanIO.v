(* Model/ScanIO.v -- the storage traffic of the read side and of DELETE: executable twins of
     scan_plan.go   FullScanPlan / PrefixScanPlan / RangeScanPlan / MultiGetPlan  Init Next Batch
     plan.go        EmptyResultPlan
     limit_plan.go  LimitPlan / FinalLimitPlan Init Next Batch (one polymorphic twin, as in Go
                    the two are the same code up to the row type; AggregatePlan's pushed-down
                    skip/limit is the same code once more)
     projection_plan.go / order_plan.go / aggregate_plan.go: Init and the drain loops
                    (prepare / prepareBatch), i.e. everything that decides WHICH storage calls
                    are made and how many rows come back; row CONTENTS above the scan level are
                    not modelled (rows of a FinalPlan are counted, not identified)
     delete_plan.go DeletePlan Init Next Batch execute
     optimizer.go   BuildPlan / buildSelectPlan / buildDeletePlan: which Init calls are made
   and of the caller's drain loop (Next until nil / Batch until empty, stop at the first error).

   Twins are PROGRAMS over storage instructions ([prog]): a twin cannot look at the storage
   state, it can only issue an instruction and continue with the answer; an error answer ends
   the program ([run]) exactly where Go has `if err != nil { return ..., err }`.  There is no
   construct for swallowing a storage error.  The read side is written over the read
   instructions only ([rreq]: Get Cursor Seek Next), so that it cannot issue a write.
   [run] executes a program through Model/Storage's typed operations, i.e. through [call].

   The WHERE filter is an oracle [flt : kvp -> bool] (its evaluation is C01/C02's business and
   is assumed not to fail here), the GROUP BY key an oracle [gkey : kvp -> bytes].
   No proofs here (Proofs/ScanIOProofs.v). *)
From Coq Require Import List String Bool Arith.
Import ListNotations.
From KV Require Import Base.Bytes Model.Storage.

Set Implicit Arguments.
Local Open Scope list_scope.
Local Open Scope nat_scope.

(* ------------------------------------------------------------------ instructions, programs *)

Inductive rreq : Type -> Type :=
  | QGet (k : bytes) : rreq (option bytes)
  | QCursor : rreq cursor
  | QSeek (c : cursor) (k : bytes) : rreq cursor
  | QNext (c : cursor) : rreq (option kvp * cursor).

Inductive req : Type -> Type :=
  | QRead (R : Type) (q : rreq R) : req R
  | QBatchDelete (ks : list bytes) : req unit.

Inductive prog (I : Type -> Type) (A : Type) : Type :=
  | Ret (a : A)
  | Fail (e : err)                                   (* a non-storage error ends the program *)
  | Op (R : Type) (q : I R) (k : R -> prog I A).     (* issue q, continue with its answer *)
Arguments Ret {I A} a.
Arguments Fail {I A} e.
Arguments Op {I A R} q k.

Fixpoint bind {I : Type -> Type} {A B : Type} (p : prog I A) (f : A -> prog I B) : prog I B :=
  match p with
  | Ret a => f a
  | Fail e => Fail e
  | Op q k => Op q (fun r => bind (k r) f)
  end.

Local Notation "x <- m ;; k" := (bind m (fun x => k)) (at level 61, m at next level, right associativity).
Local Notation "' pat <- m ;; k" := (bind m (fun x => match x with pat => k end))
  (at level 61, pat pattern, m at next level, right associativity).

Fixpoint lift {I J : Type -> Type} (inj : forall R, I R -> J R) {A : Type} (p : prog I A) : prog J A :=
  match p with
  | Ret a => Ret a
  | Fail e => Fail e
  | Op q k => Op (inj _ q) (fun r => lift inj (k r))
  end.

(* executing instructions: through Model/Storage's operations (every one of them = [call]) *)
Definition exec_rreq (R : Type) (q : rreq R) (s : sstate) : res R * sstate :=
  match q in rreq R return res R * sstate with
  | QGet k => st_get k s
  | QCursor => st_cursor s
  | QSeek c k => cur_seek k c s
  | QNext c => cur_next c s
  end.

Definition exec_req (R : Type) (q : req R) (s : sstate) : res R * sstate :=
  match q in req R return res R * sstate with
  | QRead q' => exec_rreq q' s
  | QBatchDelete ks => st_batch_delete ks s
  end.

Fixpoint run {I : Type -> Type} (exec : forall R, I R -> sstate -> res R * sstate)
             {A : Type} (p : prog I A) (s : sstate) : res A * sstate :=
  match p with
  | Ret a => (Ok a, s)
  | Fail e => (Err e, s)
  | Op q k =>
      match exec _ q s with
      | (Ok r, s') => run exec (k r) s'
      | (Err e, s') => (Err e, s')              (* if err != nil { return ..., err } *)
      end
  end.

Definition rprog := prog rreq.
Definition wprog := prog req.

Definition op_get (k : bytes) : rprog (option bytes) := Op (QGet k) (fun r => Ret r).
Definition op_cursor : rprog cursor := Op QCursor (fun r => Ret r).
Definition op_seek (c : cursor) (k : bytes) : rprog cursor := Op (QSeek c k) (fun r => Ret r).
Definition op_next (c : cursor) : rprog (option kvp * cursor) := Op (QNext c) (fun r => Ret r).
Definition op_batch_delete (ks : list bytes) : wprog unit := Op (QBatchDelete ks) (fun r => Ret r).
Definition rd {A} (p : rprog A) : wprog A := lift QRead p.

(* ------------------------------------------------------------------ plan trees and their state *)

Inductive scan :=
  | SEmpty                                   (* EmptyResultPlan *)
  | SFull                                    (* FullScanPlan *)
  | SPrefix (p : bytes)                      (* PrefixScanPlan *)
  | SRange (lo hi : option bytes)            (* RangeScanPlan: nil bounds are None *)
  | SMget (keys : list bytes).               (* MultiGetPlan (keys as sorted by NewMultiGetPlan) *)

Inductive plan :=                            (* kvql.Plan *)
  | PScan (sc : scan)
  | PLimit (start count : nat) (child : plan).

Inductive pstate :=
  | PSScan (iter : option cursor) (idx : nat) (ended : bool)
  | PSLimit (skips current : nat) (child : pstate).

Fixpoint pstate0 (p : plan) : pstate :=
  match p with
  | PScan _ => PSScan None 0 false
  | PLimit _ _ c => PSLimit 0 0 (pstate0 c)
  end.

Inductive fplan :=                           (* kvql.FinalPlan, read side *)
  | FProj (child : plan)
  | FAggr (child : plan) (all : bool) (start : nat) (limit : option nat)   (* Limit = -1 is None *)
  | FOrder (child : fplan)
  | FLimit (start count : nat) (child : fplan).

Inductive fstate :=
  | FSProj (child : pstate)
  | FSAggr (child : pstate) (prepared : bool) (groups : list bytes) (pos skips current : nat)
  | FSOrder (child : fstate) (total pos : nat)
  | FSLimit (skips current : nat) (child : fstate).

Fixpoint fstate0 (f : fplan) : fstate :=
  match f with
  | FProj c => FSProj (pstate0 c)
  | FAggr c _ _ _ => FSAggr (pstate0 c) false [] 0 0 0
  | FOrder c => FSOrder (fstate0 c) 0 0
  | FLimit _ _ c => FSLimit 0 0 (fstate0 c)
  end.

Inductive mode := RowMode | BatchMode.

Section ScanIO.
Variable remember_end : bool.        (* false: the code as it is (a prefix / range scan that hit its end
                                        reads the cursor again when polled again, DESIGN §3 D23);
                                        true: the variant with a `done` flag reset by Init *)
Variable flt : kvp -> bool.          (* FilterExec.Filter / FilterBatch, per pair *)
Variable gkey : kvp -> bytes.        (* getAggrKey / batchGetAggrKeys of a grouped aggregate *)
Variable B : nat.                    (* PlanBatchSize *)
Variable fuel : nat.                 (* bound for every Go `for` loop that is not structural *)

(* ------------------------------------------------------------------ scans *)

(* the loop-exit test of the three cursor scans *)
Definition scan_stop (sc : scan) (kv : kvp) : bool :=
  match sc with
  | SPrefix p => negb (has_prefix p (fst kv))                       (* !bytes.HasPrefix(key, pb) *)
  | SRange _ (Some e) => match bcompare (fst kv) e with Gt => true | _ => false end
  | _ => false
  end.

Definition scan_remembers (sc : scan) : bool :=
  match sc with
  | SPrefix _ | SRange _ _ => remember_end
  | _ => false
  end.

Definition scan_init (sc : scan) (st : pstate) : rprog pstate :=
  match st with
  | PSScan it idx _ =>
      match sc with
      | SEmpty => Ret st
      | SMget _ => Ret st                                             (* Init() returns nil; idx is not reset *)
      | SFull => c <- op_cursor ;; c' <- op_seek c EmptyString ;; Ret (PSScan (Some c') idx false)
      | SPrefix p => c <- op_cursor ;; c' <- op_seek c p ;; Ret (PSScan (Some c') idx false)
      | SRange lo _ =>
          c <- op_cursor ;;
          match lo with
          | Some k => c' <- op_seek c k ;; Ret (PSScan (Some c') idx false)
          | None => Ret (PSScan (Some c) idx false)
          end
      end
  | _ => Fail EPanic
  end.

(* Next of Full/Prefix/Range: for { key,val := iter.Next(); nil -> break; beyond -> break;
   ok := Filter; if ok return }.  Structural in what the cursor has left. *)
Fixpoint cursor_next_loop (sc : scan) (snap rest : store) : rprog (option kvp * cursor) :=
  match rest with
  | [] => r <- op_next (Cur snap []) ;; Ret (None, snd r)
  | kv :: rest' =>
      r <- op_next (Cur snap rest) ;;
      if scan_stop sc kv then Ret (None, snd r)
      else if flt kv then Ret (Some kv, snd r)
      else cursor_next_loop sc snap rest'
  end.

(* Next of MultiGet: for idx < numKeys { key := Keys[idx]; idx++; val := Get(key); nil -> continue; Filter } *)
Fixpoint mget_next_loop (keys : list bytes) (idx : nat) : rprog (option kvp * nat) :=
  match keys with
  | [] => Ret (None, idx)
  | k :: keys' =>
      v <- op_get k ;;
      match v with
      | None => mget_next_loop keys' (S idx)
      | Some v => if flt (k, v) then Ret (Some (k, v), S idx) else mget_next_loop keys' (S idx)
      end
  end.

Definition scan_next (sc : scan) (st : pstate) : rprog (option kvp * pstate) :=
  match st with
  | PSScan it idx ended =>
      match sc with
      | SEmpty => Ret (None, st)
      | SMget keys =>
          '(r, idx') <- mget_next_loop (skipn idx keys) idx ;; Ret (r, PSScan it idx' ended)
      | _ =>
          if scan_remembers sc && ended then Ret (None, st)
          else
          match it with
          | None => Fail EPanic
          | Some c =>
              '(r, c') <- cursor_next_loop sc (csnap c) (crest c) ;;
              Ret (r, PSScan (Some c') idx (match r with None => true | Some _ => false end))
          end
      end
  | _ => Fail EPanic
  end.

(* inner loop of Batch: for i := 0; i < PlanBatchSize; i++ { Next; nil/beyond -> finish, break; append } *)
Fixpoint cursor_read_chunk (sc : scan) (n : nat) (snap rest : store) (acc : list kvp)
  : rprog (list kvp * cursor * bool) :=
  match n with
  | 0 => Ret (acc, Cur snap rest, false)
  | S n' =>
      match rest with
      | [] => r <- op_next (Cur snap []) ;; Ret (acc, snd r, true)
      | kv :: rest' =>
          r <- op_next (Cur snap rest) ;;
          if scan_stop sc kv then Ret (acc, snd r, true)
          else cursor_read_chunk sc n' snap rest' (acc ++ [kv])
      end
  end.

(* outer loop: for !finish { chunk; if len > 0 { FilterBatch; ret += matches; if count >= B finish } } *)
Fixpoint cursor_batch_loop (f : nat) (sc : scan) (c : cursor) (ret : list kvp)
  : rprog (list kvp * cursor * bool) :=
  match f with
  | 0 => Fail EFuel
  | S f' =>
      '(chunk, c', fin) <- cursor_read_chunk sc B (csnap c) (crest c) [] ;;
      let ret' := ret ++ filter flt chunk in
      let fin' := match chunk with
                  | [] => fin
                  | _ => fin || (B <=? List.length ret')
                  end in
      if fin' then Ret (ret', c', fin) else cursor_batch_loop f' sc c' ret'
  end.

(* MultiGet.Batch inner loop: a missing key still uses up one of the B iterations *)
Fixpoint mget_read_chunk (n : nat) (keys : list bytes) (idx : nat) (acc : list kvp)
  : rprog (list kvp * list bytes * nat * bool) :=
  match n with
  | 0 => Ret (acc, keys, idx, false)
  | S n' =>
      match keys with
      | [] => Ret (acc, keys, idx, true)                       (* idx >= numKeys: finish *)
      | k :: keys' =>
          v <- op_get k ;;
          match v with
          | None => mget_read_chunk n' keys' (S idx) acc
          | Some v => mget_read_chunk n' keys' (S idx) (acc ++ [(k, v)])
          end
      end
  end.

Fixpoint mget_batch_loop (f : nat) (keys : list bytes) (idx : nat) (ret : list kvp)
  : rprog (list kvp * nat) :=
  match f with
  | 0 => Fail EFuel
  | S f' =>
      '(chunk, keys', idx', fin) <- mget_read_chunk B keys idx [] ;;
      let ret' := ret ++ filter flt chunk in
      if fin || (B <=? List.length ret') then Ret (ret', idx')     (* the count test is outside the len > 0 test here *)
      else mget_batch_loop f' keys' idx' ret'
  end.

Definition scan_batch (sc : scan) (st : pstate) : rprog (list kvp * pstate) :=
  match st with
  | PSScan it idx ended =>
      match sc with
      | SEmpty => Ret ([], st)
      | SMget keys =>
          '(rows, idx') <- mget_batch_loop fuel (skipn idx keys) idx [] ;; Ret (rows, PSScan it idx' ended)
      | _ =>
          if scan_remembers sc && ended then Ret ([], st)
          else
          match it with
          | None => Fail EPanic
          | Some c => '(rows, c', fin) <- cursor_batch_loop fuel sc c [] ;; Ret (rows, PSScan (Some c') idx fin)
          end
      end
  | _ => Fail EPanic
  end.

(* ------------------------------------------------------------------ the limit code, once *)

Section LimitGen.
Variables (I : Type -> Type) (X St : Type).
Variable child_next : St -> prog I (option X * St).
Variable child_batch : St -> prog I (list X * St).

(* for p.skips < p.Start { row := child.Next; nil -> return nil; p.skips++ } *)
Fixpoint limit_skip_rows (f : nat) (start skips : nat) (cs : St) : prog I (bool * nat * St) :=
  if skips <? start then
    match f with
    | 0 => Fail EFuel
    | S f' =>
        '(r, cs') <- child_next cs ;;
        match r with
        | None => Ret (false, skips, cs')
        | Some _ => limit_skip_rows f' start (S skips) cs'
        end
    end
  else Ret (true, skips, cs).

Definition limit_next (start count skips current : nat) (cs : St)
  : prog I (option X * (nat * nat * St)) :=
  '(ok, skips', cs') <- limit_skip_rows fuel start skips cs ;;
  if negb ok then Ret (None, (skips', current, cs'))
  else if count <=? current then Ret (None, (skips', current, cs'))
  else
    '(r, cs'') <- child_next cs' ;;
    match r with
    | None => Ret (None, (skips', current, cs''))
    | Some x => Ret (Some x, (skips', S current, cs''))
    end.

(* for p.skips < p.Start { rows := child.Batch; 0 -> return nil; n <= rest -> skips += n, rows = nil;
   else skips += rest, rows = rows[rest:], break }.  None = "return nil, nil". *)
Fixpoint limit_skip_batches (f : nat) (start skips : nat) (cs : St)
  : prog I (option (list X) * nat * St) :=
  if skips <? start then
    match f with
    | 0 => Fail EFuel
    | S f' =>
        '(rows, cs') <- child_batch cs ;;
        let rest := start - skips in
        let n := List.length rows in
        if n =? 0 then Ret (None, skips, cs')
        else if n <=? rest then limit_skip_batches f' start (skips + n) cs'
        else Ret (Some (skipn rest rows), skips + rest, cs')
    end
  else Ret (Some [], skips, cs).

(* for !finish { rows := child.Batch; 0 -> break; for row { append; count++; current++; if current >= Count {finish; break} };
   if count >= B break } *)
Fixpoint limit_fill (f : nat) (count current : nat) (ret : list X) (cs : St)
  : prog I (list X * nat * St) :=
  match f with
  | 0 => Fail EFuel
  | S f' =>
      '(rows, cs') <- child_batch cs ;;
      match rows with
      | [] => Ret (ret, current, cs')
      | _ =>
          let take := firstn (Nat.max 1 (count - current)) rows in
          let ret' := ret ++ take in
          let current' := current + List.length take in
          if count <=? current' then Ret (ret', current', cs')
          else if B <=? List.length ret' then Ret (ret', current', cs')
          else limit_fill f' count current' ret' cs'
      end
  end.

Definition limit_batch (start count skips current : nat) (cs : St)
  : prog I (list X * (nat * nat * St)) :=
  '(orows, skips', cs') <- limit_skip_batches fuel start skips cs ;;
  match orows with
  | None => Ret ([], (skips', current, cs'))
  | Some rows =>
      let take := firstn (count - current) rows in      (* if current >= Count break, per row *)
      let current' := current + List.length take in
      if count <=? current' then Ret (take, (skips', current', cs'))
      else
        '(ret, current'', cs'') <- limit_fill fuel count current' take cs' ;;
        Ret (ret, (skips', current'', cs''))
  end.

End LimitGen.

(* ------------------------------------------------------------------ kvql.Plan: Init / Next / Batch *)

Fixpoint plan_init (p : plan) (st : pstate) : rprog pstate :=
  match p with
  | PScan sc => scan_init sc st
  | PLimit _ _ c =>
      match st with
      | PSLimit _ _ cst => cst' <- plan_init c cst ;; Ret (PSLimit 0 0 cst')
      | _ => Fail EPanic
      end
  end.

Fixpoint plan_next (p : plan) : pstate -> rprog (option kvp * pstate) :=
  match p with
  | PScan sc => scan_next sc
  | PLimit start count c => fun st =>
      match st with
      | PSLimit sk cur cst =>
          '(r, (sk', cur', cst')) <- limit_next (plan_next c) start count sk cur cst ;;
          Ret (r, PSLimit sk' cur' cst')
      | _ => Fail EPanic
      end
  end.

Fixpoint plan_batch (p : plan) : pstate -> rprog (list kvp * pstate) :=
  match p with
  | PScan sc => scan_batch sc
  | PLimit start count c => fun st =>
      match st with
      | PSLimit sk cur cst =>
          '(rows, (sk', cur', cst')) <- limit_batch (plan_batch c) start count sk cur cst ;;
          Ret (rows, PSLimit sk' cur' cst')
      | _ => Fail EPanic
      end
  end.

(* ------------------------------------------------------------------ kvql.FinalPlan (read side) *)

Definition frow := unit.                     (* rows of a FinalPlan are counted, not identified *)
Definition frows (n : nat) : list frow := repeat tt n.

(* aggregate groups: aggrMap / aggrRows, first-occurrence order *)
Definition add_group (all : bool) (groups : list bytes) (kv : kvp) : list bytes :=
  let g := if all then "*"%string else gkey kv in
  if existsb (String.eqb g) groups then groups else groups ++ [g].

(* prepare: for { k,v := child.Next(nil); nil -> break; row for its group } *)
Fixpoint aggr_prepare (f : nat) (c : plan) (all : bool) (cst : pstate) (groups : list bytes)
  : rprog (pstate * list bytes) :=
  match f with
  | 0 => Fail EFuel
  | S f' =>
      '(r, cst') <- plan_next c cst ;;
      match r with
      | None => Ret (cst', groups)
      | Some kv => aggr_prepare f' c all cst' (add_group all groups kv)
      end
  end.

(* prepareBatch: for { kvps := child.Batch; empty -> break; rows for their groups } *)
Fixpoint aggr_prepare_batch (f : nat) (c : plan) (all : bool) (cst : pstate) (groups : list bytes)
  : rprog (pstate * list bytes) :=
  match f with
  | 0 => Fail EFuel
  | S f' =>
      '(rows, cst') <- plan_batch c cst ;;
      match rows with
      | [] => Ret (cst', groups)
      | _ => aggr_prepare_batch f' c all cst' (fold_left (add_group all) rows groups)
      end
  end.

(* a.next / a.batch: serve the prepared group rows from a.pos (no storage traffic) *)
Definition aggr_mem_next (ngroups : nat) (pos : nat) : rprog (option frow * nat) :=
  if ngroups <=? pos then Ret (None, pos) else Ret (Some tt, S pos).
Definition aggr_mem_batch (ngroups : nat) (pos : nat) : rprog (list frow * nat) :=
  if ngroups <=? pos then Ret ([], pos)
  else let n := Nat.min B (ngroups - pos) in Ret (frows n, pos + n).

(* prepare of FinalOrderPlan: drain the child, count the rows pushed on the heap *)
Section OrderDrain.
Variable St : Type.
Variable child_next : St -> rprog (option frow * St).
Variable child_batch : St -> rprog (list frow * St).

Fixpoint order_prepare (f : nat) (cs : St) (total : nat) : rprog (St * nat) :=
  match f with
  | 0 => Fail EFuel
  | S f' =>
      '(r, cs') <- child_next cs ;;
      match r with
      | None => Ret (cs', total)
      | Some _ => order_prepare f' cs' (S total)
      end
  end.

Fixpoint order_prepare_batch (f : nat) (cs : St) (total : nat) : rprog (St * nat) :=
  match f with
  | 0 => Fail EFuel
  | S f' =>
      '(rows, cs') <- child_batch cs ;;
      match rows with
      | [] => Ret (cs', total)
      | _ => order_prepare_batch f' cs' (total + List.length rows)
      end
  end.
End OrderDrain.

Fixpoint f_init (f : fplan) (st : fstate) : rprog fstate :=
  match f, st with
  | FProj c, FSProj cst => cst' <- plan_init c cst ;; Ret (FSProj cst')
  | FAggr c _ _ _, FSAggr cst prepared _ _ _ _ =>
      (* aggrMap / aggrRows re-made, pos skips current = 0, prepared untouched, then child.Init *)
      cst' <- plan_init c cst ;; Ret (FSAggr cst' prepared [] 0 0 0)
  | FOrder c, FSOrder cst _ _ => cst' <- f_init c cst ;; Ret (FSOrder cst' 0 0)
  | FLimit _ _ c, FSLimit _ _ cst => cst' <- f_init c cst ;; Ret (FSLimit 0 0 cst')
  | _, _ => Fail EPanic
  end.

Fixpoint f_next (f : fplan) : fstate -> rprog (option frow * fstate) :=
  match f with
  | FProj c => fun st =>
      match st with
      | FSProj cst =>
          '(r, cst') <- plan_next c cst ;;
          Ret (match r with None => None | Some _ => Some tt end, FSProj cst')
      | _ => Fail EPanic
      end
  | FAggr c all start limit => fun st =>
      match st with
      | FSAggr cst prepared groups pos sk cur =>
          '(cst1, groups1) <- (if prepared then Ret (cst, groups)
                               else aggr_prepare fuel c all cst groups) ;;
          let ng := List.length groups1 in
          match limit with
          | None =>
              '(r, pos') <- aggr_mem_next ng pos ;; Ret (r, FSAggr cst1 true groups1 pos' sk cur)
          | Some count =>
              '(r, (sk', cur', pos')) <- limit_next (aggr_mem_next ng) start count sk cur pos ;;
              Ret (r, FSAggr cst1 true groups1 pos' sk' cur')
          end
      | _ => Fail EPanic
      end
  | FOrder c => fun st =>
      match st with
      | FSOrder cst total pos =>
          '(cst1, total1) <- (if total =? 0 then order_prepare (f_next c) fuel cst total
                              else Ret (cst, total)) ;;
          if pos <? total1 then Ret (Some tt, FSOrder cst1 total1 (S pos))
          else Ret (None, FSOrder cst1 total1 pos)
      | _ => Fail EPanic
      end
  | FLimit start count c => fun st =>
      match st with
      | FSLimit sk cur cst =>
          '(r, (sk', cur', cst')) <- limit_next (f_next c) start count sk cur cst ;;
          Ret (r, FSLimit sk' cur' cst')
      | _ => Fail EPanic
      end
  end.

Fixpoint f_batch (f : fplan) : fstate -> rprog (list frow * fstate) :=
  match f with
  | FProj c => fun st =>
      match st with
      | FSProj cst =>
          '(rows, cst') <- plan_batch c cst ;; Ret (frows (List.length rows), FSProj cst')
      | _ => Fail EPanic
      end
  | FAggr c all start limit => fun st =>
      match st with
      | FSAggr cst prepared groups pos sk cur =>
          '(cst1, groups1) <- (if prepared then Ret (cst, groups)
                               else aggr_prepare_batch fuel c all cst groups) ;;
          let ng := List.length groups1 in
          match limit with
          | None =>
              '(rows, pos') <- aggr_mem_batch ng pos ;; Ret (rows, FSAggr cst1 true groups1 pos' sk cur)
          | Some count =>
              '(rows, (sk', cur', pos')) <- limit_batch (aggr_mem_batch ng) start count sk cur pos ;;
              Ret (rows, FSAggr cst1 true groups1 pos' sk' cur')
          end
      | _ => Fail EPanic
      end
  | FOrder c => fun st =>
      match st with
      | FSOrder cst total pos =>
          '(cst1, total1) <- (if total =? 0 then order_prepare_batch (f_batch c) fuel cst total
                              else Ret (cst, total)) ;;
          (* for pos < total { pop; pos++; count++; if count >= B break } *)
          let n := Nat.min (Nat.max B 1) (total1 - pos) in
          Ret (frows n, FSOrder cst1 total1 (pos + n))
      | _ => Fail EPanic
      end
  | FLimit start count c => fun st =>
      match st with
      | FSLimit sk cur cst =>
          '(rows, (sk', cur', cst')) <- limit_batch (f_batch c) start count sk cur cst ;;
          Ret (rows, FSLimit sk' cur' cst')
      | _ => Fail EPanic
      end
  end.

(* ------------------------------------------------------------------ the caller's drain loop *)

(* row mode: Next until nil; batch mode: Batch until empty; the sizes of what came back *)
Fixpoint drain (f : nat) (m : mode) (fp : fplan) (st : fstate) (sizes : list nat) : rprog (list nat) :=
  match f with
  | 0 => Fail EFuel
  | S f' =>
      match m with
      | RowMode =>
          '(r, st') <- f_next fp st ;;
          match r with
          | None => Ret sizes
          | Some _ => drain f' m fp st' (sizes ++ [1])
          end
      | BatchMode =>
          '(rows, st') <- f_batch fp st ;;
          match rows with
          | [] => Ret sizes
          | _ => drain f' m fp st' (sizes ++ [List.length rows])
          end
      end
  end.

(* BuildPlan of a SELECT: buildSelectPlan Init()s the final plan, BuildPlan Init()s it again *)
Definition select_build (fp : fplan) : rprog fstate :=
  st1 <- f_init fp (fstate0 fp) ;; f_init fp st1.

Definition select_prog (m : mode) (fp : fplan) : rprog (list nat) :=
  st <- select_build fp ;; drain fuel m fp st [].

(* ------------------------------------------------------------------ DeletePlan *)

(* execute: for { rows := child.Batch; err -> return; 0 -> return count; BatchDelete(keys); count += n } *)
Fixpoint delete_execute (f : nat) (c : plan) (cst : pstate) (count : nat) : wprog (nat * pstate) :=
  match f with
  | 0 => Fail EFuel
  | S f' =>
      '(rows, cst') <- rd (plan_batch c cst) ;;
      match rows with
      | [] => Ret (count, cst')
      | _ =>
          _ <- op_batch_delete (map fst rows) ;;
          delete_execute f' c cst' (count + List.length rows)
      end
  end.

(* Next and Batch: if !executed { n := execute; executed = true; return [n] }; return nil *)
Definition delete_poll (c : plan) (executed : bool) (cst : pstate) : wprog (option nat * (bool * pstate)) :=
  if negb executed then
    '(n, cst') <- delete_execute fuel c cst 0 ;; Ret (Some n, (true, cst'))
  else Ret (None, (executed, cst)).

Definition delete_init (c : plan) (cst : pstate) : wprog (bool * pstate) :=
  cst' <- rd (plan_init c cst) ;; Ret (false, cst').

Fixpoint delete_drain (f : nat) (c : plan) (executed : bool) (cst : pstate) (sizes : list nat)
  : wprog (list nat) :=
  match f with
  | 0 => Fail EFuel
  | S f' =>
      '(r, (ex', cst')) <- delete_poll c executed cst ;;
      match r with
      | None => Ret sizes
      | Some _ => delete_drain f' c ex' cst' (sizes ++ [1])
      end
  end.

(* buildDeletePlan Init()s the DeletePlan, BuildPlan Init()s it again; then the caller drains
   (one row [n], then nil; Next and Batch are the same code) *)
Definition delete_prog (c : plan) : wprog (list nat) :=
  '(_, cst1) <- delete_init c (pstate0 c) ;;
  '(ex, cst2) <- delete_init c cst1 ;;
  delete_drain fuel c ex cst2 [].

(* ------------------------------------------------------------------ statements *)

Inductive stmt :=
  | StRejected                       (* parse / check / plan-time error: returned before any Init *)
  | StSelect (fp : fplan)
  | StDelete (c : plan).             (* DELETE not turned into a RemovePlan (that one is Model/Write) *)

Definition stmt_prog (m : mode) (s : stmt) : wprog (list nat) :=
  match s with
  | StRejected => Fail ESyntax
  | StSelect fp => rd (select_prog m fp)
  | StDelete c => delete_prog c
  end.

End ScanIO.

(* the fuel the correspondence runs the twins with (Proofs/ScanIOFuel.v: it suffices) *)
Fixpoint plan_keys (p : plan) : nat :=
  match p with
  | PScan (SMget ks) => List.length ks
  | PScan _ => 0
  | PLimit _ _ c => plan_keys c
  end.
Fixpoint fplan_keys (f : fplan) : nat :=
  match f with
  | FProj c => plan_keys c
  | FAggr c _ _ _ => plan_keys c
  | FOrder c => fplan_keys c
  | FLimit _ _ c => fplan_keys c
  end.
Definition stmt_fuel (s : stmt) (d : store) : nat :=
  2 * List.length d
  + match s with StRejected => 0 | StSelect fp => fplan_keys fp | StDelete c => plan_keys c end
  + 8.

(* run a statement from a storage state *)
Definition run_stmt (remember_end : bool) (flt : kvp -> bool) (gkey : kvp -> bytes) (B fuel : nat)
                    (m : mode) (s : stmt) (st : sstate) : res (list nat) * sstate :=
  run exec_req (stmt_prog remember_end flt gkey B fuel m s) st.
