(* Model/ScanProj.v -- executable twin of the refill / early-stop logic of the scan plans
   (scan_plan.go: FullScanPlan, PrefixScanPlan, RangeScanPlan, MultiGetPlan .Next / .Batch) and
   of ProjectionPlan.Next / .Batch (projection_plan.go), over an abstract stream of slots.

   What the scan reads from storage is abstracted as the list of remaining SLOTS inside the
   scan's bounds: [Some kv] is a pair the cursor yields (or a listed key that exists), [None]
   is a listed key of a MultiGetPlan that does not exist (`val == nil: continue`; it still
   consumes one iteration of the read loop).  Cursor scans have no [None] slots; the end of the
   prefix / range is the end of the list (the storage traffic itself, including what a scan
   reads past its end, is the subject of Model/ScanIO.v, C12/C13/C18, not of this file).

   The filter and the projection are parameters: [frow]/[prow] are what row mode calls per
   pair (FilterExec.Filter, processProjection), [fbatch]/[pbatch] what batch mode calls per
   chunk (FilterExec.FilterBatch, processProjectionBatch).  The bottom of the file instantiates
   them with the evaluator twins.  The field cache is off (C05). *)
From Coq Require Import List String ZArith Bool Arith.
Import ListNotations.
From KV Require Import Base.Bytes Model.Ast Model.Value Model.Eval Model.EvalVec.
Local Open Scope nat_scope.
Local Open Scope list_scope.

Section ScanProj.
Variable P : Type.          (* a stored pair *)
Variable R : Type.          (* a result row *)
Variable frow : P -> res bool.
Variable fbatch : list P -> res (list bool).
Variable prow : P -> res R.
Variable pbatch : list P -> res (list R).

Definition slot := option P.

(* ---------------------------------------------------------------- row mode *)

(* XxxScanPlan.Next: read until a pair passes the filter; (nil, nil, nil) at the end *)
Fixpoint scan_next (rest : list slot) : res (option P * list slot) :=
  match rest with
  | [] => Ok (None, [])
  | None :: rest' => scan_next rest'
  | Some kv :: rest' =>
      do ok <- frow kv;
      if ok then Ok (Some kv, rest') else scan_next rest'
  end.

(* ProjectionPlan.Next *)
Definition proj_next (rest : list slot) : res (option R * list slot) :=
  do kr <- scan_next rest;
  match kr with
  | (None, rest') => Ok (None, rest')
  | (Some kv, rest') => do row <- prow kv; Ok (Some row, rest')
  end.

(* drain: Next until nil *)
Fixpoint drain_row_fuel (fuel : nat) (rest : list slot) : res (list R) :=
  match fuel with
  | 0 => OutOfModel
  | S f =>
      do rr <- proj_next rest;
      match rr with
      | (None, _) => Ok []
      | (Some row, rest') => do out <- drain_row_fuel f rest'; Ok (row :: out)
      end
  end.
Definition drain_row (rest : list slot) : res (list R) := drain_row_fuel (S (List.length rest)) rest.

(* ---------------------------------------------------------------- batch mode *)

Fixpoint somes (l : list slot) : list P :=
  match l with
  | [] => []
  | Some kv :: l' => kv :: somes l'
  | None :: l' => somes l'
  end.

(* for i, m := range matchs { if m { ret = append(ret, filterBatch[i]) } } *)
Fixpoint select_matches (chunk : list P) (ms : list bool) : res (list P) :=
  match ms, chunk with
  | [], _ => Ok []
  | m :: ms', kv :: chunk' =>
      do rest <- select_matches chunk' ms'; Ok (if m then kv :: rest else rest)
  | _ :: _, [] => Panic
  end.

(* XxxScanPlan.Batch: `for !finish { read up to B slots; filter the chunk; append the matches;
   finish when the stream ended inside the read loop or count >= B }`.
   [ret] is the Go variable of that name (count = len(ret)); fuel: every iteration that does not
   finish consumes B >= 1 slots. *)
Fixpoint scan_batch_loop (fuel B : nat) (rest : list slot) (ret : list P) : res (list P * list slot) :=
  match fuel with
  | 0 => OutOfModel
  | S f =>
      let chunk := somes (firstn B rest) in
      let rest' := skipn B rest in
      let eof := Nat.ltb (List.length rest) B in
      match chunk with
      | [] => if eof then Ok (ret, rest') else scan_batch_loop f B rest' ret
      | _ :: _ =>
          do ms <- fbatch chunk;
          do sel <- select_matches chunk ms;
          let ret' := ret ++ sel in
          if eof || (Nat.leb B (List.length ret')) then Ok (ret', rest') else scan_batch_loop f B rest' ret'
      end
  end.
Definition scan_batch (B : nat) (rest : list slot) : res (list P * list slot) :=
  scan_batch_loop (S (List.length rest)) B rest [].

(* ProjectionPlan.Batch *)
Definition proj_batch (B : nat) (rest : list slot) : res (list R * list slot) :=
  do kr <- scan_batch B rest;
  match kr with
  | ([], rest') => Ok ([], rest')
  | (kvs, rest') => do rows <- pbatch kvs; Ok (rows, rest')
  end.

(* drain: Batch until it returns no rows *)
Fixpoint drain_batch_fuel (fuel B : nat) (rest : list slot) : res (list (list R)) :=
  match fuel with
  | 0 => OutOfModel
  | S f =>
      do rr <- proj_batch B rest;
      match rr with
      | ([], _) => Ok []
      | (rows, rest') => do outs <- drain_batch_fuel f B rest'; Ok (rows :: outs)
      end
  end.
Definition drain_batch (B : nat) (rest : list slot) : res (list (list R)) :=
  drain_batch_fuel (S (List.length rest)) B rest.

End ScanProj.

Arguments scan_next {P} frow rest.
Arguments proj_next {P R} frow prow rest.
Arguments drain_row_fuel {P R} frow prow fuel rest.
Arguments drain_row {P R} frow prow rest.
Arguments somes {P} l.
Arguments select_matches {P} chunk ms.
Arguments scan_batch_loop {P} fbatch fuel B rest ret.
Arguments scan_batch {P} fbatch B rest.
Arguments proj_batch {P R} fbatch pbatch B rest.
Arguments drain_batch_fuel {P R} fbatch pbatch fuel B rest.
Arguments drain_batch {P R} fbatch pbatch B rest.

(* ---------------------------------------------------------------- instances with the evaluator twins *)
Section Select.
Variable fo : fops.
Variable re_match : bytes -> bytes -> res bool.
Notation value := (value fo).

(* processProjection: evaluate the fields left to right; a ListExpr value ([]Expression) is
   "Expression result type not support" *)
Fixpoint project_row (fields : list expr) (kv : kvpair) : res (list value) :=
  match fields with
  | [] => Ok []
  | f :: fields' =>
      do v <- eval fo re_match (fst kv) (snd kv) f;
      match v with
      | VExprs _ => Err (EExec (epos f))
      | _ => do vs <- project_row fields' kv; Ok (v :: vs)
      end
  end.

(* processProjectionBatch: one column per field, then row[j] = cols[j][i] *)
Fixpoint project_cols (fields : list expr) (ch : list kvpair) : res (list (list value)) :=
  match fields with
  | [] => Ok []
  | f :: fields' =>
      do col <- eval_batch fo re_match true f ch;
      do cols <- project_cols fields' ch; Ok (col :: cols)
  end.

Fixpoint transpose (ch : list kvpair) (cols : list (list value)) : res (list (list value)) :=
  match ch with
  | [] => Ok []
  | _ :: ch' =>
      do row <- all_ok (heads fo cols);
      do rows <- transpose ch' (tails fo cols);
      Ok (row :: rows)
  end.

Definition project_batch (fields : list expr) (ch : list kvpair) : res (list (list value)) :=
  do cols <- project_cols fields ch; transpose ch cols.

(* `select *`: the row is {key, value} *)
Definition star_row (kv : kvpair) : res (list value) := Ok [VBytes (fst kv); VBytes (snd kv)].
Definition star_batch (ch : list kvpair) : res (list (list value)) :=
  Ok (map (fun kv : kvpair => [VBytes (fst kv); VBytes (snd kv)]) ch).

(* a SELECT without ORDER BY / GROUP BY / LIMIT: scan with the WHERE clause, then projection.
   [fields = None] is `select *`. *)
Definition sel_prow (fields : option (list expr)) : kvpair -> res (list value) :=
  match fields with None => star_row | Some fs => project_row fs end.
Definition sel_pbatch (fields : option (list expr)) : list kvpair -> res (list (list value)) :=
  match fields with None => star_batch | Some fs => project_batch fs end.

Definition select_row (wh : expr) (fields : option (list expr)) (slots : list (option kvpair))
  : res (list (list value)) :=
  drain_row (fun kv : kvpair => filter_row fo re_match (fst kv) (snd kv) wh) (sel_prow fields) slots.

Definition select_batch (B : nat) (wh : expr) (fields : option (list expr)) (slots : list (option kvpair))
  : res (list (list (list value))) :=
  drain_batch (filter_batch fo re_match true wh) (sel_pbatch fields) B slots.

End Select.
