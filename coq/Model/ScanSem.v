(* Model/ScanSem.v -- what sits around the scan twins of Model/ScanIO.v when a statement's rows
   (not only their number) are wanted:
     filter_optimizer.go  FilterOptimizer.Optimize: the switch from the inferred ScanType to the
                          scan plan ([scan_of_region]); scan_plan.go NewMultiGetPlan: the keys
                          are sorted and listed once ([mget_keys]);
     [region_of]          the region (Model/FilterOpt.v) a scan plan reads;
     the caller's loops   Next until nil ([rows_drain]) / Batch until the empty batch
                          ([batches_drain]) over a kvql.Plan, keeping the pairs, after the two
                          Init calls of BuildPlan ([plan_build]).
   No proofs here (Proofs/ScanSemProofs.v). *)
From Coq Require Import List String Bool Arith.
Import ListNotations.
From KV Require Import Base.Bytes Model.Storage Model.ScanIO Model.FilterOpt.

Set Implicit Arguments.
Local Open Scope list_scope.
Local Open Scope nat_scope.

Local Notation "x <- m ;; k" := (bind m (fun x => k)) (at level 61, m at next level, right associativity).
Local Notation "' pat <- m ;; k" := (bind m (fun x => match x with pat => k end))
  (at level 61, pat pattern, m at next level, right associativity).

(* ------------------------------------------------------------------ regions and scan plans *)

Definition region_of (sc : scan) : region :=
  match sc with
  | SEmpty => REmpty
  | SFull => RFull
  | SPrefix p => RPrefix p
  | SRange lo hi => RRange lo hi
  | SMget ks => RMget ks
  end.

(* sort.Strings followed by the removal of adjacent duplicates: insertion into a sorted,
   duplicate-free list *)
Fixpoint insert_key (k : bytes) (ks : list bytes) : list bytes :=
  match ks with
  | [] => [k]
  | k' :: ks' =>
      match bcompare k k' with
      | Eq => ks
      | Lt => k :: ks
      | Gt => k' :: insert_key k ks'
      end
  end.

Definition mget_keys (ks : list bytes) : list bytes := fold_right insert_key [] ks.

(* FilterOptimizer.Optimize: switch stype.scanTp *)
Definition scan_of_region (r : region) : scan :=
  match r with
  | REmpty => SEmpty
  | RMget ks => SMget (mget_keys ks)
  | RPrefix p => SPrefix p
  | RRange lo hi => SRange lo hi
  | RFull => SFull
  end.

(* ------------------------------------------------------------------ the caller's loops, keeping the pairs *)

Section Drains.
Variable remember_end : bool.
Variable flt : kvp -> bool.
Variable B : nat.
Variable fuel : nat.

(* for { k, v := plan.Next(ctx); if k == nil { break }; rows = append(rows, kv) } *)
Fixpoint rows_drain (f : nat) (p : plan) (st : pstate) (acc : list kvp) : rprog (list kvp) :=
  match f with
  | 0 => Fail EFuel
  | S f' =>
      '(r, st') <- plan_next remember_end flt fuel p st ;;
      match r with
      | None => Ret acc
      | Some kv => rows_drain f' p st' (acc ++ [kv])
      end
  end.

(* for { rows := plan.Batch(ctx); if len(rows) == 0 { break }; batches = append(batches, rows) } *)
Fixpoint batches_drain (f : nat) (p : plan) (st : pstate) (acc : list (list kvp)) : rprog (list (list kvp)) :=
  match f with
  | 0 => Fail EFuel
  | S f' =>
      '(rows, st') <- plan_batch remember_end flt B fuel p st ;;
      match rows with
      | [] => Ret acc
      | _ => batches_drain f' p st' (acc ++ [rows])
      end
  end.

(* the plan is Init()-ed by its builder and once more by BuildPlan *)
Definition plan_build (p : plan) : rprog pstate :=
  st1 <- plan_init p (pstate0 p) ;; plan_init p st1.

Definition select_rows (p : plan) : rprog (list kvp) :=
  st <- plan_build p ;; rows_drain fuel p st [].

Definition select_batches (p : plan) : rprog (list (list kvp)) :=
  st <- plan_build p ;; batches_drain fuel p st [].

End Drains.

(* run a read program from a storage state *)
Definition run_read (A : Type) (p : rprog A) (s : sstate) : res A * sstate := run exec_req (rd p) s.
