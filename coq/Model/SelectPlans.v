(* Model/SelectPlans.v -- composition glue for whole SELECT statements with ORDER BY and
   GROUP BY / aggregates (C03 at statement level).  No new twin of any Go function body: the
   nodes are the existing twins
       Model/ScanProj.v    scan + WHERE filter, ProjectionPlan         (C03)
       Model/Order.v       FinalOrderPlan                              (C07)
       Model/Aggregate.v   AggregatePlan incl. its pushed-down LIMIT   (C09)
       Model/LimitLazy.v   FinalLimitPlan over a pulled child          (C03 / C08)
   and this file only says how Optimizer.buildFinalPlan (optimizer.go) stacks them and how the
   rows of one node reach the next one.  No proofs here (Proofs/SelectPlansProofs.v).

   buildFinalPlan:
     no aggregate : ProjectionPlan(scan); ORDER BY puts a FinalOrderPlan on it (except
                    `order by key asc` alone: Order.build_final_order_plan drops it); LIMIT puts a
                    FinalLimitPlan on top of that.
     aggregate    : AggregatePlan(scan) -- its child is the scan itself, it evaluates the GROUP BY
                    expressions, the non-aggregate fields and the aggregate arguments on the pairs
                    the scan yields.  LIMIT WITHOUT ORDER BY is pushed into the AggregatePlan
                    (Start / Limit); with ORDER BY the AggregatePlan is unlimited, a
                    FinalOrderPlan is put on it and the LIMIT becomes a FinalLimitPlan on top.

   How the interfaces are glued (each item is a parameter of the generic part, instantiated
   with the evaluator twins at the bottom of the file; the hypotheses the theorems need about
   them are stated in Proofs/SelectPlansProofs.v):

   * Rows.  Model/Order.v sorts rows of [Order.value] (the dynamic types compare* switches
     on).  The projection therefore delivers its rows already rendered as [Order.row]
     ([prow] / [pbatch] = processProjection / processProjectionBatch followed by the
     rendering [conv_row]), and the result rows of the AggregatePlan are rendered by [aconv].
     A statement's result is a list of [Order.row] in all cases.
   * FinalOrderPlan.prepare / prepareBatch call child.Next / child.Batch until nil / the empty
     batch before the first row is returned: this loop IS the drain of the child, so the order
     node receives [ScanProj.drain_row] / [ScanProj.drain_batch] of its child (an error of the
     child is the error of the statement), then Model/Order.v's drains pop the heap.
   * FinalLimitPlan over FinalOrderPlan: the limit node pulls the order node lazily
     (Model/LimitLazy.v); the order node as a pulled child is [onext] / [obatch]: the first call
     drains the child and calls Order.next / Order.batch on the rows, later calls only pop.
   * AggregatePlan.prepare / prepareBatch: the loop over the child is Model/AggregateLazy.v's
     [sdrain_row] / [sdrain_batch] (the scan of Model/ScanProj.v with, per pair / per chunk, what
     the plan evaluates: [obs_row] / [obs_batch], which depend on the keys of aggrMap seen so far).
     The instance at the bottom evaluates EXACTLY what the Go code evaluates, in its order
     (Model/AggregateLazy.v, header): GROUP BY expressions on every pair (batch mode: with
     ExecuteBatch on the whole chunk first), the non-aggregate fields on the first pair of a
     group only, the first argument of every aggregate call except count on every pair, nothing
     for count.  The values reach Model/Aggregate.v as [pobs] (absent / nil where nothing was
     evaluated; it never looks there).
   * Completing the rows: without a pushed-down LIMIT every group is completed (an execution
     error -- x / 0, unencodable float -- is [Err EOther] for the statement; FinalOrderPlan
     drains the AggregatePlan completely); with the LIMIT pushed into the plan the rows are
     completed as Next / Batch ask for them (Model/AggregateLazy.v [adrain_row] /
     [adrain_batch]): a group that would fail beyond what the limit consumes is never completed.
   * The previous, EAGER composition (all three groups of expressions on every pair, every group
     completed) is kept at the bottom as [select_agg_row_eager] / [select_agg_batch_eager]:
     wherever it answers with rows the lazy composition answers with the same rows
     (Proofs/SelectPlansProofs.v [select_agg_row_refines] / [select_agg_batch_refines]). *)
From Coq Require Import List String ZArith Bool Arith.
Import ListNotations.
From KV Require Import Base.Bytes Model.Ast Model.Value Model.Eval Model.EvalVec Model.ScanProj
                       Model.LimitLazy Model.AggregateLazy.
From KV Require Model.Limit Model.Order Model.Aggregate Spec.Group.
Local Open Scope nat_scope.
Local Open Scope list_scope.

(* Order.drain_* answer None for a panic (heap.Pop on an empty heap); Aggregate.run_* answer
   None for an execution error *)
Definition of_pop {A} (o : option A) : res A := match o with Some a => Ok a | None => Panic end.
Definition of_exec {A} (o : option A) : res A := match o with Some a => Ok a | None => Err EOther end.

(* ================================================================ FinalOrderPlan over a child *)
Section OrderNode.
Variable C : Type.                                      (* state of the child plan *)
Variable crows : C -> res (list Order.row).             (* child.Next until nil *)
Variable cbats : C -> res (list (list Order.row)).      (* child.Batch until the empty batch *)
Variable cdone : C.                                     (* the child after such a drain *)
Variable parse_int parse_float : bytes -> option Z.
Variable ords : list Order.ofield.                      (* orderPos / orderTypes after Init *)

(* the statement ends with the order node: Next until nil / Batch until empty *)
Definition ord_row (c : C) : res (list Order.row) :=
  do rows <- crows c; of_pop (Order.drain_row parse_int parse_float ords rows).
Definition ord_batch (B : nat) (c : C) : res (list (list Order.row)) :=
  do bs <- cbats c; of_pop (Order.drain_batch parse_int parse_float ords B bs).

(* the order node as a pulled child (of a FinalLimitPlan): p.total == 0 => prepare *)
Definition onode := (Order.ostate * C)%type.

Definition onext (s : onode) : res (option Order.row * onode) :=
  let '(st, c) := s in
  if Order.total st =? 0 then
    do rows <- crows c;
    match Order.next parse_int parse_float ords st rows with
    | (Order.NRow r, st', _) => Ok (Some r, (st', cdone))
    | (Order.NEnd, st', _) => Ok (None, (st', cdone))
    | (Order.NPanic, _, _) => Panic
    end
  else
    match Order.next parse_int parse_float ords st [] with
    | (Order.NRow r, st', _) => Ok (Some r, (st', c))
    | (Order.NEnd, st', _) => Ok (None, (st', c))
    | (Order.NPanic, _, _) => Panic
    end.

Definition obatch (B : nat) (s : onode) : res (list Order.row * onode) :=
  let '(st, c) := s in
  if Order.total st =? 0 then
    do bs <- cbats c;
    match Order.batch parse_int parse_float ords B st bs with
    | Some (out, st', _) => Ok (out, (st', cdone))
    | None => Panic
    end
  else
    match Order.batch parse_int parse_float ords B st [] with
    | Some (out, st', _) => Ok (out, (st', c))
    | None => Panic
    end.

(* FinalLimitPlan(FinalOrderPlan(child)).  [fuel]: number of Batch calls of the limit node that
   may return rows, plus one; the instances pass the number of slots of the scan + 2. *)
Definition ord_limit_row (start count : nat) (c : C) : res (list Order.row) :=
  ldrain_row onext start count (Order.oinit, c).
Definition ord_limit_batch (fuel B start count : nat) (c : C) : res (list (list Order.row)) :=
  ldrain_batch_fuel (obatch B) fuel B start count Limit.linit (Order.oinit, c).

End OrderNode.

(* ================================================================ statements *)

(* the final plans buildFinalPlan can return *)
Inductive shape :=
  | SProj                                              (* ProjectionPlan *)
  | SAgg (start : nat) (limit : option nat)            (* AggregatePlan, Start / Limit (None = -1) *)
  | SOrder (orders : list Order.order_field) (child : shape)
  | SLimit (start count : nat) (child : shape).

(* func (o *Optimizer) buildFinalPlan(s, fp, stmt): [has_aggr] is the Go variable of that name
   (an aggregate call in a field, or every field a GROUP BY field) *)
Definition build_final_plan (has_aggr : bool) (order : option (list Order.order_field))
           (limit : option (nat * nat)) : shape :=
  if negb has_aggr then
    let ffp := SProj in
    let ffp := match order with
               | Some os =>
                   match Order.build_final_order_plan Order.FChild false os with
                   | Order.FOrder os' _ => SOrder os' ffp
                   | Order.FChild => ffp              (* order by key asc alone *)
                   end
               | None => ffp
               end in
    match limit with
    | Some (s, n) => SLimit s n ffp
    | None => ffp
    end
  else
    (* doNotBuildLimit: "no order by only has limit" *)
    let push := match limit, order with Some _, None => true | _, _ => false end in
    let ffp := match limit with
               | Some (s, n) => if push then SAgg s (Some n) else SAgg 0 None
               | None => SAgg 0 None
               end in
    let ffp := match order with
               | Some os => SOrder os ffp             (* hasAggr: the order node is never dropped *)
               | None => ffp
               end in
    match limit with
    | Some (s, n) => if push then ffp else SLimit s n ffp
    | None => ffp
    end.

Section Statement.
(* ---- the scan with the WHERE clause *)
Variable P : Type.                                      (* a stored pair *)
Variable frow : P -> res bool.                          (* FilterExec.Filter *)
Variable fbatch : list P -> res (list bool).            (* FilterExec.FilterBatch *)
(* ---- ProjectionPlan: processProjection / processProjectionBatch, rows rendered *)
Variable prow : P -> res Order.row.
Variable pbatch : list P -> res (list Order.row).
(* ---- AggregatePlan *)
Variable F : Type.
Variable fadd fsub fmul fdiv : F -> F -> F.
Variable fltb : F -> F -> bool.
Variable fis0 : F -> bool.
Variable of_Z : Z -> F.
Variable to_Z : F -> Z.
Variable fmt_f : F -> bytes.
Variable bits_f : F -> bytes.
Variable json_f : F -> option bytes.
Variable parse_f : bytes -> option F.
Variable json_s : bytes -> bytes.
Variable T : Type.                                       (* the keys of aggrMap *)
Variable t0 : T.                                         (* ... after Init *)
(* what prepare evaluates on one pair / prepareBatch on one chunk, given the keys seen so far *)
Variable obs_row : Group.plan F -> T -> P -> res (Group.pobs F * T).
Variable obs_batch : Group.plan F -> T -> list P -> res (list (Group.pobs F) * T).
Variable aconv : list (Group.value F) -> Order.row.     (* rendering of a result row *)
(* ---- FinalOrderPlan *)
Variable parse_int parse_float : bytes -> option Z.

Notation slots := (list (option P)).

(* AggregatePlan(scan) drained by Next / by Batch: rows as Model/Aggregate.v returns them *)
Definition agg_row (p : Group.plan F) (sl : slots) : res (list (list (Group.value F))) :=
  do obs <- sdrain_row frow (obs_row p) t0 sl;
  lrun_row fadd fsub fmul fdiv fltb fis0 of_Z to_Z fmt_f bits_f json_f parse_f json_s p obs.
Definition agg_batch (B : nat) (p : Group.plan F) (sl : slots) : res (list (list (Group.value F))) :=
  do chunks <- sdrain_batch fbatch (obs_batch p) B t0 sl;
  lrun_batch fadd fsub fmul fdiv fltb fis0 of_Z to_Z fmt_f bits_f json_f parse_f json_s p B chunks.

(* the two children an order node can have, as drains *)
Definition proj_rows (sl : slots) : res (list Order.row) := drain_row frow prow sl.
Definition proj_bats (B : nat) (sl : slots) : res (list (list Order.row)) := drain_batch fbatch pbatch B sl.
Definition agg_rows (p : Group.plan F) (sl : slots) : res (list Order.row) :=
  do rows <- agg_row p sl; Ok (map aconv rows).
(* AggregatePlan.batch() hands out the prepared rows PlanBatchSize at a time *)
Definition agg_bats (B : nat) (p : Group.plan F) (sl : slots) : res (list (list Order.row)) :=
  do rows <- agg_batch B p sl; Ok (Aggregate.chunks_of B (map aconv rows)).

(* a SELECT statement as buildFinalPlan sees it *)
Record stmt := Stmt {
  s_aggr : option (bool * list (Group.field F));   (* None: no aggregate; Some (AggrAll, Fields) *)
  s_names : list string;                           (* FieldNames *)
  s_types : list Order.type;                       (* FieldTypes *)
  s_order : option (list Order.order_field);       (* ORDER BY as written *)
  s_limit : option (nat * nat)                     (* LIMIT start, count *)
}.

Definition stmt_shape (s : stmt) : shape :=
  build_final_plan (match s_aggr s with Some _ => true | None => false end) (s_order s) (s_limit s).

Definition stmt_plan (s : stmt) (start : nat) (limit : option nat) : Group.plan F :=
  match s_aggr s with
  | Some (all, fields) => Group.Plan all fields start limit
  | None => Group.Plan true [] start limit
  end.

(* FinalOrderPlan.Init: positions and types of the ORDER BY fields; an unknown name is a
   syntax error (of the build, in both modes alike) *)
Definition with_ords {A} (s : stmt) (orders : list Order.order_field)
           (k : list Order.ofield -> res A) : res A :=
  match Order.init_orders orders (s_names s) (s_types s) with
  | Some ords => k ords
  | None => Err (ESyntax 0)
  end.

Definition limit_fuel (sl : slots) : nat := Datatypes.S (Datatypes.S (List.length sl)).

(* the statement drained by Next until nil *)
Definition run_shape_row (s : stmt) (sh : shape) (sl : slots) : res (list Order.row) :=
  match sh with
  | SProj => proj_rows sl
  | SLimit st n SProj => ldrain_row (proj_next frow prow) st n sl
  | SOrder os SProj =>
      with_ords s os (fun ords => ord_row _ proj_rows parse_int parse_float ords sl)
  | SLimit st n (SOrder os SProj) =>
      with_ords s os (fun ords => ord_limit_row _ proj_rows [] parse_int parse_float ords st n sl)
  | SAgg st l => agg_rows (stmt_plan s st l) sl
  | SOrder os (SAgg 0 None) =>
      with_ords s os (fun ords => ord_row _ (agg_rows (stmt_plan s 0 None)) parse_int parse_float ords sl)
  | SLimit st n (SOrder os (SAgg 0 None)) =>
      with_ords s os (fun ords =>
        ord_limit_row _ (agg_rows (stmt_plan s 0 None)) [] parse_int parse_float ords st n sl)
  | _ => OutOfModel                               (* not built by buildFinalPlan *)
  end.

(* the statement drained by Batch until the empty batch; the batches concatenated (how a
   result is cut into batches is not visible to the property) *)
Definition run_shape_batch (B : nat) (s : stmt) (sh : shape) (sl : slots) : res (list Order.row) :=
  match sh with
  | SProj => do outs <- proj_bats B sl; Ok (List.concat outs)
  | SLimit st n SProj =>
      do outs <- ldrain_batch_fuel (proj_batch fbatch pbatch B) (limit_fuel sl) B st n Limit.linit sl;
      Ok (List.concat outs)
  | SOrder os SProj =>
      with_ords s os (fun ords =>
        do outs <- ord_batch _ (proj_bats B) parse_int parse_float ords B sl; Ok (List.concat outs))
  | SLimit st n (SOrder os SProj) =>
      with_ords s os (fun ords =>
        do outs <- ord_limit_batch _ (proj_bats B) [] parse_int parse_float ords (limit_fuel sl) B st n sl;
        Ok (List.concat outs))
  | SAgg st l => do outs <- agg_bats B (stmt_plan s st l) sl; Ok (List.concat outs)
  | SOrder os (SAgg 0 None) =>
      with_ords s os (fun ords =>
        do outs <- ord_batch _ (agg_bats B (stmt_plan s 0 None)) parse_int parse_float ords B sl;
        Ok (List.concat outs))
  | SLimit st n (SOrder os (SAgg 0 None)) =>
      with_ords s os (fun ords =>
        do outs <- ord_limit_batch _ (agg_bats B (stmt_plan s 0 None)) [] parse_int parse_float ords
                                   (limit_fuel sl) B st n sl;
        Ok (List.concat outs))
  | _ => OutOfModel
  end.

Definition run_row (s : stmt) (sl : slots) : res (list Order.row) := run_shape_row s (stmt_shape s) sl.
Definition run_batch (B : nat) (s : stmt) (sl : slots) : res (list Order.row) :=
  run_shape_batch B s (stmt_shape s) sl.

End Statement.

(* ================================================================ rendering of rows *)

(* text of a content, for the list-valued columns (no compare* function looks at them) *)
Fixpoint canon_text (c : canon) : bytes :=
  match c with
  | CText b => ("T" ++ Group.dec (Z.of_nat (String.length b)) ++ ":" ++ b)%string
  | CInt z => ("I" ++ Group.dec z ++ ";")%string
  | CFlt bits => ("F" ++ Group.dec bits ++ ";")%string
  | CBool true => "B1"%string
  | CBool false => "B0"%string
  | CList l =>
      ("L" ++ Group.dec (Z.of_nat (List.length l)) ++ ":" ++
       (fix go (l : list canon) : bytes :=
          match l with [] => EmptyString | x :: l' => (canon_text x ++ go l')%string end) l)%string
  | CNil => "N"%string
  | COther => "O"%string
  end.

Section Render.
Variable fo : fops.
Variable fbits : F fo -> Z.              (* math.Float64bits *)

(* a column of a projection row as the compare* type switches see it: []byte, string, int64,
   float64 (by its 64 bits, which is what Model/Order.v compares floats through), bool; anything
   else has no case in any of them *)
Definition conv_val (v : value fo) : Order.value :=
  match v with
  | VBytes b => Order.VBytes b
  | VStr s => Order.VStr s
  | VInt z => Order.VInt z
  | VFlt f => Order.VFloat (fbits f)
  | VBool b => Order.VBool b
  | _ => Order.VOther (canon_text (canon_of fo v))
  end.
Definition conv_row (r : list (value fo)) : Order.row := map conv_val r.

(* a column of an aggregate result row (Model/Aggregate.v produces text, int64, float64) *)
Definition aconv_val (v : Group.value (F fo)) : Order.value :=
  match v with
  | Group.VBytes b => Order.VBytes b
  | Group.VStr s => Order.VStr s
  | Group.VInt z => Order.VInt z
  | Group.VFlt f => Order.VFloat (fbits f)
  | Group.VBool b => Order.VBool b
  | Group.VNil => Order.VOther "N"%string
  end.
Definition aconv_row (r : list (Group.value (F fo))) : Order.row := map aconv_val r.

End Render.

(* ================================================================ the instance with the evaluator twins *)
Section Concrete.
Variable fo : fops.
Variable re_match : bytes -> bytes -> res bool.
Notation value := (value fo).
Notation gvalue := (Group.value (F fo)).

(* the operations on float64 of the aggregate and order code that the evaluator's interface
   [fops] does not have (all of them Go library code; no law is assumed about any of them) *)
Record aggops := AggOps {
  a_is0 : F fo -> bool;                  (* x == 0.0 *)
  a_to_Z : F fo -> Z;                    (* int64(x) *)
  a_fbits : F fo -> Z;                   (* math.Float64bits(x) *)
  a_bits : F fo -> bytes;                (* strconv.FormatUint(math.Float64bits(x), 16) *)
  a_json_f : F fo -> option bytes;       (* encoding/json of a float64 *)
  a_parse : bytes -> option (F fo);      (* strconv.ParseFloat *)
  a_json_s : bytes -> bytes              (* encoding/json of a string *)
}.
Variable ag : aggops.

Definition c_prow (fields : option (list expr)) (kv : kvpair) : res Order.row :=
  do r <- sel_prow fo re_match fields kv; Ok (conv_row fo (a_fbits ag) r).
Definition c_pbatch (fields : option (list expr)) (ch : list kvpair) : res (list Order.row) :=
  do rs <- sel_pbatch fo re_match fields ch; Ok (map (conv_row fo (a_fbits ag)) rs).

(* a value handed to the aggregate code.  convertToBytes has no case for lists (execution
   error for a GROUP BY value or a non-aggregate field; an aggregate argument of list type is
   silently 0 / "%v"): list values are outside Model/Aggregate.v's [value] *)
Definition gval (v : value) : res gvalue :=
  match v with
  | VBytes b => Ok (Group.VBytes b)
  | VStr s => Ok (Group.VStr s)
  | VInt z => Ok (Group.VInt z)
  | VFlt f => Ok (Group.VFlt f)
  | VBool b => Ok (Group.VBool b)
  | VNil => Ok Group.VNil
  | _ => OutOfModel
  end.

Fixpoint gvals (vs : list value) : res (list gvalue) :=
  match vs with
  | [] => Ok []
  | v :: vs' => do g <- gval v; do gs <- gvals vs'; Ok (g :: gs)
  end.

(* Expression.Execute on each of [es], left to right *)
Fixpoint evals_row (es : list expr) (kv : kvpair) : res (list gvalue) :=
  match es with
  | [] => Ok []
  | e :: es' =>
      do v <- eval fo re_match (fst kv) (snd kv) e;
      do g <- gval v;
      do gs <- evals_row es' kv; Ok (g :: gs)
  end.

(* ---- what the AggregatePlan evaluates (Model/AggregateLazy.v [lobs_row] / [lobs_batch] with the
   evaluator twins).  [gs]: the GROUP BY expressions; [ks]: the non-aggregate select fields;
   [args]: the first arguments of the aggregate calls, in the order of Model/Aggregate.v's [c_arg]
   indices = the order updateRowAggrFunc visits the calls *)

(* updateRowAggrFunc: Execute of Args[0] for the calls [need] selects, nil for the others *)
Fixpoint evals_need (need : nat -> bool) (i : nat) (es : list expr) (kv : kvpair) : res (list gvalue) :=
  match es with
  | [] => Ok []
  | e :: es' =>
      if need i then
        do v <- eval fo re_match (fst kv) (snd kv) e;
        do g <- gval v;
        do gs <- evals_need need (Datatypes.S i) es' kv; Ok (g :: gs)
      else
        do gs <- evals_need need (Datatypes.S i) es' kv; Ok (Group.VNil :: gs)
  end.

(* batchGetAggrKeys: ExecuteBatch per GROUP BY expression, then aggrKeyBytes pair by pair *)
Fixpoint gvals_all (grows : list (list value)) : res (list (list gvalue)) :=
  match grows with
  | [] => Ok []
  | grow :: grows' => do g <- gvals grow; do gs <- gvals_all grows'; Ok (g :: gs)
  end.
Definition c_batch_g (gs : list expr) (ch : list kvpair) : res (list (list gvalue)) :=
  do grows <- project_batch fo re_match gs ch; gvals_all grows.

Definition c_lobs_row (gs ks args : list expr) (p : Group.plan (F fo)) (t : seen) (kv : kvpair)
  : res (Group.pobs (F fo) * seen) :=
  lobs_row (f_fmt fo) (a_bits ag) (evals_row gs) (evals_row ks) (fun need => evals_need need 0 args) p t kv.
Definition c_lobs_batch (gs ks args : list expr) (p : Group.plan (F fo)) (t : seen) (ch : list kvpair)
  : res (list (Group.pobs (F fo)) * seen) :=
  lobs_batch (f_fmt fo) (a_bits ag) (c_batch_g gs) (evals_row ks) (fun need => evals_need need 0 args) p t ch.

(* ---- the EAGER observation (the previous composition, kept for the refinement theorems): all
   three groups of expressions on every pair *)
Definition c_obs_row (gs ks args : list expr) (kv : kvpair) : res (Group.pobs (F fo)) :=
  do g <- evals_row gs kv;
  do k <- evals_row ks kv;
  do a <- evals_row args kv;
  Ok (Group.PObs g k a).

(* per pair of the chunk: the key and argument values by Execute, the GROUP BY values taken
   from the rows ExecuteBatch produced for the whole chunk (batchGetAggrKeys) *)
Fixpoint obs_zip (ks args : list expr) (ch : list kvpair) (grows : list (list value))
  : res (list (Group.pobs (F fo))) :=
  match ch, grows with
  | [], _ => Ok []
  | kv :: ch', grow :: grows' =>
      do g <- gvals grow;
      do k <- evals_row ks kv;
      do a <- evals_row args kv;
      do rest <- obs_zip ks args ch' grows';
      Ok (Group.PObs g k a :: rest)
  | _ :: _, [] => Panic
  end.

Definition c_obs_batch (gs ks args : list expr) (ch : list kvpair) : res (list (Group.pobs (F fo))) :=
  do grows <- project_batch fo re_match gs ch;
  obs_zip ks args ch grows.

(* ---------------------------------------------------------------- whole statements *)

(* a checked SELECT statement: the expressions the nodes evaluate, and what buildFinalPlan
   looks at ([q_stmt]).  [q_fields = None] is `select *`.  For a statement with aggregates
   [q_group] are the GROUP BY expressions, [q_keys] the non-aggregate select fields, [q_args]
   the first arguments of the aggregate calls (indexed by Model/Aggregate.v's [c_arg]). *)
Record cstmt := CStmt {
  q_where : expr;
  q_fields : option (list expr);
  q_group : list expr;
  q_keys : list expr;
  q_args : list expr;
  q_stmt : stmt (F fo)
}.

Variable parse_int parse_float : bytes -> option Z.    (* strconv, for compareNumber on text *)

Definition select_shape_row (q : cstmt) (sh : shape) (sl : list (option kvpair)) : res (list Order.row) :=
  run_shape_row kvpair (sel_frow fo re_match (q_where q)) (c_prow (q_fields q))
    (F fo) (fadd fo) (fsub fo) (fmul fo) (fdiv fo) (fltb fo) (a_is0 ag) (f_of_Z fo) (a_to_Z ag) (f_fmt fo)
    (a_bits ag) (a_json_f ag) (a_parse ag) (a_json_s ag) seen []
    (c_lobs_row (q_group q) (q_keys q) (q_args q)) (aconv_row fo (a_fbits ag)) parse_int parse_float (q_stmt q) sh sl.

Definition select_shape_batch (B : nat) (q : cstmt) (sh : shape) (sl : list (option kvpair)) : res (list Order.row) :=
  run_shape_batch kvpair (filter_batch fo re_match true (q_where q)) (c_pbatch (q_fields q))
    (F fo) (fadd fo) (fsub fo) (fmul fo) (fdiv fo) (fltb fo) (a_is0 ag) (f_of_Z fo) (a_to_Z ag) (f_fmt fo)
    (a_bits ag) (a_json_f ag) (a_parse ag) (a_json_s ag) seen []
    (c_lobs_batch (q_group q) (q_keys q) (q_args q)) (aconv_row fo (a_fbits ag)) parse_int parse_float B (q_stmt q) sh sl.

(* the statement through buildFinalPlan *)
Definition select_stmt_row (q : cstmt) (sl : list (option kvpair)) : res (list Order.row) :=
  select_shape_row q (stmt_shape (F fo) (q_stmt q)) sl.
Definition select_stmt_batch (B : nat) (q : cstmt) (sl : list (option kvpair)) : res (list Order.row) :=
  select_shape_batch B q (stmt_shape (F fo) (q_stmt q)) sl.

(* AggregatePlan(scan) alone, rows as Model/Aggregate.v's values ([p] carries the pushed-down
   LIMIT, if any) *)
Definition select_agg_row (q : cstmt) (p : Group.plan (F fo)) (sl : list (option kvpair))
  : res (list (list gvalue)) :=
  agg_row kvpair (sel_frow fo re_match (q_where q))
    (F fo) (fadd fo) (fsub fo) (fmul fo) (fdiv fo) (fltb fo) (a_is0 ag) (f_of_Z fo) (a_to_Z ag) (f_fmt fo)
    (a_bits ag) (a_json_f ag) (a_parse ag) (a_json_s ag) seen []
    (c_lobs_row (q_group q) (q_keys q) (q_args q)) p sl.
Definition select_agg_batch (B : nat) (q : cstmt) (p : Group.plan (F fo)) (sl : list (option kvpair))
  : res (list (list gvalue)) :=
  agg_batch kvpair (filter_batch fo re_match true (q_where q))
    (F fo) (fadd fo) (fsub fo) (fmul fo) (fdiv fo) (fltb fo) (a_is0 ag) (f_of_Z fo) (a_to_Z ag) (f_fmt fo)
    (a_bits ag) (a_json_f ag) (a_parse ag) (a_json_s ag) seen []
    (c_lobs_batch (q_group q) (q_keys q) (q_args q)) B p sl.

(* the EAGER composition of AggregatePlan(scan): every expression on every pair, every group
   completed (what this file composed before the evaluation discipline was modelled) *)
Definition select_agg_row_eager (q : cstmt) (p : Group.plan (F fo)) (sl : list (option kvpair))
  : res (list (list gvalue)) :=
  do obs <- drain_row (sel_frow fo re_match (q_where q)) (c_obs_row (q_group q) (q_keys q) (q_args q)) sl;
  of_exec (Aggregate.run_row (fadd fo) (fsub fo) (fmul fo) (fdiv fo) (fltb fo) (a_is0 ag) (f_of_Z fo) (a_to_Z ag)
                             (f_fmt fo) (a_bits ag) (a_json_f ag) (a_parse ag) (a_json_s ag) true true p obs).
Definition select_agg_batch_eager (B : nat) (q : cstmt) (p : Group.plan (F fo)) (sl : list (option kvpair))
  : res (list (list gvalue)) :=
  do chunks <- drain_batch (filter_batch fo re_match true (q_where q))
                           (c_obs_batch (q_group q) (q_keys q) (q_args q)) B sl;
  of_exec (Aggregate.run_batch (fadd fo) (fsub fo) (fmul fo) (fdiv fo) (fltb fo) (a_is0 ag) (f_of_Z fo) (a_to_Z ag)
                               (f_fmt fo) (a_bits ag) (a_json_f ag) (a_parse ag) (a_json_s ag) true true p B chunks).

End Concrete.
