(* Model/StmtParser.v -- twin of the STATEMENT part of parser.go: Parser.Parse (trimEndSemis, the
   SELECT / WHERE / PUT / REMOVE / DELETE dispatch), parseSelect (field list, AS names, `*`),
   the WHERE expression, the ORDER BY / GROUP BY / LIMIT tail loop (parseOrderBy, parseGroupBy,
   parseLimit with "limit n" / "limit s, n" and the number conversion of newNumberExpr),
   parsePut / parsePutKVPair, parseRemove, parseDelete.  Expressions are parsed by the twin of
   Model/ExprParser.v, run with the fuel of [fuel_of] on the tokens that are left.

   The parser state of Go (p.toks, p.pos, p.tok) is the list of remaining tokens (head = p.tok,
   [] = p.tok == nil), as in Model/ExprParser.v.  Go's loops are the *_loop functions; loops that
   call the expression parser take fuel (one unit per iteration; S (length ts) is enough, see
   Proofs/StmtParserProofs.v), parseLimit's loop is structural.  [PPanic] marks a nil
   dereference of Go (p.tok.Pos with p.tok == nil); it is proved unreachable.

   WITHOUT the type checker: Validate / ValidateFields / Check after the statement has been read
   are not modelled (Model/Checker.v).  parser.go however also runs four semantic tests IN THE
   MIDDLE of parsing, whose errors come before later syntax errors:
     - checkFieldCycles, after the WHERE expression and before the ORDER/GROUP/LIMIT tail;
     - findFieldInSelect for every ORDER BY item;
     - findFieldInSelect + the aggregate-function-name test for every GROUP BY item;
     - Expr.Check(ctx) of the GROUP BY fields at the end of parseGroupBy.
   They are parameters of the twin ([hooks]): each returns the position of its error or None.
   [parse_statement] is the pure syntax (no test ever fails).  Theorems hold for every hook
   that reports positions of the nodes it is given; the correspondence instantiates the hooks
   from the outcome observed on the implementation (Corr/C15.v).

   The statement tree keeps what the Go statement structs keep, except what the semantic tests
   compute: OrderField.Field / GroupByField.Expr (the select field found for the name) and
   FieldTypes.  An ORDER BY / GROUP BY item is kept as the expression parsed for it; its Go
   [Name] is [item_name] of it.

   No proofs in this file. *)
From Coq Require Import String List Arith Bool ZArith.
Import ListNotations.
From KV Require Import Base.Num Model.Token Model.Ast Model.ExprParser Model.ErrPos.
Local Open Scope string_scope.
Local Open Scope list_scope.

(* ------------------------------------------------------------------ statement trees *)

Inductive dir := DAsc | DDesc.

(* LimitStmt{Pos, Start, Count} *)
Record limit_t := Limit { l_pos : nat; l_start : Z; l_count : Z }.
(* OrderStmt{Pos, Orders} *)
Record order_t := Order { o_pos : nat; o_items : list (expr * dir) }.
(* GroupByStmt{Pos, Fields} *)
Record group_t := Group { g_pos : nat; g_items : list expr }.

(* SelectStmt{Pos, AllFields, Fields, FieldNames, Where{Pos, Expr}, Order, GroupBy, Limit}.
   A statement that starts at WHERE has Pos 0, AllFields, and nil Fields / FieldNames;
   `select *` has AllFields and the two fields FieldExpr{0, KeyKW}, FieldExpr{0, ValueKW}. *)
Record select_t := Select {
  s_pos : nat;
  s_all : bool;
  s_fields : list expr;
  s_names : list string;
  s_wpos : nat;
  s_where : expr;
  s_order : option order_t;
  s_group : option group_t;
  s_limit : option limit_t
}.

Inductive stmt :=
  | StSelect (s : select_t)
  | StPut (p : nat) (pairs : list (expr * expr))        (* PutStmt{Pos, KVPairs} *)
  | StRemove (p : nat) (keys : list expr)               (* RemoveStmt{Pos, Keys} *)
  | StDelete (p : nat) (wpos : nat) (w : expr) (lim : option limit_t).   (* DeleteStmt{Pos, Where, Limit} *)

(* the Name of an ORDER BY / GROUP BY item: NameExpr -> its Data, anything else -> String() *)
Definition item_name (e : expr) : string :=
  match e with
  | EName _ s => s
  | _ => render e
  end.

(* ------------------------------------------------------------------ the semantic tests run
   in the middle of parsing; arguments: FieldNames and Fields of the select statement *)
Record hooks := Hooks {
  hk_cycles : list string -> list expr -> option nat;              (* checkFieldCycles *)
  hk_order : list string -> list expr -> expr -> option nat;       (* ORDER BY item *)
  hk_gitem : list string -> list expr -> expr -> option nat;       (* GROUP BY item *)
  hk_gcheck : list string -> list expr -> list expr -> option nat  (* Check of the GROUP BY fields *)
}.

Definition no_hooks : hooks :=
  Hooks (fun _ _ => None) (fun _ _ _ => None) (fun _ _ _ => None) (fun _ _ _ => None).

(* ------------------------------------------------------------------ helpers *)

(* parseExpr at the current token *)
Definition pexpr (ts : list token) : pres expr := parse_expr (fuel_of ts) ts.

(* p.tok.Pos, or -1 when p.tok == nil *)
Definition head_pos (ts : list token) : option nat :=
  match ts with
  | [] => None
  | t :: _ => Some (pos t)
  end.

Definition is_comma (t : token) : bool := is_tp t SEP && (data t =? ",").

(* newNumberExpr: strconv.ParseInt(data, 10, 64), 0 on error; then int(..) *)
Definition limit_val (d : string) : Z :=
  match parse_int d with
  | Some z => z
  | None => 0%Z
  end.

(* ------------------------------------------------------------------ trimEndSemis: the SEMI
   tokens at the end are dropped, but never the first token of the query *)
Fixpoint drop_semis (l : list token) : list token :=
  match l with
  | [] => []
  | t :: l' => if is_tp t SEMI then drop_semis l' else l
  end.

Definition trim_end_semis (ts : list token) : list token :=
  match ts with
  | [] => []
  | t :: r => t :: rev (drop_semis (rev r))
  end.

(* ------------------------------------------------------------------ parseLimit *)

(* the for-loop: NUMBER tokens are collected; a SEP must be followed by a NUMBER *)
Fixpoint limit_loop (acc : list token) (ts : list token) {struct ts} : pres (list token) :=
  match ts with
  | [] => POk acc []
  | t :: ts' =>
      match tp t with
      | NUMBER => limit_loop (acc ++ [t]) ts'
      | SEP =>
          match ts' with
          | [] => PErr (Some (pos t))                     (* prevPos *)
          | t' :: _ => if is_tp t' NUMBER then limit_loop acc ts' else PErr (Some (pos t'))
          end
      | _ => POk acc ts
      end
  end.

Definition parse_limit (ts : list token) : pres limit_t :=
  match ts with
  | [] => PPanic                                           (* p.tok.Pos *)
  | t :: _ =>
      bind (expect LIMIT ts) (fun _ ts1 =>
      bind (limit_loop [] ts1) (fun nums rest =>
        match nums with
        | [] => PErr (head_pos rest)                       (* Invalid limit parameters *)
        | [c] => POk (Limit (pos t) 0%Z (limit_val (data c))) rest
        | [s; c] => POk (Limit (pos t) (limit_val (data s)) (limit_val (data c))) rest
        | _ => PErr (head_pos rest)                        (* Too many limit parameters *)
        end))
  end.

(* ------------------------------------------------------------------ parseSelect *)

Record sel_head := SelHead { sh_pos : nat; sh_all : bool; sh_fields : list expr; sh_names : list string }.

(* `select *`: Model/ErrPos.star_fields = [FieldExpr{0, KeyKW}; FieldExpr{0, ValueKW}] *)
Definition star_names : list string := ["KEY"; "VALUE"].

(* the tail of one loop iteration: the field is appended; at WHERE the loop ends, otherwise
   ONE token (the comma -- or, after an AS name, whatever is there) is skipped *)
Definition select_next (loop : list expr -> list string -> list token -> pres (bool * list expr * list string))
                       (fields : list expr) (names : list string) (ts : list token)
  : pres (bool * list expr * list string) :=
  match ts with
  | [] => POk (false, fields, names) []
  | t :: ts' => if is_tp t WHERE then POk (false, fields, names) ts else loop fields names ts'
  end.

(* the for-loop of parseSelect; result: allFields, fields, fieldNames *)
Fixpoint select_loop (fuel : nat) (fields : list expr) (names : list string) (ts : list token)
         {struct fuel} : pres (bool * list expr * list string) :=
  match fuel with
  | 0 => PFuel
  | S f =>
      match ts with
      | [] => POk (false, fields, names) []
      | t :: ts1 =>
          if is_tp t WHERE then POk (false, fields, names) ts
          else if is_tp t OPERATOR && (data t =? "*") then
            match ts1 with
            | [] =>
                match fields with
                | [] => POk (true, fields, names) []
                | _ => PErr None
                end
            | t1 :: _ =>
                if negb (is_tp t1 WHERE) then PErr (Some (pos t1))
                else match fields with
                     | [] => POk (true, fields, names) ts1
                     | _ => PErr (Some (pos t1))
                     end
            end
          else
            bind (pexpr ts) (fun field ts2 =>
              match ts2 with
              | [] => select_next (select_loop f) (fields ++ [field]) (names ++ [render field]) ts2
              | t2 :: ts3 =>
                  if is_tp t2 AS then
                    match ts3 with
                    | [] => PErr None                                   (* Require field name *)
                    | t3 :: ts4 =>
                        if is_tp t3 NAME
                        then select_next (select_loop f) (fields ++ [field]) (names ++ [data t3]) ts4
                        else PErr (Some (pos t3))                       (* Invalid field name *)
                    end
                  else if is_comma t2 || is_tp t2 WHERE
                  then select_next (select_loop f) (fields ++ [field]) (names ++ [render field]) ts2
                  else PErr (Some (pos t2))                             (* Expect `as` or `,` *)
              end)
      end
  end.

Definition parse_select (ts : list token) : pres sel_head :=
  match ts with
  | [] => PPanic                                           (* p.tok.Pos *)
  | t :: _ =>
      bind (expect SELECT ts) (fun _ ts1 =>
      bind (select_loop (S (length ts1)) [] [] ts1) (fun r rest =>
        let '(all, fields, names) := r in
        if all then POk (SelHead (pos t) true star_fields star_names) rest
        else match fields with
             | [] => PErr (Some (pos t))                   (* Empty fields in select statement *)
             | _ => POk (SelHead (pos t) false fields names) rest
             end))
  end.

(* ------------------------------------------------------------------ parseOrderBy *)

Section WithHooks.
Variable h : hooks.
Variable names : list string.   (* selStmt.FieldNames *)
Variable fields : list expr.    (* selStmt.Fields *)

Fixpoint order_loop (fuel : nat) (acc : list (expr * dir)) (ts : list token) {struct fuel}
  : pres (list (expr * dir)) :=
  match fuel with
  | 0 => PFuel
  | S f =>
      match ts with
      | [] => POk acc []
      | _ :: _ =>
          bind (pexpr ts) (fun e ts1 =>
            match hk_order h names fields e with
            | Some p => PErr (Some p)                      (* findFieldInSelect *)
            | None =>
                match ts1 with
                | [] => POk (acc ++ [(e, DAsc)]) []
                | t1 :: ts2 =>
                    if is_tp t1 SEP then order_loop f (acc ++ [(e, DAsc)]) ts2
                    else if is_tp t1 ASC || is_tp t1 DESC then
                      let d := if is_tp t1 ASC then DAsc else DDesc in
                      match ts2 with
                      | [] => POk (acc ++ [(e, d)]) []
                      | t2 :: ts3 =>
                          if is_tp t2 SEP then order_loop f (acc ++ [(e, d)]) ts3
                          else POk (acc ++ [(e, d)]) ts2
                      end
                    else POk (acc ++ [(e, DAsc)]) ts1
                end
            end)
      end
  end.

Definition parse_order_by (ts : list token) : pres order_t :=
  match ts with
  | [] => PPanic                                           (* p.tok.Pos *)
  | t :: _ =>
      bind (expect ORDER ts) (fun _ ts1 =>
      bind (expect BY ts1) (fun _ ts2 =>
      bind (order_loop (S (length ts2)) [] ts2) (fun items rest =>
        POk (Order (pos t) items) rest)))
  end.

(* ------------------------------------------------------------------ parseGroupBy *)

(* the per-item test of parseGroupBy: a FieldExpr item (key / value) is taken as it is; a name,
   a call or any other expression is looked up in the select statement *)
Definition gitem_test (e : expr) : option nat :=
  match e with
  | EField _ _ => None
  | _ => hk_gitem h names fields e
  end.

Fixpoint group_loop (fuel : nat) (acc : list expr) (ts : list token) {struct fuel}
  : pres (list expr) :=
  match fuel with
  | 0 => PFuel
  | S f =>
      match ts with
      | [] => POk acc []
      | _ :: _ =>
          bind (pexpr ts) (fun e ts1 =>
            match gitem_test e with
            | Some p => PErr (Some p)
            | None =>
                match ts1 with
                | [] => POk (acc ++ [e]) []
                | t1 :: ts2 =>
                    if is_tp t1 SEP then group_loop f (acc ++ [e]) ts2
                    else POk (acc ++ [e]) ts1
                end
            end)
      end
  end.

Definition parse_group_by (ts : list token) : pres group_t :=
  match ts with
  | [] => PPanic                                           (* p.tok.Pos *)
  | t :: _ =>
      bind (expect GROUP ts) (fun _ ts1 =>
      bind (expect BY ts1) (fun _ ts2 =>
      bind (group_loop (S (length ts2)) [] ts2) (fun items rest =>
        match hk_gcheck h names fields items with
        | Some p => PErr (Some p)                          (* f.Expr.Check(ctx) *)
        | None => POk (Group (pos t) items) rest
        end)))
  end.

(* ------------------------------------------------------------------ the ORDER / GROUP / LIMIT
   loop at the end of Parse *)

Record tails := Tails { t_order : option order_t; t_group : option group_t; t_limit : option limit_t }.

Fixpoint tail_loop (fuel : nat) (acc : tails) (ts : list token) {struct fuel} : pres tails :=
  match fuel with
  | 0 => PFuel
  | S f =>
      match ts with
      | [] => POk acc []
      | t :: _ =>
          if is_tp t ORDER then
            match t_order acc with
            | Some _ => PErr (Some (pos t))                (* Duplicate order by expression *)
            | None =>
                bind (parse_order_by ts) (fun o rest =>
                  match o_items o with
                  | [] => PErr (Some (o_pos o))            (* Require order by fields *)
                  | _ => tail_loop f (Tails (Some o) (t_group acc) (t_limit acc)) rest
                  end)
            end
          else if is_tp t GROUP then
            match t_group acc with
            | Some _ => PErr (Some (pos t))                (* Duplicate group by expression *)
            | None =>
                bind (parse_group_by ts) (fun g rest =>
                  match g_items g with
                  | [] => PErr (Some (g_pos g))            (* Require group by fields *)
                  | _ => tail_loop f (Tails (t_order acc) (Some g) (t_limit acc)) rest
                  end)
            end
          else if is_tp t LIMIT then
            match t_limit acc with
            | Some _ => PErr (Some (pos t))                (* Duplicate limit expression *)
            | None =>
                bind (parse_limit ts) (fun l rest =>
                  match rest with
                  | [] => tail_loop f (Tails (t_order acc) (t_group acc) (Some l)) rest
                  | t' :: _ => PErr (Some (pos t'))        (* Has more expression in limit expression *)
                  end)
            end
          else PErr (Some (pos t))                         (* Missing operator *)
      end
  end.

End WithHooks.

(* ------------------------------------------------------------------ parsePut *)

Definition parse_put_pair (ts : list token) : pres (expr * expr) :=
  bind (expect LPAREN ts) (fun _ ts1 =>
  bind (pexpr ts1) (fun k ts2 =>
    match ts2 with
    | [] => PErr None                                      (* Unexpected EOF *)
    | t2 :: ts3 =>
        if is_comma t2 then
          bind (pexpr ts3) (fun v ts4 =>
          bind (expect RPAREN ts4) (fun _ ts5 => POk (k, v) ts5))
        else PErr (Some (pos t2))
    end)).

Fixpoint put_loop (fuel : nat) (acc : list (expr * expr)) (ts : list token) {struct fuel}
  : pres (list (expr * expr)) :=
  match fuel with
  | 0 => PFuel
  | S f =>
      match ts with
      | [] => POk acc []
      | _ :: _ =>
          bind (parse_put_pair ts) (fun kv ts1 =>
            match ts1 with
            | [] => POk (acc ++ [kv]) []
            | _ :: _ => bind (expect SEP ts1) (fun _ ts2 => put_loop f (acc ++ [kv]) ts2)
            end)
      end
  end.

Definition parse_put (ts : list token) : pres stmt :=
  match ts with
  | [] => PPanic
  | t :: _ =>
      bind (expect PUT ts) (fun _ ts1 =>
      bind (put_loop (S (length ts1)) [] ts1) (fun pairs rest => POk (StPut (pos t) pairs) rest))
  end.

(* ------------------------------------------------------------------ parseRemove *)

Fixpoint remove_loop (fuel : nat) (acc : list expr) (ts : list token) {struct fuel}
  : pres (list expr) :=
  match fuel with
  | 0 => PFuel
  | S f =>
      match ts with
      | [] => POk acc []
      | _ :: _ =>
          bind (pexpr ts) (fun k ts1 =>
            match ts1 with
            | [] => POk (acc ++ [k]) []
            | _ :: _ => bind (expect SEP ts1) (fun _ ts2 => remove_loop f (acc ++ [k]) ts2)
            end)
      end
  end.

Definition parse_remove (ts : list token) : pres stmt :=
  match ts with
  | [] => PPanic
  | t :: _ =>
      bind (expect REMOVE ts) (fun _ ts1 =>
      bind (remove_loop (S (length ts1)) [] ts1) (fun keys rest => POk (StRemove (pos t) keys) rest))
  end.

(* ------------------------------------------------------------------ parseDelete *)

Definition parse_delete (ts : list token) : pres stmt :=
  match ts with
  | [] => PPanic
  | t :: _ =>
      bind (expect DELETE ts) (fun _ ts1 =>
      bind (expect WHERE ts1) (fun _ ts2 =>
        match ts1 with
        | [] => PPanic                                     (* whereTok.Pos *)
        | tw :: _ =>
            bind (pexpr ts2) (fun w ts3 =>
              match ts3 with
              | [] => POk (StDelete (pos t) (pos tw) w None) []
              | t3 :: _ =>
                  if is_tp t3 LIMIT then
                    bind (parse_limit ts3) (fun l ts4 =>
                      match ts4 with
                      | [] => POk (StDelete (pos t) (pos tw) w (Some l)) []
                      | t4 :: _ => PErr (Some (pos t4))    (* Has more expression *)
                      end)
                  else PErr (Some (pos t3))                (* Missing operator *)
              end)
        end))
  end.

(* ------------------------------------------------------------------ Parser.Parse *)

(* from the token after WHERE on *)
Definition parse_where_tail (h : hooks) (sh : sel_head) (wpos : nat) (ts : list token) : pres stmt :=
  match ts with
  | [] => PErr None                                        (* Expect where statement *)
  | _ :: _ =>
      bind (pexpr ts) (fun w ts1 =>
        match hk_cycles h (sh_names sh) (sh_fields sh) with
        | Some p => PErr (Some p)                          (* checkFieldCycles *)
        | None =>
            bind (tail_loop h (sh_names sh) (sh_fields sh) (S (length ts1)) (Tails None None None) ts1)
              (fun tl rest =>
                 POk (StSelect (Select (sh_pos sh) (sh_all sh) (sh_fields sh) (sh_names sh) wpos w
                                       (t_order tl) (t_group tl) (t_limit tl))) rest)
        end)
  end.

Definition parse_query (h : hooks) (ts0 : list token) : pres stmt :=
  let ts := trim_end_semis ts0 in
  match ts with
  | [] => PErr None                                        (* Expect put, delete, select or where keyword *)
  | t :: ts1 =>
      match tp t with
      | PUT => parse_put ts
      | REMOVE => parse_remove ts
      | DELETE => parse_delete ts
      | SELECT =>
          bind (parse_select ts) (fun sh rest =>
            match rest with
            | [] => PErr None                              (* Expect where keyword *)
            | tw :: rest1 => parse_where_tail h sh (pos tw) rest1
            end)
      | WHERE => parse_where_tail h (SelHead 0 true [] []) (pos t) ts1
      | _ => PErr (Some (pos t))
      end
  end.

(* ------------------------------------------------------------------ outcomes with the error
   position as Go reports it: an integer, -1 = end of input *)

Inductive sres :=
  | SOk (s : stmt)
  | SErr (p : Z)
  | SPanic
  | SFuel.

Definition zpos (p : option nat) : Z :=
  match p with
  | None => (-1)%Z
  | Some n => Z.of_nat n
  end.

Definition parse_with (h : hooks) (ts : list token) : sres :=
  match parse_query h ts with
  | POk s _ => SOk s
  | PErr p => SErr (zpos p)
  | PPanic => SPanic
  | PFuel => SFuel
  end.

(* the pure syntax: Parser.Parse up to the point where the statement has been read, every
   semantic test passing *)
Definition parse_statement (ts : list token) : sres := parse_with no_hooks ts.

(* ------------------------------------------------------------------ every Pos of a statement *)

Definition limit_positions (l : option limit_t) : list nat :=
  match l with Some x => [l_pos x] | None => [] end.

(* positions stored in the statement structs themselves *)
Definition stmt_own_positions (s : stmt) : list nat :=
  match s with
  | StSelect x =>
      s_pos x :: s_wpos x ::
      match s_order x with Some o => [o_pos o] | None => [] end ++
      match s_group x with Some g => [g_pos g] | None => [] end ++
      limit_positions (s_limit x)
  | StPut p _ => [p]
  | StRemove p _ => [p]
  | StDelete p wp _ l => p :: wp :: limit_positions l
  end.

(* the expression trees of a statement *)
Definition stmt_exprs (s : stmt) : list expr :=
  match s with
  | StSelect x =>
      s_fields x ++ [s_where x] ++
      match s_order x with Some o => map fst (o_items o) | None => [] end ++
      match s_group x with Some g => g_items g | None => [] end
  | StPut _ pairs => flat_map (fun kv => [fst kv; snd kv]) pairs
  | StRemove _ keys => keys
  | StDelete _ _ w _ => [w]
  end.

(* every Pos field of a statement: of the statement structs and of all nodes of its trees *)
Definition stmt_positions (s : stmt) : list nat :=
  stmt_own_positions s ++ flat_map positions (stmt_exprs s).

(* ------------------------------------------------------------------ the semantic tests as
   the correspondence reads them off a statement the implementation rejected at offset p
   (Corr/C15.v): a test fails, with that offset, at the first point where it could report it --
   checkFieldCycles the position of a node of a field, findFieldInSelect the position of the
   item or of a select field, the GROUP BY tests a position inside the item or the fields *)
Definition mem_pos (p : nat) (l : list nat) : bool := existsb (Nat.eqb p) l.

Definition observed_hooks (p : nat) : hooks :=
  Hooks
    (fun _ fs => if mem_pos p (flat_map positions fs) then Some p else None)
    (fun _ fs e => if Nat.eqb p (epos e) || mem_pos p (map epos fs) then Some p else None)
    (fun _ fs e => if mem_pos p (positions e) || mem_pos p (map epos fs) then Some p else None)
    (fun _ fs items => if mem_pos p (flat_map positions (fs ++ items)) then Some p else None).
