(* Model/Storage.v -- the storage side of every plan twin (kv.go: Storage / Cursor), shared by
   the write plans (C12) and the storage-traffic model (C13).

   - [store]  : the data, a list of pairs kept sorted by key (byte order, no duplicates);
   - [scall]  : one entry of the call log, in the shape the harness's reference storage records;
   - [sstate] : data + call log + optional fault index;
   - [call]   : THE one function through which every storage operation of every twin goes: it
                appends the entry to the log and tells whether this call is the faulted one
                (the log length before the call equals the fault index);
   - typed operations [st_get st_put st_batch_put st_delete st_batch_delete st_cursor
     cur_seek cur_next], each = [call] + its effect when not faulted;
   - cursors are snapshots: the pairs present at Cursor() time, plus the remaining suffix.
   No proofs here (Proofs/StorageProofs.v). *)
From Coq Require Import List String Bool Arith.
Import ListNotations.
From KV Require Import Base.Bytes.

Set Implicit Arguments.

(* ------------------------------------------------------------------ outcomes *)

(* error classes the properties can see (never message wording) *)
Inductive err :=
  | EStorage          (* an error returned by a Storage / Cursor method (the injected fault) *)
  | EExec             (* expression evaluation failed (ExecuteError and friends) *)
  | ESyntax           (* rejected at parse / check / plan time *)
  | EFuel             (* a twin loop ran out of fuel (never a behaviour of the Go code; theorems exclude it) *)
  | EPanic.           (* the Go code would dereference nil / index out of range here *)

Definition err_code (e : err) : nat :=
  match e with EStorage => 1 | EExec => 2 | ESyntax => 3 | EFuel => 8 | EPanic => 9 end.
Definition err_eqb (a b : err) : bool := Nat.eqb (err_code a) (err_code b).

Inductive res (A : Type) := Ok (a : A) | Err (e : err).
Arguments Ok {A} a.
Arguments Err {A} e.

(* ------------------------------------------------------------------ data *)

Definition kvp := (bytes * bytes)%type.
Definition store := list kvp.

(* Get *)
Fixpoint sget (k : bytes) (st : store) : option bytes :=
  match st with
  | [] => None
  | (k', v') :: st' => if String.eqb k k' then Some v' else sget k st'
  end.

(* Put: overwrite in place, or insert before the first greater key *)
Fixpoint sput (k v : bytes) (st : store) : store :=
  match st with
  | [] => [(k, v)]
  | (k', v') :: st' =>
      match bcompare k k' with
      | Eq => (k, v) :: st'
      | Lt => (k, v) :: (k', v') :: st'
      | Gt => (k', v') :: sput k v st'
      end
  end.

(* Delete *)
Fixpoint sdel (k : bytes) (st : store) : store :=
  match st with
  | [] => []
  | (k', v') :: st' => if String.eqb k k' then sdel k st' else (k', v') :: sdel k st'
  end.

(* BatchPut / BatchDelete of the reference storage: one by one, in the order given *)
Definition sput_all (kvs : list kvp) (st : store) : store :=
  fold_left (fun s kv => sput (fst kv) (snd kv) s) kvs st.
Definition sdel_all (ks : list bytes) (st : store) : store :=
  fold_left (fun s k => sdel k s) ks st.

(* sort.SearchStrings position: the suffix starting at the first key >= k *)
Fixpoint seek_from (k : bytes) (st : store) : store :=
  match st with
  | [] => []
  | (k', v') :: st' => if bltb k' k then seek_from k st' else st
  end.

(* ------------------------------------------------------------------ call log *)

Inductive scall :=
  | CGet (k : bytes)
  | CPut (k v : bytes)
  | CBatchPut (kvs : list kvp)
  | CDelete (k : bytes)
  | CBatchDelete (ks : list bytes)
  | CCursor
  | CSeek (k : bytes)
  | CNext (k : option bytes).      (* the key the cursor is positioned at; None at the end *)

Definition is_write (c : scall) : bool :=
  match c with
  | CPut _ _ | CBatchPut _ | CDelete _ | CBatchDelete _ => true
  | _ => false
  end.

Definition kvp_eqb (a b : kvp) : bool :=
  String.eqb (fst a) (fst b) && String.eqb (snd a) (snd b).
Definition optbytes_eqb (a b : option bytes) : bool :=
  match a, b with
  | None, None => true
  | Some x, Some y => String.eqb x y
  | _, _ => false
  end.

Definition scall_eqb (a b : scall) : bool :=
  match a, b with
  | CGet k, CGet k' => String.eqb k k'
  | CPut k v, CPut k' v' => String.eqb k k' && String.eqb v v'
  | CBatchPut l, CBatchPut l' => list_eqb kvp_eqb l l'
  | CDelete k, CDelete k' => String.eqb k k'
  | CBatchDelete l, CBatchDelete l' => list_eqb String.eqb l l'
  | CCursor, CCursor => true
  | CSeek k, CSeek k' => String.eqb k k'
  | CNext k, CNext k' => optbytes_eqb k k'
  | _, _ => false
  end.

Definition store_eqb (a b : store) : bool := list_eqb kvp_eqb a b.
Definition log_eqb (a b : list scall) : bool := list_eqb scall_eqb a b.

(* ------------------------------------------------------------------ state and [call] *)

Record sstate := SState {
  sdata : store;
  slog : list scall;            (* oldest first *)
  sfault : option nat           (* index into the log at which the call fails *)
}.

Definition sinit (st : store) (fault : option nat) : sstate := SState st [] fault.

Definition faulted (s : sstate) : bool :=
  match sfault s with
  | Some i => Nat.eqb (List.length (slog s)) i
  | None => false
  end.

(* every storage operation: log it, and report whether it is the faulted one *)
Definition call (c : scall) (s : sstate) : bool * sstate :=
  (faulted s, SState (sdata s) (slog s ++ [c]) (sfault s)).

Definition set_data (st : store) (s : sstate) : sstate := SState st (slog s) (sfault s).

(* ------------------------------------------------------------------ typed operations *)

Definition st_get (k : bytes) (s : sstate) : res (option bytes) * sstate :=
  let (f, s') := call (CGet k) s in
  if f then (Err EStorage, s') else (Ok (sget k (sdata s')), s').

Definition st_put (k v : bytes) (s : sstate) : res unit * sstate :=
  let (f, s') := call (CPut k v) s in
  if f then (Err EStorage, s') else (Ok tt, set_data (sput k v (sdata s')) s').

Definition st_batch_put (kvs : list kvp) (s : sstate) : res unit * sstate :=
  let (f, s') := call (CBatchPut kvs) s in
  if f then (Err EStorage, s') else (Ok tt, set_data (sput_all kvs (sdata s')) s').

Definition st_delete (k : bytes) (s : sstate) : res unit * sstate :=
  let (f, s') := call (CDelete k) s in
  if f then (Err EStorage, s') else (Ok tt, set_data (sdel k (sdata s')) s').

Definition st_batch_delete (ks : list bytes) (s : sstate) : res unit * sstate :=
  let (f, s') := call (CBatchDelete ks) s in
  if f then (Err EStorage, s') else (Ok tt, set_data (sdel_all ks (sdata s')) s').

(* snapshot cursor: the pairs at creation time and the part not yet returned *)
Record cursor := Cur { csnap : store; crest : store }.

Definition st_cursor (s : sstate) : res cursor * sstate :=
  let (f, s') := call CCursor s in
  if f then (Err EStorage, s') else (Ok (Cur (sdata s') (sdata s')), s').

Definition cur_seek (k : bytes) (c : cursor) (s : sstate) : res cursor * sstate :=
  let (f, s') := call (CSeek k) s in
  if f then (Err EStorage, s') else (Ok (Cur (csnap c) (seek_from k (csnap c))), s').

Definition cur_next (c : cursor) (s : sstate) : res (option kvp * cursor) * sstate :=
  match crest c with
  | [] =>
      let (f, s') := call (CNext None) s in
      if f then (Err EStorage, s') else (Ok (None, c), s')
  | kv :: rest =>
      let (f, s') := call (CNext (Some (fst kv))) s in
      if f then (Err EStorage, s') else (Ok (Some kv, Cur (csnap c) rest), s')
  end.

(* ------------------------------------------------------------------ log projections *)

Definition writes (l : list scall) : list scall := filter is_write l.
Definition read_only (l : list scall) : bool := forallb (fun c => negb (is_write c)) l.
