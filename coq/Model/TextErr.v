(* Model/TextErr.v -- from an outcome of the text twins to the error VALUE the caller holds:
   the *SyntaxError / *ExecuteError of errors.go with the fields the renderer reads, after
   `err.(QueryBinder).BindQuery(q); SetPadding(pad)` (how README and the CLI print errors).
   Plain Go errors (Value.EOther: errors.New / fmt.Errorf values: json.Marshal failures,
   storage errors) have no rendering code in errors.go: None.  No proofs here
   (Proofs/NoPanicTextProofs.v error_of_text_renders). *)
From Coq Require Import String ZArith.
From KV Require Import Model.Value Model.ErrRender Model.PipelineS.
From KV Require Model.Pipeline.

Definition qerr_of (q msg : string) (pad : Z) (e : Value.err) : option qerror :=
  match e with
  | Value.ESyntax p => Some (QError SyntaxErr q msg (Z.of_nat p) pad)
  | Value.EExec p => Some (QError ExecuteErr q msg (Z.of_nat p) pad)
  | Value.EOther => None
  end.

(* the error of NewOptimizer(q).BuildPlan(store) / of the drain, bound to the query text *)
Definition st_error {A} (q msg : string) (pad : Z) (r : stres A) : option qerror :=
  match r with
  | STReject p => Some (QError SyntaxErr q msg p pad)
  | STBuildErr e => qerr_of q msg pad e
  | STRunErr e => qerr_of q msg pad e
  | _ => None
  end.

(* the same for the write twins (Model/PipelineW.v): BuildPlan's SyntaxError *)
Definition t_error {A} (q msg : string) (pad : Z) (r : Pipeline.tres A) : option qerror :=
  match r with
  | Pipeline.TReject p => Some (QError SyntaxErr q msg p pad)
  | _ => None
  end.
