(* Model/Token.v -- token kinds of lexer.go (shared by the lexer and parser twins). *)
From Coq Require Import String List.

Inductive toktype :=
  | SELECT | WHERE | KEY | VALUE | OPERATOR | STRING | LPAREN | RPAREN | NAME | SEP | NUMBER
  | FLOAT | LIMIT | ORDER | BY | ASC | DESC | TRUE | FALSE | AS | GROUP | IN | BETWEEN | AND
  | LBRACK | RBRACK | PUT | REMOVE | SEMI | OR | DELETE.

(* numeric code = the Go constant *)
Definition toktype_code (t : toktype) : nat :=
  match t with
  | SELECT => 1 | WHERE => 2 | KEY => 3 | VALUE => 4 | OPERATOR => 5 | STRING => 6 | LPAREN => 7
  | RPAREN => 8 | NAME => 9 | SEP => 10 | NUMBER => 11 | FLOAT => 12 | LIMIT => 13 | ORDER => 14
  | BY => 15 | ASC => 16 | DESC => 17 | TRUE => 18 | FALSE => 19 | AS => 20 | GROUP => 21
  | IN => 22 | BETWEEN => 23 | AND => 24 | LBRACK => 25 | RBRACK => 26 | PUT => 27 | REMOVE => 28
  | SEMI => 29 | OR => 30 | DELETE => 31
  end.

Definition toktype_eqb (a b : toktype) : bool := Nat.eqb (toktype_code a) (toktype_code b).

Record token := Tok { tp : toktype; data : string; pos : nat }.

Definition token_eqb (a b : token) : bool :=
  toktype_eqb (tp a) (tp b) && String.eqb (data a) (data b) && Nat.eqb (pos a) (pos b).
