(* Model/Value.v -- dynamic values, result types, outcomes and the float interface of the
   evaluator twins.

   Floats: the evaluator is parametric in a record [fops] of float64 operations with NO
   assumed laws (strconv.ParseFloat, fmt "%f" and the IEEE operations are Go library /
   hardware, not kvql code).  Base/Flt.v instantiates it with Coq's primitive binary64 floats
   for running the twin in the correspondence check. *)
From Coq Require Import List String ZArith Bool.
Import ListNotations.
From KV Require Import Base.Bytes.

Inductive ty := TUnknown | TBool | TStr | TNumber | TIdent | TList | TJson.

Definition ty_eqb (a b : ty) : bool :=
  match a, b with
  | TUnknown, TUnknown | TBool, TBool | TStr, TStr | TNumber, TNumber
  | TIdent, TIdent | TList, TList | TJson, TJson => true
  | _, _ => false
  end.

(* error classes the correspondence compares: ExecuteError / SyntaxError carry a position *)
Inductive err :=
  | EExec (pos : nat)
  | ESyntax (pos : nat)
  | EOther.                       (* plain errors.New / fmt.Errorf / library errors *)

Inductive res (A : Type) :=
  | Ok (a : A)
  | Err (e : err)
  | Panic                          (* where the Go code would panic *)
  | OutOfModel.                    (* input outside what the twin models *)
Arguments Ok {A} a.
Arguments Err {A} e.
Arguments Panic {A}.
Arguments OutOfModel {A}.

Definition bind {A B} (r : res A) (f : A -> res B) : res B :=
  match r with
  | Ok a => f a
  | Err e => Err e
  | Panic => Panic
  | OutOfModel => OutOfModel
  end.
Notation "'do' x <- r ; k" := (bind r (fun x => k)) (at level 200, x name, r at level 100, k at level 200).

(* result of strconv.ParseFloat as seen by the twin *)
Inductive pf (F : Type) := PF_ok (f : F) | PF_err | PF_oom.
Arguments PF_ok {F} f.
Arguments PF_err {F}.
Arguments PF_oom {F}.

Record fops := {
  F : Type;
  fadd : F -> F -> F; fsub : F -> F -> F; fmul : F -> F -> F; fdiv : F -> F -> F;
  fsqrt : F -> F; fabs : F -> F;
  feqb : F -> F -> bool; fltb : F -> F -> bool; fleb : F -> F -> bool;   (* IEEE ==, <, <= *)
  f_of_Z : Z -> F;                 (* float64(int64) *)
  f_trunc : F -> option Z;         (* int64(float64); None outside the int64 range / NaN *)
  f_parse : bytes -> pf F;         (* strconv.ParseFloat(s, 64) *)
  f_fmt : F -> bytes;              (* fmt.Sprintf("%f", x) *)
  f_zero : F; f_one : F;
  f_bits : F -> Z                  (* canonical identity of a value, for comparison by content *)
}.

Section Values.
Variable fo : fops.

Inductive value :=
  | VBytes (b : bytes)             (* []byte *)
  | VStr (s : bytes)               (* string *)
  | VInt (z : Z)                   (* int64 (and int) *)
  | VFlt (f : F fo)                (* float64 *)
  | VBool (b : bool)
  | VStrs (l : list bytes)         (* []string *)
  | VInts (l : list Z)             (* []int64 *)
  | VFlts (l : list (F fo))        (* []float64 *)
  | VExprs (n : nat)               (* a ListExpr evaluates to its []Expression; n = length *)
  | VNil.

(* content of a value as the properties compare it: text as bytes (string and []byte
   identified), numbers by kind and value (floats by their bits), lists structurally *)
Inductive canon :=
  | CText (b : bytes) | CInt (z : Z) | CFlt (bits : Z) | CBool (b : bool)
  | CList (l : list canon) | CNil | COther.

Definition canon_of (v : value) : canon :=
  match v with
  | VBytes b | VStr b => CText b
  | VInt z => CInt z
  | VFlt f => CFlt (f_bits fo f)
  | VBool b => CBool b
  | VStrs l => CList (map CText l)
  | VInts l => CList (map CInt l)
  | VFlts l => CList (map (fun f => CFlt (f_bits fo f)) l)
  | VExprs _ => COther
  | VNil => CNil
  end.

End Values.

Arguments VBytes {fo} b.
Arguments VStr {fo} s.
Arguments VInt {fo} z.
Arguments VFlt {fo} f.
Arguments VBool {fo} b.
Arguments VStrs {fo} l.
Arguments VInts {fo} l.
Arguments VFlts {fo} l.
Arguments VExprs {fo} n.
Arguments VNil {fo}.

Fixpoint canon_eqb (a b : canon) : bool :=
  match a, b with
  | CText x, CText y => String.eqb x y
  | CInt x, CInt y => Z.eqb x y
  | CFlt x, CFlt y => Z.eqb x y
  | CBool x, CBool y => Bool.eqb x y
  | CList x, CList y =>
      (fix go (x y : list canon) : bool :=
         match x, y with
         | [], [] => true
         | a :: x', b :: y' => canon_eqb a b && go x' y'
         | _, _ => false
         end) x y
  | CNil, CNil => true
  | COther, COther => true
  | _, _ => false
  end.
