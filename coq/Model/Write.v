(* Model/Write.v -- executable twin of put_plan.go (PutPlan) and remove_plan.go (RemovePlan),
   and of the part of optimizer.go that builds them (buildPutPlan / buildRemovePlan / BuildPlan:
   the plan is Init()-ed twice, which only resets [executed]).

   Expression evaluation is not modelled here: the twins are parametric in
     E  : the type of expression trees (Model/Ast.expr in the theorems, table indexes in Corr)
     ev : E -> key -> value -> res bytes  =  toString (e.Execute (KVPair{key,value}, ctx))
   Every storage operation goes through Model/Storage.call.  No proofs here. *)
From Coq Require Import List String Bool Arith.
Import ListNotations.
From KV Require Import Base.Bytes Model.Storage.

Set Implicit Arguments.

(* how a finished plan is polled *)
Inductive poll := PNext | PBatch.

(* what one poll returns, projected: the row [n] (Next: []Column{n}; Batch: [][]Column{{n}})
   or nil, and the error *)
Definition pres := (option nat * option err)%type.

Section Write.
Variable E : Type.
Variable ev : E -> bytes -> bytes -> res bytes.

(* ------------------------------------------------------------------ PutPlan *)

(* processKVPair: ekvp := ("",""); key := eval Key ekvp; ekvp.Key = key; value := eval Value ekvp *)
Definition process_kvpair (pr : E * E) : res kvp :=
  match ev (fst pr) EmptyString EmptyString with
  | Err e => Err e
  | Ok key =>
      match ev (snd pr) key EmptyString with
      | Err e => Err e
      | Ok value => Ok (key, value)
      end
  end.

(* for i, kvp := range p.KVPairs { key, value, err := processKVPair; if err != nil return 0, err; kvps[i] = ... } *)
Fixpoint process_kvpairs (prs : list (E * E)) : res (list kvp) :=
  match prs with
  | [] => Ok []
  | pr :: prs' =>
      match process_kvpair pr with
      | Err e => Err e
      | Ok kv =>
          match process_kvpairs prs' with
          | Err e => Err e
          | Ok kvs => Ok (kv :: kvs)
          end
      end
  end.

(* execute: result (n, err) *)
Definition put_execute (prs : list (E * E)) (s : sstate) : (nat * option err) * sstate :=
  match process_kvpairs prs with
  | Err e => ((0, Some e), s)
  | Ok kvps =>
      match kvps with
      | [] => ((0, None), s)                                   (* nkvps == 0 *)
      | [kv] =>                                                (* nkvps == 1: Storage.Put *)
          match st_put (fst kv) (snd kv) s with
          | (Err e, s') => ((0, Some e), s')
          | (Ok _, s') => ((1, None), s')
          end
      | _ =>                                                   (* Storage.BatchPut *)
          match st_batch_put kvps s with
          | (Err e, s') => ((0, Some e), s')
          | (Ok _, s') => ((List.length kvps, None), s')
          end
      end
  end.

(* Next: if !executed { n, err := execute; executed = true; return []Column{n}, err }; return nil, nil *)
Definition put_next (prs : list (E * E)) (executed : bool) (s : sstate) : pres * bool * sstate :=
  if negb executed then
    match put_execute prs s with
    | ((n, e), s') => ((Some n, e), true, s')
    end
  else ((None, None), executed, s).

(* Batch: the same with the row wrapped in a one-row batch *)
Definition put_batch (prs : list (E * E)) (executed : bool) (s : sstate) : pres * bool * sstate :=
  if negb executed then
    match put_execute prs s with
    | ((n, e), s') => ((Some n, e), true, s')
    end
  else ((None, None), executed, s).

(* ------------------------------------------------------------------ RemovePlan *)

(* processKey with ekvp = ("","") *)
Definition process_key (k : E) : res bytes := ev k EmptyString EmptyString.

Fixpoint process_keys (ks : list E) : res (list bytes) :=
  match ks with
  | [] => Ok []
  | k :: ks' =>
      match process_key k with
      | Err e => Err e
      | Ok key =>
          match process_keys ks' with
          | Err e => Err e
          | Ok keys => Ok (key :: keys)
          end
      end
  end.

Definition remove_execute (ks : list E) (s : sstate) : (nat * option err) * sstate :=
  match process_keys ks with
  | Err e => ((0, Some e), s)
  | Ok keys =>
      match keys with
      | [] => ((0, None), s)
      | [k] =>
          match st_delete k s with
          | (Err e, s') => ((0, Some e), s')
          | (Ok _, s') => ((1, None), s')
          end
      | _ =>
          match st_batch_delete keys s with
          | (Err e, s') => ((0, Some e), s')
          | (Ok _, s') => ((List.length keys, None), s')
          end
      end
  end.

Definition remove_next (ks : list E) (executed : bool) (s : sstate) : pres * bool * sstate :=
  if negb executed then
    match remove_execute ks s with
    | ((n, e), s') => ((Some n, e), true, s')
    end
  else ((None, None), executed, s).

Definition remove_batch (ks : list E) (executed : bool) (s : sstate) : pres * bool * sstate :=
  if negb executed then
    match remove_execute ks s with
    | ((n, e), s') => ((Some n, e), true, s')
    end
  else ((None, None), executed, s).

(* ------------------------------------------------------------------ the two plans, polled *)

Inductive wplan :=
  | WPut (prs : list (E * E))
  | WRemove (ks : list E).

(* Init(): p.executed = false.  buildPutPlan/buildRemovePlan call it, BuildPlan calls it again. *)
Definition winit (executed : bool) : bool := false.
Definition wbuild : bool := winit (winit false).

Definition wpoll (pl : wplan) (p : poll) (executed : bool) (s : sstate) : pres * bool * sstate :=
  match pl, p with
  | WPut prs, PNext => put_next prs executed s
  | WPut prs, PBatch => put_batch prs executed s
  | WRemove ks, PNext => remove_next ks executed s
  | WRemove ks, PBatch => remove_batch ks executed s
  end.

Fixpoint run_polls (pl : wplan) (polls : list poll) (executed : bool) (s : sstate)
  : list pres * bool * sstate :=
  match polls with
  | [] => ([], executed, s)
  | p :: polls' =>
      match wpoll pl p executed s with
      | (r, ex', s') =>
          match run_polls pl polls' ex' s' with
          | (rs, ex'', s'') => (r :: rs, ex'', s'')
          end
      end
  end.

(* BuildPlan followed by the polls *)
Definition wexec (pl : wplan) (polls : list poll) (s : sstate) : list pres * sstate :=
  match run_polls pl polls wbuild s with
  | (rs, _, s') => (rs, s')
  end.

End Write.
