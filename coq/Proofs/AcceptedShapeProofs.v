(* Proofs/AcceptedShapeProofs.v -- what the type checker contributes to the round trip of C15:
   every tree the parser twin builds and the checker twin (Model/Checker.v, fixed variant)
   accepts comes out of the checker in the shape [rt_ok] that print_parse needs:
     - the right side of IN is a list, a call or an alias reference (checkWithIn), and a call's
       head is a name (FunctionCallExpr.Check), so it does not print with a leading parenthesis;
     - `!` is not the head of a call (same test) nor of a field access (a NotExpr is Boolean,
       FieldAccessExpr.Check wants JSON / a list / another access);
     - `!` is never a binary operator; BETWEEN keeps its two-element list.
   Then the same for the WHERE tree of every statement text [parse_check] accepts. *)
From Coq Require Import List String ZArith Bool Arith Lia.
Import ListNotations.
From KV Require Import Base.Bytes Base.Num Model.Token Model.Ast Model.Value Model.Eval Model.Checker
                       Proofs.AstInd Proofs.CheckerProofs.
From KV Require Model.ExprParser Proofs.ExprParserProofs.
Open Scope string_scope.

Notation pimg := ExprParser.pimg.
Notation rt_ok := ExprParser.rt_ok.
Notation starts_paren := ExprParser.starts_paren.
Notation is_not := ExprParser.is_not.

Lemma rw_rt_ok names e : rt_ok (rewrite_name names e) = rt_ok e.
Proof. destruct e; cbn; try reflexivity. destruct (get_named names s); reflexivity. Qed.

Lemma rw_list names e q items : rewrite_name names e = EList q items -> e = EList q items.
Proof. destruct e; cbn; try (intros; assumption). destruct (get_named names s); discriminate. Qed.

Lemma rw_call names e p n a : rewrite_name names e = ECall p n a -> e = ECall p n a.
Proof. destruct e; cbn; try (intros; assumption). destruct (get_named names s); discriminate. Qed.

Lemma rw_not names e p r : rewrite_name names e = ENot p r -> e = ENot p r.
Proof. destruct e; cbn; try (intros; assumption). destruct (get_named names s); discriminate. Qed.

Section Shape.
Variable fo : fops.
Variable ctx : cctx.
Notation check := (Checker.check fo true ctx).
Notation rw := (rewrite_name (c_names ctx)).

(* a checked call has a name as its head *)
Lemma check_call_head e p n a : check e = Ok (ECall p n a) -> exists q s, n = EName q s.
Proof.
  intros H. destruct e; cbn [Checker.check] in H.
  - inv_bind H as l1 Hl1 H. inv_bind H as r1 Hr1 H. inv_bind H as u Hu H. discriminate.
  - destruct f; [destruct (c_nokey ctx)|destruct (c_novalue ctx)]; discriminate.
  - discriminate.
  - inv_bind H as r2 Hr2 H. destruct (ty_eqb (rtype r2) TBool); discriminate.
  - destruct e; try discriminate H. inv_bind H as a2 Ha2 H. inversion H; subst. eauto.
  - discriminate.
  - discriminate.
  - discriminate.
  - discriminate.
  - discriminate.
  - destruct l; try discriminate H. inv_bind H as i2 Hi2 H. destruct i2; try discriminate H.
    destruct (first_mistyped (rtype e0) i2); discriminate.
  - inv_bind H as l2 Hl2 H. inv_bind H as f2 Hf2 H. inv_bind H as u Hu H. discriminate.
Qed.

(* only a list is checked into a list *)
Lemma check_list_head e q items2 : check e = Ok (EList q items2) -> exists items, e = EList q items.
Proof.
  intros H. destruct e; cbn [Checker.check] in H.
  - inv_bind H as l1 Hl1 H. inv_bind H as r1 Hr1 H. inv_bind H as u Hu H. discriminate.
  - destruct f; [destruct (c_nokey ctx)|destruct (c_novalue ctx)]; discriminate.
  - discriminate.
  - inv_bind H as r2 Hr2 H. destruct (ty_eqb (rtype r2) TBool); discriminate.
  - destruct e; try discriminate H. inv_bind H as a2 Ha2 H. discriminate.
  - discriminate.
  - discriminate.
  - discriminate.
  - discriminate.
  - discriminate.
  - destruct l; try discriminate H. inv_bind H as i2 Hi2 H. destruct i2; try discriminate H.
    destruct (first_mistyped (rtype e0) i2); inversion H; subst. eauto.
  - inv_bind H as l2 Hl2 H. inv_bind H as f2 Hf2 H. inv_bind H as u Hu H. discriminate.
Qed.

Definition Q (e : expr) : Prop := forall e1, check e = Ok e1 ->
  (pimg e = true -> rt_ok e1 = true) /\
  (forall q items, e = EList q items -> forallb pimg items = true ->
     exists items2, e1 = EList q items2 /\ forallb rt_ok items2 = true).

Lemma items_rt l : Forall Q l -> forallb pimg l = true ->
  forall l2, check_list fo ctx l = Ok l2 -> forallb rt_ok l2 = true.
Proof.
  induction 1 as [|a l Ha Hl IH]; intros Hp l2 H; cbn [check_list] in H.
  - inversion H. reflexivity.
  - cbn [forallb] in Hp. apply andb_prop in Hp. destruct Hp as [Hpa Hpl].
    inv_bind H as a1 Ha1 H. inv_bind H as l3 Hl3 H. inversion H; subst.
    cbn [forallb]. rewrite rw_rt_ok. destruct (Ha a1 Ha1) as [Hq _]. rewrite (Hq Hpa).
    apply IH; assumption.
Qed.

Lemma no_list_part e : (forall q items, e <> EList q items) ->
  forall (ec : expr) q items, e = EList q items -> forallb pimg items = true ->
     exists items2, ec = EList q items2 /\ forallb rt_ok items2 = true.
Proof. intros H ec q items E. exfalso. exact (H q items E). Qed.

Lemma checked_shape : forall e, Q e.
Proof.
  induction e using expr_ind2; intros ec Hc;
    (split; [intros Hp | try (apply no_list_part; intros; discriminate)]).
  - (* EBin *)
    cbn [Checker.check] in Hc. inv_bind Hc as l1 Hl1 Hc. inv_bind Hc as r1 Hr1 Hc.
    inv_bind Hc as u Hu Hc. inversion Hc; subst ec; clear Hc.
    destruct (IHe1 l1 Hl1) as [Ql _]. destruct (IHe2 r1 Hr1) as [Qr Qrl].
    cbn [ExprParser.pimg] in Hp. apply andb_prop in Hp. destruct Hp as [Hpl Hpr].
    pose proof (Ql Hpl) as Hl. rewrite <- (rw_rt_ok (c_names ctx)) in Hl.
    destruct o; try discriminate Hpr;
      try (cbn [ExprParser.rt_ok]; rewrite Hl, rw_rt_ok, (Qr Hpr); reflexivity).
    + (* IN *)
      cbn [ExprParser.rt_ok]. rewrite Hl. cbn [andb].
      destruct u. apply check_in_spec in Hu. destruct Hu as [_ Hu].
      destruct (rw r1) eqn:Er2; try contradiction.
      * (* call *)
        apply rw_call in Er2. subst r1.
        destruct (check_call_head _ _ _ _ Hr1) as (q & s & ->).
        assert (Hpr' : pimg e2 = true).
        { destruct e2; try exact Hpr. cbn [Checker.check] in Hr1. destruct l; try discriminate Hr1.
          inv_bind Hr1 as i2 Hi2 Hr1. destruct i2; try discriminate Hr1.
          destruct (first_mistyped _ _); discriminate Hr1. }
        pose proof (Qr Hpr') as Hr. rewrite Hr. reflexivity.
      * reflexivity.
      * (* list *)
        apply rw_list in Er2. subst r1.
        destruct (check_list_head _ _ _ Hr1) as (items & ->).
        destruct (Qrl _ _ eq_refl Hpr) as (items2 & E & Hi). inversion E; subst. exact Hi.
    + (* BETWEEN *)
      destruct e2; try discriminate Hpr. destruct l as [|lo [|hi [|x l]]]; try discriminate Hpr.
      destruct (Qrl _ _ eq_refl) as (items2 & -> & Hi).
      { cbn [forallb]. rewrite andb_true_r. exact Hpr. }
      cbn [rewrite_name] in *. cbn [ExprParser.rt_ok]. rewrite Hl. cbn [andb].
      destruct u. unfold check_between in Hu.
      destruct items2 as [|lo2 [|hi2 [|x2 items2]]]; try discriminate Hu.
      cbn [forallb] in Hi. rewrite andb_true_r in Hi. exact Hi.
  - destruct f; cbn [Checker.check] in Hc;
      [destruct (c_nokey ctx)|destruct (c_novalue ctx)]; inversion Hc; reflexivity.
  - inversion Hc; reflexivity.
  - cbn [Checker.check] in Hc. inv_bind Hc as r2 Hr2 Hc. inv_bind Hr2 as r1 Hr1 Hr2.
    inversion Hr2; subst r2. destruct (ty_eqb (rtype (rw r1)) TBool); inversion Hc; subst.
    cbn [ExprParser.rt_ok ExprParser.pimg] in *. rewrite rw_rt_ok.
    destruct (IHe r1 Hr1) as [Qr _]. auto.
  - cbn [Checker.check] in Hc. destruct e; try discriminate Hc.
    change (bind (check_list fo ctx args) (fun args2 => Ok (ECall p (EName pos s) args2)) = Ok ec) in Hc.
    inv_bind Hc as a2 Ha2 Hc. inversion Hc; subst.
    cbn [ExprParser.rt_ok ExprParser.pimg ExprParser.is_not] in *. cbn [andb negb].
    apply (items_rt args H); assumption.
  - inversion Hc; reflexivity.
  - inversion Hc; reflexivity.
  - inversion Hc; reflexivity.
  - inversion Hc; reflexivity.
  - inversion Hc; reflexivity.
  - discriminate Hp.
  - (* the list part *)
    intros q items E Hpi. inversion E; subst q items; clear E.
    destruct l as [|x l]; [discriminate Hc|]. rewrite check_list_eq in Hc.
    inv_bind Hc as i2 Hi2 Hc. destruct i2 as [|y i2]; try discriminate Hc.
    destruct (first_mistyped (rtype y) i2); inversion Hc; subst.
    eexists. split; [reflexivity|]. apply (items_rt (x :: l) H Hpi _ Hi2).
  - cbn [Checker.check] in Hc. inv_bind Hc as l2 Hl2 Hc. inv_bind Hl2 as l1 Hl1 Hl2.
    inversion Hl2; subst l2. inv_bind Hc as f2 Hf2 Hc. inv_bind Hc as u Hu Hc. inversion Hc; subst.
    cbn [ExprParser.pimg] in Hp. apply andb_prop in Hp. destruct Hp as [Hpl Hpf].
    destruct (IHe1 l1 Hl1) as [Ql _]. destruct (IHe2 f2 Hf2) as [Qf _].
    cbn [ExprParser.rt_ok]. rewrite rw_rt_ok, (Ql Hpl), (Qf Hpf). cbn [andb]. rewrite andb_true_r.
    destruct (rw l1) eqn:El; try reflexivity.
    unfold check_access_shape in Hu. cbn [rtype is_access] in Hu. discriminate Hu.
Qed.

End Shape.

(* ================================================================== statements *)

Definition cstmt_where (c : Checker.stmt) : option expr :=
  match c with
  | SSelect _ w _ => Some w
  | SDelete w => Some w
  | _ => None
  end.

Lemma check_stmt_where_rt fo c c2 w2 :
  match cstmt_where c with Some w => pimg w = true | None => True end ->
  check_stmt fo true c = Ok c2 -> cstmt_where c2 = Some w2 -> rt_ok w2 = true.
Proof.
  intros Hp H Hw. destruct c as [fields w order|pairs|keys|w]; cbn [cstmt_where] in Hp;
    cbn [check_stmt] in H.
  - unfold check_select in H. inv_bind H as u Hu H. inv_bind H as w1 Hw1 H.
    inv_bind H as u2 Hu2 H. inv_bind H as f2 Hf2 H. inversion H; subst c2.
    cbn [cstmt_where] in Hw. inversion Hw; subst w2. rewrite rw_rt_ok.
    destruct (checked_shape fo _ w w1 Hw1) as [Q1 _]. auto.
  - inv_bind H as p2 Hp2 H. inversion H; subst c2. discriminate Hw.
  - inv_bind H as k2 Hk2 H. inversion H; subst c2. discriminate Hw.
  - inv_bind H as w1 Hw1 H. inv_bind H as u Hu H. inversion H; subst c2.
    cbn [cstmt_where] in Hw. inversion Hw; subst w2.
    destruct (checked_shape fo _ w w1 Hw1) as [Q1 _]. auto.
Qed.

(* ================================================================== the parser's WHERE tree *)
From KV Require Import Model.ExprParser Model.StmtParser Model.Lexer Model.ParseCheck
                       Proofs.ExprParserProofs.

Lemma pbind_ok {A B} (r : pres A) (f : A -> list token -> pres B) b rest :
  ExprParser.bind r f = POk b rest -> exists a ts, r = POk a ts /\ f a ts = POk b rest.
Proof. destruct r; cbn; intros H; try discriminate. eauto. Qed.

Lemma pexpr_pimg ts w r : pexpr ts = POk w r -> pimg w = true.
Proof.
  unfold pexpr. intros H. pose proof (parse_image_thm ts) as Hi. unfold parse_expr_top in Hi.
  rewrite H in Hi. exact Hi.
Qed.

Definition stmt_where_pimg (s : StmtParser.stmt) : Prop :=
  match s with
  | StSelect x => pimg (s_where x) = true
  | StDelete _ _ w _ => pimg w = true
  | _ => True
  end.

Lemma where_tail_pimg h sh wpos ts s rest :
  parse_where_tail h sh wpos ts = POk s rest -> stmt_where_pimg s.
Proof.
  unfold parse_where_tail. destruct ts as [|t ts']; [discriminate|]. intros H.
  apply pbind_ok in H. destruct H as (w & ts1 & Hw & H).
  destruct (hk_cycles h (sh_names sh) (sh_fields sh)); [discriminate|].
  apply pbind_ok in H. destruct H as (tl & r2 & Htl & H). inversion H; subst.
  cbn. exact (pexpr_pimg _ _ _ Hw).
Qed.

Lemma parse_query_where_pimg h ts s rest : parse_query h ts = POk s rest -> stmt_where_pimg s.
Proof.
  unfold parse_query. destruct (trim_end_semis ts) as [|t ts1]; [discriminate|].
  destruct (tp t); try discriminate; intros H.
  - (* SELECT *)
    apply pbind_ok in H. destruct H as (sh & r1 & Hsh & H).
    destruct r1 as [|tw r1]; [discriminate|]. exact (where_tail_pimg _ _ _ _ _ _ H).
  - exact (where_tail_pimg _ _ _ _ _ _ H).
  - (* PUT *)
    unfold parse_put in H. apply pbind_ok in H. destruct H as (u & r1 & Hu & H).
    apply pbind_ok in H. destruct H as (pairs & r2 & Hp & H). inversion H; subst. exact I.
  - unfold parse_remove in H. apply pbind_ok in H. destruct H as (u & r1 & Hu & H).
    apply pbind_ok in H. destruct H as (keys & r2 & Hp & H). inversion H; subst. exact I.
  - (* DELETE *)
    unfold parse_delete in H. apply pbind_ok in H. destruct H as (u & r1 & Hu & H).
    apply pbind_ok in H. destruct H as (u2 & r2 & Hu2 & H).
    destruct r1 as [|tw r1']; [discriminate|].
    apply pbind_ok in H. destruct H as (w & r3 & Hw & H).
    pose proof (pexpr_pimg _ _ _ Hw) as Hpi.
    destruct r3 as [|t3 r3'].
    + inversion H; subst. exact Hpi.
    + destruct (is_tp t3 LIMIT); [|discriminate].
      apply pbind_ok in H. destruct H as (l & r4 & Hl & H).
      destruct r4; [|discriminate]. inversion H; subst. exact Hpi.
Qed.

Lemma to_check_where s c : to_check s = Some c -> stmt_where_pimg s ->
  match cstmt_where c with Some w => pimg w = true | None => True end.
Proof.
  destruct s as [x| | |]; cbn [to_check]; intros H Hp.
  - destruct (negb _); [discriminate|].
    inversion H; subst. exact Hp.
  - inversion H; subst. exact I.
  - inversion H; subst. exact I.
  - inversion H; subst. exact Hp.
Qed.

(* every statement text the library accepts: its checked WHERE tree has the round-trip shape *)
Theorem accepted_where_rt_ok_thm fo re_match fmt_v q s c agg w :
  parse_check fo re_match fmt_v q = PCOk s c agg -> cstmt_where c = Some w -> rt_ok w = true.
Proof.
  unfold parse_check. destruct (pc_oom fo q (lex q)); [discriminate|].
  unfold parse_real, parse_with.
  destruct (parse_query (real_hooks fo) (lex q)) as [s0 rest| | |] eqn:PQ; try discriminate.
  unfold check_parsed. destruct (to_check s0) as [c0|] eqn:TC; [|discriminate].
  destruct (check_stmt fo true c0) as [c2|er| |] eqn:CS; try discriminate;
    [|destruct er; discriminate].
  destruct (check_stmt_calls c2) as [u|er| |]; try discriminate; [|destruct er; discriminate].
  unfold plan_stage. destruct (plan_oom fo re_match fmt_v c2); [discriminate|].
  intros H Hw.
  assert (c = c2) by (destruct (plan_check fo re_match fmt_v s0 c2); inversion H; reflexivity).
  subst c.
  eapply check_stmt_where_rt; [|exact CS|exact Hw].
  eapply to_check_where; [exact TC|]. eapply parse_query_where_pimg. exact PQ.
Qed.

(* ================================================================== every expression of an
   accepted statement: select fields, WHERE, PUT pairs, REMOVE keys *)

Notation allp := (Forall (fun e => pimg e = true)).

Lemma allp_snoc l e : allp l -> pimg e = true -> allp (l ++ [e]).
Proof. intros Hl He. apply Forall_app. split; [exact Hl|]. constructor; [exact He|constructor]. Qed.

Lemma select_loop_pimg : forall fuel fields names ts all fields' names' rest,
  allp fields -> select_loop fuel fields names ts = POk (all, fields', names') rest -> allp fields'.
Proof.
  induction fuel as [|f IH]; intros fields names ts all fields' names' rest Hf H; [discriminate|].
  cbn [select_loop] in H.
  assert (Hnext : forall fs ns ts0, allp fs ->
            select_next (select_loop f) fs ns ts0 = POk (all, fields', names') rest -> allp fields').
  { intros fs ns ts0 Hfs Hn. unfold select_next in Hn. destruct ts0 as [|t0 ts0'].
    - inversion Hn; subst. exact Hfs.
    - destruct (is_tp t0 WHERE); [inversion Hn; subst; exact Hfs|]. exact (IH _ _ _ _ _ _ _ Hfs Hn). }
  destruct ts as [|t ts1]; [inversion H; subst; exact Hf|].
  destruct (is_tp t WHERE); [inversion H; subst; exact Hf|].
  destruct (is_tp t OPERATOR && (data t =? "*")).
  - destruct ts1 as [|t1 ts1'].
    + destruct fields; [inversion H; subst; constructor|discriminate].
    + destruct (negb (is_tp t1 WHERE)); [discriminate|].
      destruct fields; [inversion H; subst; constructor|discriminate].
  - apply pbind_ok in H. destruct H as (field & ts2 & Hfield & H).
    pose proof (allp_snoc _ _ Hf (pexpr_pimg _ _ _ Hfield)) as Hf2.
    destruct ts2 as [|t2 ts3]; [exact (Hnext _ _ _ Hf2 H)|].
    destruct (is_tp t2 AS).
    + destruct ts3 as [|t3 ts4]; [discriminate|]. destruct (is_tp t3 NAME); [|discriminate].
      exact (Hnext _ _ _ Hf2 H).
    + destruct (is_comma t2 || is_tp t2 WHERE); [|discriminate]. exact (Hnext _ _ _ Hf2 H).
Qed.

Lemma parse_select_pimg ts sh rest : parse_select ts = POk sh rest -> allp (sh_fields sh).
Proof.
  unfold parse_select. destruct ts as [|t ts']; [discriminate|]. intros H.
  apply pbind_ok in H. destruct H as (u & ts1 & Hu & H).
  apply pbind_ok in H. destruct H as ([[all fields] names] & r2 & Hl & H).
  apply select_loop_pimg in Hl; [|constructor].
  destruct all.
  - inversion H; subst. cbn. repeat constructor.
  - destruct fields; [discriminate|]. inversion H; subst. exact Hl.
Qed.

Notation allpp := (Forall (fun kv : expr * expr => pimg (fst kv) = true /\ pimg (snd kv) = true)).

Lemma put_pair_pimg ts kv rest : parse_put_pair ts = POk kv rest ->
  pimg (fst kv) = true /\ pimg (snd kv) = true.
Proof.
  unfold parse_put_pair. intros H.
  apply pbind_ok in H. destruct H as (u & ts1 & Hu & H).
  apply pbind_ok in H. destruct H as (k & ts2 & Hk & H).
  destruct ts2 as [|t2 ts3]; [discriminate|]. destruct (is_comma t2); [|discriminate].
  apply pbind_ok in H. destruct H as (v & ts4 & Hv & H).
  apply pbind_ok in H. destruct H as (u2 & ts5 & Hu2 & H). inversion H; subst.
  split; [exact (pexpr_pimg _ _ _ Hk)|exact (pexpr_pimg _ _ _ Hv)].
Qed.

Lemma put_loop_pimg : forall fuel acc ts pairs rest,
  allpp acc -> put_loop fuel acc ts = POk pairs rest -> allpp pairs.
Proof.
  induction fuel as [|f IH]; intros acc ts pairs rest Ha H; [discriminate|].
  cbn [put_loop] in H. destruct ts as [|t ts']; [inversion H; subst; exact Ha|].
  apply pbind_ok in H. destruct H as (kv & ts1 & Hkv & H).
  assert (Ha2 : allpp (acc ++ [kv])).
  { apply Forall_app. split; [exact Ha|]. constructor; [exact (put_pair_pimg _ _ _ Hkv)|constructor]. }
  destruct ts1 as [|t1 ts1']; [inversion H; subst; exact Ha2|].
  apply pbind_ok in H. destruct H as (u & ts2 & Hu & H). exact (IH _ _ _ _ Ha2 H).
Qed.

Lemma remove_loop_pimg : forall fuel acc ts keys rest,
  allp acc -> remove_loop fuel acc ts = POk keys rest -> allp keys.
Proof.
  induction fuel as [|f IH]; intros acc ts keys rest Ha H; [discriminate|].
  cbn [remove_loop] in H. destruct ts as [|t ts']; [inversion H; subst; exact Ha|].
  apply pbind_ok in H. destruct H as (k & ts1 & Hk & H).
  pose proof (allp_snoc _ _ Ha (pexpr_pimg _ _ _ Hk)) as Ha2.
  destruct ts1 as [|t1 ts1']; [inversion H; subst; exact Ha2|].
  apply pbind_ok in H. destruct H as (u & ts2 & Hu & H). exact (IH _ _ _ _ Ha2 H).
Qed.

(* every expression the statement parser hands to the checker is a tree of the parser's image *)
Definition stmt_pimg (s : StmtParser.stmt) : Prop :=
  match s with
  | StSelect x => allp (s_fields x) /\ pimg (s_where x) = true
  | StPut _ pairs => allpp pairs
  | StRemove _ keys => allp keys
  | StDelete _ _ w _ => pimg w = true
  end.

Lemma where_tail_stmt_pimg h sh wpos ts s rest :
  allp (sh_fields sh) -> parse_where_tail h sh wpos ts = POk s rest -> stmt_pimg s.
Proof.
  unfold parse_where_tail. destruct ts as [|t ts']; [discriminate|]. intros Hf H.
  apply pbind_ok in H. destruct H as (w & ts1 & Hw & H).
  destruct (hk_cycles h (sh_names sh) (sh_fields sh)); [discriminate|].
  apply pbind_ok in H. destruct H as (tl & r2 & Htl & H). inversion H; subst.
  cbn. split; [exact Hf|exact (pexpr_pimg _ _ _ Hw)].
Qed.

Lemma parse_query_stmt_pimg h ts s rest : parse_query h ts = POk s rest -> stmt_pimg s.
Proof.
  unfold parse_query. destruct (trim_end_semis ts) as [|t ts1]; [discriminate|].
  destruct (tp t) eqn:Etp; try discriminate; intros H.
  - apply pbind_ok in H. destruct H as (sh & r1 & Hsh & H).
    destruct r1 as [|tw r1]; [discriminate|].
    exact (where_tail_stmt_pimg _ _ _ _ _ _ (parse_select_pimg _ _ _ Hsh) H).
  - apply (where_tail_stmt_pimg _ _ _ _ _ _) in H; [exact H|constructor].
  - unfold parse_put in H. apply pbind_ok in H. destruct H as (u & r1 & Hu & H).
    apply pbind_ok in H. destruct H as (pairs & r2 & Hp & H). inversion H; subst.
    cbn. apply put_loop_pimg in Hp; [exact Hp|constructor].
  - unfold parse_remove in H. apply pbind_ok in H. destruct H as (u & r1 & Hu & H).
    apply pbind_ok in H. destruct H as (keys & r2 & Hp & H). inversion H; subst.
    cbn. apply remove_loop_pimg in Hp; [exact Hp|constructor].
  - unfold parse_delete in H.
    apply pbind_ok in H. destruct H as (u & r1 & Hu & H).
    apply pbind_ok in H. destruct H as (u2 & r2 & Hu2 & H).
    destruct r1 as [|tw r1']; [discriminate|].
    apply pbind_ok in H. destruct H as (w & r3 & Hw & H).
    pose proof (pexpr_pimg _ _ _ Hw) as Hpi.
    destruct r3 as [|t3 r3'].
    + inversion H; subst. exact Hpi.
    + destruct (is_tp t3 LIMIT); [|discriminate].
      apply pbind_ok in H. destruct H as (l & r4 & Hl & H).
      destruct r4; [|discriminate]. inversion H; subst. exact Hpi.
Qed.

Notation allrt := (Forall (fun e => rt_ok e = true)).

Lemma validate_fields_rt fo all : forall todo r,
  allp (map snd todo) -> validate_fields fo true all todo = Ok r -> allrt (map snd r).
Proof.
  induction todo as [|[n f] todo IH]; intros r Hp H; cbn [validate_fields] in H.
  - inversion H; subst. constructor.
  - cbn [map snd] in Hp. inversion Hp as [|? ? Hpf Hpt]; subst.
    inv_bind H as f2 Hf2 H. inv_bind H as u Hu H. inv_bind H as r2 Hr2 H. inversion H; subst.
    cbn [map snd]. constructor; [|exact (IH _ Hpt Hr2)].
    destruct (checked_shape fo _ f f2 Hf2) as [Q1 _]. auto.
Qed.

Lemma check_pairs_rt fo : forall l r, allpp l -> check_pairs fo true l = Ok r ->
  allrt (flat_map (fun kv => [fst kv; snd kv]) r).
Proof.
  induction l as [|kv l IH]; intros r Hp H; cbn [check_pairs] in H.
  - inversion H; subst. constructor.
  - inversion Hp as [|? ? [Hk Hv] Hpt]; subst.
    inv_bind H as kv2 Hkv2 H. inv_bind H as l2 Hl2 H. inversion H; subst.
    unfold check_pair in Hkv2. inv_bind Hkv2 as k2 Hk2 Hkv2. inv_bind Hkv2 as u Hu Hkv2.
    inv_bind Hkv2 as v2 Hv2 Hkv2. inv_bind Hkv2 as u2 Hu2 Hkv2. inversion Hkv2; subst.
    cbn [flat_map fst snd app]. constructor; [|constructor; [|exact (IH _ Hpt Hl2)]].
    + destruct (checked_shape fo _ _ _ Hk2) as [Q1 _]. auto.
    + destruct (checked_shape fo _ _ _ Hv2) as [Q1 _]. auto.
Qed.

Lemma check_keys_rt fo : forall l r, allp l -> check_keys fo true l = Ok r -> allrt r.
Proof.
  induction l as [|k l IH]; intros r Hp H; cbn [check_keys] in H.
  - inversion H; subst. constructor.
  - inversion Hp as [|? ? Hk Hpt]; subst.
    inv_bind H as u Hu H. inv_bind H as k2 Hk2 H. inv_bind H as l2 Hl2 H. inversion H; subst.
    constructor; [|exact (IH _ Hpt Hl2)].
    destruct (checked_shape fo _ _ _ Hk2) as [Q1 _]. auto.
Qed.

Lemma map_snd_combine_allp (names : list string) : forall fields,
  allp fields -> allp (map snd (combine names fields)).
Proof.
  induction names as [|n names IH]; intros fields Hf; [constructor|].
  destruct fields as [|f fields]; [constructor|]. inversion Hf; subst.
  cbn [combine map snd]. constructor; auto.
Qed.

Theorem accepted_exprs_rt_ok_thm fo re_match fmt_v q s c agg :
  parse_check fo re_match fmt_v q = PCOk s c agg -> allrt (cstmt_exprs c).
Proof.
  unfold parse_check. destruct (pc_oom fo q (lex q)); [discriminate|].
  unfold parse_real, parse_with.
  destruct (parse_query (real_hooks fo) (lex q)) as [s0 rest| | |] eqn:PQ; try discriminate.
  unfold check_parsed. destruct (to_check s0) as [c0|] eqn:TC; [|discriminate].
  destruct (check_stmt fo true c0) as [c2|er| |] eqn:CS; try discriminate;
    [|destruct er; discriminate].
  destruct (check_stmt_calls c2) as [u|er| |]; try discriminate; [|destruct er; discriminate].
  unfold plan_stage. destruct (plan_oom fo re_match fmt_v c2); [discriminate|].
  intros H.
  assert (c = c2) by (destruct (plan_check fo re_match fmt_v s0 c2); inversion H; reflexivity).
  subst c. clear H.
  pose proof (parse_query_stmt_pimg _ _ _ _ PQ) as Hp.
  destruct s0 as [x|p pairs|p keys|p wp w l]; cbn [to_check] in TC.
  - destruct (negb _); [discriminate|]. inversion TC; subst c0. clear TC.
    destruct Hp as [Hpf Hpw]. cbn [check_stmt] in CS. unfold check_select in CS.
    inv_bind CS as u1 Hu1 CS. inv_bind CS as w1 Hw1 CS. inv_bind CS as u2 Hu2 CS.
    inv_bind CS as f2 Hf2 CS. inversion CS; subst c2. cbn [cstmt_exprs].
    apply Forall_app. split.
    + eapply validate_fields_rt; [|exact Hf2]. apply map_snd_combine_allp. exact Hpf.
    + constructor; [|constructor]. rewrite rw_rt_ok.
      destruct (checked_shape fo _ _ _ Hw1) as [Q1 _]. auto.
  - inversion TC; subst c0. cbn [check_stmt] in CS. inv_bind CS as p2 Hp2 CS. inversion CS; subst c2.
    cbn [cstmt_exprs]. exact (check_pairs_rt fo _ _ Hp Hp2).
  - inversion TC; subst c0. cbn [check_stmt] in CS. inv_bind CS as k2 Hk2 CS. inversion CS; subst c2.
    cbn [cstmt_exprs]. exact (check_keys_rt fo _ _ Hp Hk2).
  - inversion TC; subst c0. cbn [check_stmt] in CS. inv_bind CS as w1 Hw1 CS.
    inv_bind CS as u1 Hu1 CS. inversion CS; subst c2. cbn [cstmt_exprs].
    constructor; [|constructor]. destruct (checked_shape fo _ _ _ Hw1) as [Q1 _]. auto.
Qed.
