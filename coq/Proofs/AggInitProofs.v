(* Proofs/AggInitProofs.v -- theorems about Model/AggInit.v (the Init chain of an aggregated
   SELECT: FinalOrderPlan.Init, AggregatePlan.Init, the aggregate function constructors) and
   about the composite [parse_check_agg] = Model/ParseCheck.v's front end + that chain.

     A. positions (C17)   init_check_err_position: a positional error of the Init chain carries
                          the Pos of a node of the checked statement (never an invented 0);
                          parse_check_agg_err_position / _init_err_position: for EVERY query text,
                          whatever rejects it -- syntax, mid-parse test, checker, call validation,
                          plan builder, Init chain -- the position is -1, 0 or a token start and
                          lies inside the query.
     B. totality (C06)    init_check_never_panics: the unguarded `args[1]` of
                          newAggrQuantileFunc / newAggrGroupConcatFunc is never reached with fewer
                          than two arguments (the count is tested first), the evaluation of the
                          constant argument never panics; parse_check_agg_total.
     C. before storage    by construction: [init_check] is a function of the statement alone; the
        (C13 / C14)       first storage call of the chain (Cursor) comes after it returns nil.
     D. arity (C14)       agg_arity_rejected: with the repaired call validation, a statement that
                          parse_check_agg accepts holds no aggregate call with a wrong argument
                          count anywhere in its select fields or its WHERE clause;
                          the pinned validation does: Properties/C14.v keeps the witness.
     E. relation to parse_check. *)
From Coq Require Import String List Arith Bool ZArith Lia.
Import ListNotations.
From KV Require Import Model.ErrRender Spec.CaretSpec.
From KV Require Import Base.Bytes Base.Num Model.Token Model.Ast Model.Lexer
                       Model.ExprParser Model.ErrPos Model.StmtParser
                       Proofs.ErrPosProofs Proofs.StmtParserProofs Proofs.ParsePosProofs.
From KV Require Import Model.Value Model.Eval Model.ParseCheck Model.AggInit.
From KV Require Import Proofs.ParseCheckProofs Proofs.ExecPosProofs Proofs.NoPanicProofs.
From KV Require Model.Checker Proofs.CheckerProofs Model.FoldStmt.
Local Open Scope list_scope.
Set Warnings "-unused-intro-pattern".

(* ================================================================ the aggregate table *)

Lemma aggr_info_of_rtype nm t : aggr_rtype nm = Some t -> exists i, aggr_info nm = Some i.
Proof.
  unfold aggr_rtype, aggr_info.
  repeat match goal with
         | |- context [String.eqb nm ?s] => destruct (String.eqb nm s)
         end; cbn [orb]; intros E; try discriminate; eexists; reflexivity.
Qed.

Lemma aggr_info_none_rtype nm : aggr_info nm = None -> aggr_rtype nm = None.
Proof.
  unfold aggr_rtype, aggr_info.
  repeat match goal with
         | |- context [String.eqb nm ?s] => destruct (String.eqb nm s)
         end; cbn [orb]; intros E; try discriminate; reflexivity.
Qed.

(* the two constructors that index args[1] belong to functions declared with two arguments *)
Lemma aggr_info_quantile : aggr_info "quantile" = Some (2, false).
Proof. reflexivity. Qed.
Lemma aggr_info_group_concat : aggr_info "group_concat" = Some (2, false).
Proof. reflexivity. Qed.

(* ================================================================ A. positions *)

Section Positions.
Variable fo : fops.
Variable re : bytes -> bytes -> res bool.
Variable fmt_v : F fo -> string.
Variable fxq : bool.
Hypothesis re_ok : re_plain re.
Variable Q : nat -> Prop.

Notation APq := (AP Q).

Lemma AP_epos_in e : APq e -> Q (epos e).
Proof. intros H. unfold AP in H. rewrite Forall_forall in H. apply H. apply epos_in_positions. Qed.

Lemma const_arg_okp a : APq a -> okp Q (const_arg fo re a).
Proof.
  intros H. unfold const_arg. unfold AP in H. rewrite Forall_forall in H.
  destruct (eval fo re "" "" a) as [v|[p|p|]| |] eqn:E; cbn [okp]; try exact I.
  - apply H. exact (eval_err_position_lemma fo re re_ok _ _ _ _ E).
  - apply H. exact (eval_err_position_syntax_lemma fo re re_ok _ _ _ _ E).
Qed.

Lemma nth_error_AP (args : list expr) i a : Forall APq args -> nth_error args i = Some a -> APq a.
Proof. intros H E. rewrite Forall_forall in H. apply H. eapply nth_error_In; exact E. Qed.

Lemma body_check_okp nm args : Forall APq args -> okp Q (body_check fo re fxq nm args).
Proof.
  intros H. unfold body_check.
  destruct (String.eqb nm "quantile").
  - destruct (nth_error args 1) as [a|] eqn:Ea; [|exact I].
    pose proof (nth_error_AP _ _ _ H Ea) as Ha.
    destruct (negb (ty_eqb (rtype a) TNumber)); [exact (AP_epos_in a Ha)|].
    apply okp_bind; [apply const_arg_okp; exact Ha|].
    intros v. destruct v; try exact (AP_epos_in a Ha).
    destruct (quantile_param_ok fo fxq f); [exact I|exact (AP_epos_in a Ha)].
  - destruct (String.eqb nm "group_concat"); [|exact I].
    destruct (nth_error args 1) as [a|] eqn:Ea; [|exact I].
    pose proof (nth_error_AP _ _ _ H Ea) as Ha.
    destruct (negb (ty_eqb (rtype a) TStr)); [exact (AP_epos_in a Ha)|].
    apply okp_bind; [apply const_arg_okp; exact Ha|]. intros _. exact I.
Qed.

Lemma aggr_call_check_okp c : APq c -> okp Q (aggr_call_check fo re fxq c).
Proof.
  intros H. destruct c; try exact I. cbn [aggr_call_check].
  destruct (AP_call_inv Q _ _ _ H) as (Hp & _ & Hargs).
  destruct c; try exact I.
  destruct (call_name (EName pos0 s)) as [nm|]; [|exact I].
  destruct (aggr_rtype nm); [|exact I].
  destruct (aggr_info nm) as [[nargs varargs]|]; [|exact Hp].
  match goal with |- okp _ (if ?b then _ else _) => destruct b end; [exact Hp|].
  apply okp_bind; [apply body_check_okp; exact Hargs|]. intros _. exact I.
Qed.

Lemma spine_calls_AP : forall e, APq e -> Forall APq (spine_calls e).
Proof.
  induction e using CheckerProofs.expr_induction; intros HA; cbn [spine_calls]; try constructor.
  - destruct (AP_bin_inv Q _ _ _ _ HA) as (_ & Hl & Hr). apply Forall_app. split; auto.
  - exact HA.
  - constructor.
Qed.

Lemma aggr_calls_check_okp l : Forall APq l -> okp Q (aggr_calls_check fo re fxq l).
Proof.
  intros H. induction H as [|c l Hc Hl IH]; cbn [aggr_calls_check]; [exact I|].
  apply okp_bind; [apply aggr_call_check_okp; exact Hc|]. intros _. exact IH.
Qed.

Lemma agg_field_check_okp f : APq f -> okp Q (agg_field_check fo re fxq f).
Proof.
  intros H. destruct f; try exact I; cbn [agg_field_check];
    apply aggr_calls_check_okp; apply spine_calls_AP; exact H.
Qed.

Lemma agg_init_check_okp fields : Forall APq fields -> okp Q (agg_init_check fo re fxq fields).
Proof.
  intros H. induction H as [|f l Hf Hl IH]; cbn [agg_init_check]; [exact I|].
  apply okp_bind; [apply agg_field_check_okp; exact Hf|]. intros _. exact IH.
Qed.

Lemma order_init_check_okp names order : Forall Q (map fst order) -> okp Q (order_init_check names order).
Proof.
  induction order as [|[p n] order IH]; cbn [order_init_check map fst]; intros H; [exact I|].
  inversion H as [|? ? Hp Hrest]; subst.
  destruct (existsb (String.eqb n) names); [exact (IH Hrest)|exact Hp].
Qed.

Lemma fold_fields_AP fields :
  names_ok Q fields -> Forall APq (map snd (fold_fields fo re fmt_v fields)).
Proof.
  intros H. unfold fold_fields. rewrite map_map. cbn [snd]. apply Forall_map.
  eapply Forall_impl; [|exact H]. intros [n f] Hf. cbn [snd] in *.
  unfold AP in *. eapply Forall_incl; [apply exec_tree_positions_lemma|exact Hf].
Qed.

Lemma init_check_okp c : cstmt_ok Q c -> okp Q (init_check fo re fmt_v fxq c).
Proof.
  intros H. destruct c as [fields w order| | |]; try exact I. cbn [init_check].
  pose proof H as H'. apply cstmt_ok_select in H'. destruct H' as (Hf & _ & Ho).
  apply okp_bind.
  - apply order_init_check_okp. apply Forall_map. exact Ho.
  - intros _. apply agg_init_check_okp. apply fold_fields_AP. exact Hf.
Qed.

End Positions.

(* the Init chain invents no position: a positional error carries the Pos of a node of the
   checked statement (of a select field, or of an ORDER BY item) *)
Theorem init_check_err_position_lemma fo re fmt_v fxq (c : Checker.stmt) :
  re_plain re ->
  forall p, (init_check fo re fmt_v fxq c = Err (EExec p) \/ init_check fo re fmt_v fxq c = Err (ESyntax p)) ->
  In p (cstmt_positions c).
Proof.
  intros Hre p Hp.
  assert (Hc : cstmt_ok (fun x => In x (cstmt_positions c)) c).
  { unfold cstmt_ok. apply Forall_forall. auto. }
  pose proof (init_check_okp fo re fmt_v fxq Hre _ c Hc) as H.
  destruct Hp as [E|E]; rewrite E in H; exact H.
Qed.

(* ================================================================ the repaired call validation *)

Section CallsFx.
Variable Q : nat -> Prop.
Notation APq := (AP Q).

(* as ParseCheckProofs.okr, with ExecuteErrors allowed too, at Q-positions: the repaired
   validation reports an aggregate argument count with the error AggregatePlan.Init used *)
Definition okx {A} (R : A -> Prop) (r : res A) : Prop :=
  match r with
  | Ok a => R a
  | Err (ESyntax p) => Q p
  | Err (EExec p) => Q p
  | Err EOther => False
  | Panic => False
  | OutOfModel => True
  end.

Lemma okx_bind {A B} (RA : A -> Prop) (RB : B -> Prop) (r : res A) (k : A -> res B) :
  okx RA r -> (forall a, RA a -> okx RB (k a)) -> okx RB (Value.bind r k).
Proof. intros H Hk. destruct r as [a|[]| |]; cbn [Value.bind okx] in *; auto. Qed.

Lemma okr_okx {A} (R : A -> Prop) (r : res A) : okr Q R r -> okx R r.
Proof. destruct r as [a|[]| |]; cbn [okr okx]; try tauto; auto. Qed.

Lemma calls_list_false_okr l : Forall APq l -> okr Q anyu (calls_list_false l).
Proof.
  intros H. induction H as [|a l Ha Hl IH]; cbn [calls_list_false]; [exact I|].
  eapply okr_bind; [apply check_calls_ok; exact Ha|]. intros _ _. exact IH.
Qed.

Lemma check_calls_fx_ok : forall e, APq e -> okx anyu (check_calls_fx e).
Proof.
  induction e using CheckerProofs.expr_induction; intros HA;
    try (apply okr_okx; apply (check_calls_ok Q _ true); exact HA).
  - cbn [check_calls_fx]. destruct (AP_bin_inv Q _ _ _ _ HA) as (_ & Hl & Hr).
    eapply okx_bind; [exact (IHe1 Hl)|]. intros _ _. exact (IHe2 Hr).
  - cbn [check_calls_fx]. destruct (AP_call_inv Q _ _ _ HA) as (Hp & Hn & Hargs).
    destruct e; try exact Hp.
    destruct (call_name (EName pos s)) as [nm|]; [|exact I].
    eapply (okx_bind anyu).
    + destruct (func_info nm) as [[[nargs varargs] t]|].
      * destruct (arity_bad nargs varargs (length args)); [exact Hp|exact I].
      * destruct (aggr_info nm) as [[nargs varargs]|]; [|exact Hp].
        destruct (arity_bad nargs varargs (length args)); [exact Hp|exact I].
    + intros _ _. apply okr_okx. apply calls_list_false_okr. exact Hargs.
Qed.

Lemma calls_fields_fx_ok l : names_ok Q l -> okx anyu (calls_fields_fx l).
Proof.
  intros H. induction H as [|[n f] l Hf Hl IH]; cbn [calls_fields_fx]; [exact I|].
  eapply okx_bind; [apply check_calls_fx_ok; exact Hf|]. intros _ _. exact IH.
Qed.

Lemma check_stmt_calls_fx_ok s : cstmt_ok Q s -> okx anyu (check_stmt_calls_fx s).
Proof.
  intros H. destruct s as [fields w order|pairs|keys|w];
    try (apply okr_okx; apply check_stmt_calls_ok; exact H).
  cbn [check_stmt_calls_fx]. apply cstmt_ok_select in H. destruct H as (Hf & Hw & _).
  eapply okx_bind; [apply okr_okx; apply check_calls_ok; exact Hw|]. intros _ _. apply calls_fields_fx_ok. exact Hf.
Qed.

Lemma stmt_calls_ok fxa s : cstmt_ok Q s -> okx anyu (stmt_calls fxa s).
Proof.
  intros H. unfold stmt_calls.
  destruct fxa; [apply check_stmt_calls_fx_ok|apply okr_okx; apply check_stmt_calls_ok]; exact H.
Qed.

End CallsFx.

(* ================================================================ B. totality *)

Section Total.
Variable fo : fops.
Variable re : bytes -> bytes -> res bool.
Variable fmt_v : F fo -> string.
Variable fxq : bool.
Hypothesis re_safe : forall p t, safe (re p t).

Lemma const_arg_safe a : const_arg fo re a <> Panic.
Proof. unfold const_arg. apply eval_never_panics. exact re_safe. Qed.

(* with two arguments at hand the constructors never panic *)
Lemma body_check_safe nm args :
  (String.eqb nm "quantile" = true \/ String.eqb nm "group_concat" = true -> 2 <= length args) ->
  body_check fo re fxq nm args <> Panic.
Proof.
  intros Hlen. unfold body_check.
  destruct (String.eqb nm "quantile") eqn:Eq.
  - assert (H2 : 2 <= length args) by (apply Hlen; left; reflexivity).
    destruct args as [|a0 [|a1 rest]]; cbn [length] in H2; try lia. cbn [nth_error].
    destruct (negb (ty_eqb (rtype a1) TNumber)); [discriminate|].
    pose proof (const_arg_safe a1) as Hs.
    destruct (const_arg fo re a1) as [v| | |]; cbn [Value.bind]; try discriminate; try contradiction.
    destruct v; try discriminate. destruct (quantile_param_ok fo fxq f); discriminate.
  - destruct (String.eqb nm "group_concat") eqn:Eg; [|discriminate].
    assert (H2 : 2 <= length args) by (apply Hlen; right; reflexivity).
    destruct args as [|a0 [|a1 rest]]; cbn [length] in H2; try lia. cbn [nth_error].
    destruct (negb (ty_eqb (rtype a1) TStr)); [discriminate|].
    pose proof (const_arg_safe a1) as Hs.
    destruct (const_arg fo re a1) as [v| | |]; cbn [Value.bind]; try discriminate; contradiction.
Qed.

Lemma aggr_call_check_safe c : aggr_call_check fo re fxq c <> Panic.
Proof.
  destruct c; try discriminate. cbn [aggr_call_check].
  destruct c; try discriminate.
  destruct (call_name (EName pos0 s)) as [nm|]; [|discriminate].
  destruct (aggr_rtype nm); [|discriminate].
  destruct (aggr_info nm) as [[nargs varargs]|] eqn:Ei; [|discriminate].
  destruct (negb varargs && negb (Nat.eqb nargs (length args))) eqn:Ea; [discriminate|].
  assert (Hb : body_check fo re fxq nm args <> Panic).
  { apply body_check_safe. intros Hn.
    assert (Hi : aggr_info nm = Some (2, false)).
    { destruct Hn as [Hn|Hn]; apply String.eqb_eq in Hn; subst nm; reflexivity. }
    rewrite Hi in Ei. inversion Ei; subst nargs varargs. cbn [negb andb] in Ea.
    apply negb_false_iff in Ea. apply Nat.eqb_eq in Ea. lia. }
  destruct (body_check fo re fxq nm args); cbn [Value.bind]; try discriminate. contradiction.
Qed.

Lemma aggr_calls_check_safe l : aggr_calls_check fo re fxq l <> Panic.
Proof.
  induction l as [|c l IH]; cbn [aggr_calls_check]; [discriminate|].
  pose proof (aggr_call_check_safe c) as Hc.
  destruct (aggr_call_check fo re fxq c); cbn [Value.bind]; try discriminate; [exact IH|contradiction].
Qed.

Lemma agg_init_check_safe fields : agg_init_check fo re fxq fields <> Panic.
Proof.
  induction fields as [|f l IH]; cbn [agg_init_check]; [discriminate|].
  assert (Hf : agg_field_check fo re fxq f <> Panic).
  { destruct f; try discriminate; cbn [agg_field_check]; apply aggr_calls_check_safe. }
  destruct (agg_field_check fo re fxq f); cbn [Value.bind]; try discriminate; [exact IH|contradiction].
Qed.

Lemma order_init_check_safe names order : order_init_check names order <> Panic.
Proof.
  induction order as [|[p n] order IH]; cbn [order_init_check]; [discriminate|].
  destruct (existsb (String.eqb n) names); [exact IH|discriminate].
Qed.

Theorem init_check_never_panics_lemma c : init_check fo re fmt_v fxq c <> Panic.
Proof.
  destruct c as [fields w order| | |]; try discriminate. cbn [init_check].
  pose proof (order_init_check_safe (map fst fields) order) as Ho.
  destruct (order_init_check (map fst fields) order); cbn [Value.bind]; try discriminate; [|contradiction].
  apply agg_init_check_safe.
Qed.

End Total.

(* ================================================================ the composite *)

Section Composite.
Variable fo : fops.
Variable re : bytes -> bytes -> res bool.
Variable fmt_v : F fo -> string.
Variable fxq fxa : bool.

Notation plan_check := (plan_check fo re fmt_v).
Notation plan_oom := (plan_oom fo re fmt_v).
Notation init_check := (init_check fo re fmt_v fxq).
Notation check_parsed_agg := (check_parsed_agg fo re fmt_v fxq fxa).
Notation parse_check_agg := (parse_check_agg fo re fmt_v fxq fxa).

(* what the Init chain's error may carry: a position satisfying Q, or none *)
Definition init_err_at (Q : nat -> Prop) (e : err) : Prop :=
  match e with EExec p | ESyntax p => Q p | EOther => True end.

Lemma check_parsed_agg_err (Q : nat -> Prop) s k z :
  Forall Q (stmt_positions s) -> check_parsed_agg s = PAErr k z -> err_at Q z.
Proof.
  intros H. unfold AggInit.check_parsed_agg, AggInit.plan_stage_agg.
  destruct (to_check s) as [c|] eqn:Et; [|discriminate].
  assert (Hc : cstmt_ok Q c) by exact (Forall_incl Q _ _ (to_check_positions s c Et) H).
  pose proof (check_stmt_ok fo Q c Hc) as H1.
  destruct (Checker.check_stmt fo true c) as [c2|[p|p|]| |]; cbn [okr] in H1; try discriminate.
  - pose proof (stmt_calls_ok Q fxa c2 H1) as H2.
    destruct (stmt_calls fxa c2) as [u|[p|p|]| |]; cbn [okx] in H2; try discriminate.
    + destruct (plan_oom c2); [discriminate|].
      destruct (plan_check s c2) as [| |z'] eqn:Ep.
      * discriminate.
      * destruct (init_check c2) as [?|?| |]; discriminate.
      * intros E; inversion E; subst.
        apply (plan_check_err fo re fmt_v Q s c2); [|exact Ep]. unfold stmt_positions in H. apply Forall_app in H. tauto.
    + intros E; inversion E; subst. apply err_at_nat. exact H2.
  - intros E; inversion E; subst. apply err_at_nat. exact H1.
Qed.

Lemma check_parsed_agg_init_err (Q : nat -> Prop) s e :
  re_plain re -> Forall Q (stmt_positions s) -> check_parsed_agg s = PAInitErr e -> init_err_at Q e.
Proof.
  intros Hre H. unfold AggInit.check_parsed_agg, AggInit.plan_stage_agg.
  destruct (to_check s) as [c|] eqn:Et; [|discriminate].
  assert (Hc : cstmt_ok Q c) by exact (Forall_incl Q _ _ (to_check_positions s c Et) H).
  pose proof (check_stmt_ok fo Q c Hc) as H1.
  destruct (Checker.check_stmt fo true c) as [c2|[p|p|]| |]; cbn [okr] in H1; try discriminate.
  pose proof (stmt_calls_ok Q fxa c2 H1) as H2.
  destruct (stmt_calls fxa c2) as [u|[p|p|]| |]; cbn [okx] in H2; try discriminate;
    [|intros E; inversion E; subst e; exact H2].
  destruct (plan_oom c2); [discriminate|].
  destruct (plan_check s c2) as [| |z']; try discriminate.
  pose proof (init_check_okp fo re fmt_v fxq Hre Q c2 H1) as H3.
  destruct (init_check c2) as [?|e'| |]; try discriminate.
  intros E; inversion E; subst e'. destruct e; cbn [okp init_err_at] in *; auto.
Qed.

Lemma check_parsed_agg_ok (Q : nat -> Prop) s s' c a :
  Forall Q (stmt_positions s) -> check_parsed_agg s = PAOk s' c a ->
  s' = s /\ Forall Q (cstmt_positions c).
Proof.
  intros H. unfold AggInit.check_parsed_agg, AggInit.plan_stage_agg.
  destruct (to_check s) as [c0|] eqn:Et; [|discriminate].
  assert (Hc : cstmt_ok Q c0) by exact (Forall_incl Q _ _ (to_check_positions s c0 Et) H).
  pose proof (check_stmt_ok fo Q c0 Hc) as H1.
  destruct (Checker.check_stmt fo true c0) as [c2|[p|p|]| |]; cbn [okr] in H1; try discriminate.
  destruct (stmt_calls fxa c2) as [u|[p|p|]| |]; try discriminate.
  destruct (plan_oom c2); [discriminate|].
  destruct (plan_check s c2); try discriminate.
  - intros E; inversion E; subst; split; [reflexivity|exact H1].
  - destruct (init_check c2) as [?|?| |]; try discriminate.
    intros E; inversion E; subst; split; [reflexivity|exact H1].
Qed.

(* A1: rejections before any plan node is initialised -- as parse_check *)
Theorem parse_check_agg_err_position_thm (q : string) (k : pckind) (z : Z) :
  parse_check_agg q = PAErr k z ->
  pos_is_token_start (zstarts (lex q)) z = true /\ pos_in_query q z = true.
Proof.
  unfold AggInit.parse_check_agg. cbv zeta. destruct (pc_oom fo q (lex q)); [discriminate|].
  destruct (parse_real fo (lex q)) as [s|z'| |] eqn:Ep; try discriminate.
  - intros E. unfold parse_real in Ep.
    destruct (parse_tree_positions_are_token_starts_thm q (real_hooks fo) s
                (real_hooks_ok fo (prov (lex q))) Ep) as (Hprov & _ & _).
    pose proof (check_parsed_agg_err (prov (lex q)) s k z Hprov E) as Hz.
    split.
    + apply err_at_token_start. exact Hz.
    + apply (err_at_in_query q (lex q)); [apply lex_tokens_in_query| |exact Hz].
      exact (parse_real_ok_nonempty fo _ _ Ep).
  - intros E. inversion E; subst z'. clear E. unfold parse_real in Ep. split.
    + exact (parse_err_pos_is_token_start_thm q (real_hooks fo) z (real_hooks_ok fo (prov (lex q))) Ep).
    + exact (parse_err_pos_in_query_thm q (real_hooks fo) z (real_hooks_ok fo (prov (lex q))) Ep).
Qed.

(* A2: rejections by the Init chain (FinalOrderPlan.Init, AggregatePlan.Init, the constructors) *)
Theorem parse_check_agg_init_err_position_thm (q : string) (e : err) :
  re_plain re ->
  parse_check_agg q = PAInitErr e ->
  init_err_at (fun p => pos_is_token_start (zstarts (lex q)) (Z.of_nat p) = true /\
                        pos_in_query q (Z.of_nat p) = true) e.
Proof.
  intros Hre. unfold AggInit.parse_check_agg. cbv zeta. destruct (pc_oom fo q (lex q)); [discriminate|].
  destruct (parse_real fo (lex q)) as [s|z'| |] eqn:Ep; try discriminate.
  intros E. pose proof Ep as Ep'. unfold parse_real in Ep'.
  destruct (parse_tree_positions_are_token_starts_thm q (real_hooks fo) s
              (real_hooks_ok fo (prov (lex q))) Ep') as (Hprov & _ & _).
  pose proof (check_parsed_agg_init_err (prov (lex q)) s e Hre Hprov E) as He.
  assert (Hq : forall p, prov (lex q) p ->
               pos_is_token_start (zstarts (lex q)) (Z.of_nat p) = true /\ pos_in_query q (Z.of_nat p) = true).
  { intros p Hp. pose proof (err_at_nat (prov (lex q)) p Hp) as Hz. split.
    - apply err_at_token_start. exact Hz.
    - apply (err_at_in_query q (lex q)); [apply lex_tokens_in_query| |exact Hz].
      exact (parse_real_ok_nonempty fo _ _ Ep). }
  destruct e; cbn [init_err_at] in *; auto.
Qed.

(* accepted statements: as parse_check *)
Theorem parse_check_agg_ok_positions_thm (q : string) (s : StmtParser.stmt) (c : Checker.stmt) (a : bool) :
  parse_check_agg q = PAOk s c a ->
  parse_real fo (lex q) = SOk s /\
  Forall (prov (lex q)) (stmt_positions s) /\
  Forall (prov (lex q)) (cstmt_positions c).
Proof.
  unfold AggInit.parse_check_agg. cbv zeta. destruct (pc_oom fo q (lex q)); [discriminate|].
  destruct (parse_real fo (lex q)) as [s0|z'| |] eqn:Ep; try discriminate.
  intros E. pose proof Ep as Ep'. unfold parse_real in Ep'.
  destruct (parse_tree_positions_are_token_starts_thm q (real_hooks fo) s0
              (real_hooks_ok fo (prov (lex q))) Ep') as (Hprov & _ & _).
  destruct (check_parsed_agg_ok (prov (lex q)) s0 s c a Hprov E) as (-> & Hc).
  split; [reflexivity|]. split; [exact Hprov|exact Hc].
Qed.

(* B: totality of the composite *)
Lemma check_parsed_agg_total s :
  (forall p t, safe (re p t)) ->
  match check_parsed_agg s with PAPanic | PAFuel | PAOther => False | _ => True end.
Proof.
  intros Hre. unfold AggInit.check_parsed_agg, AggInit.plan_stage_agg. destruct (to_check s) as [c|]; [|exact I].
  assert (Hc : cstmt_ok (fun _ => True) c) by (unfold cstmt_ok; apply Forall_forall; auto).
  pose proof (check_stmt_ok fo (fun _ => True) c Hc) as H1.
  destruct (Checker.check_stmt fo true c) as [c2|[p|p|]| |]; cbn [okr] in H1; try exact I; try contradiction.
  pose proof (stmt_calls_ok (fun _ => True) fxa c2 H1) as H2.
  destruct (stmt_calls fxa c2) as [u|[p|p|]| |]; cbn [okx] in H2; try exact I; try contradiction.
  destruct (plan_oom c2); [exact I|]. destruct (plan_check s c2); try exact I.
  pose proof (init_check_never_panics_lemma fo re fmt_v fxq Hre c2) as Hp.
  destruct (init_check c2); try exact I. contradiction.
Qed.

Theorem parse_check_agg_total_thm (q : string) :
  (forall p t, safe (re p t)) ->
  match parse_check_agg q with PAPanic | PAFuel | PAOther => False | _ => True end.
Proof.
  intros Hre. unfold AggInit.parse_check_agg. cbv zeta. destruct (pc_oom fo q (lex q)); [exact I|].
  unfold parse_real. destruct (parse_with_total (real_hooks fo) (lex q)) as [(s & E)|(z & E)]; rewrite E.
  - apply check_parsed_agg_total. exact Hre.
  - exact I.
Qed.

End Composite.

(* ================================================================ E. relation to parse_check *)

Section Relation.
Variable fo : fops.
Variable re : bytes -> bytes -> res bool.
Variable fmt_v : F fo -> string.
Variable fxq : bool.

(* with the pinned call validation the composite IS parse_check followed by the Init chain *)
Theorem parse_check_agg_pinned_is_parse_check_then_init (q : string) :
  parse_check_agg fo re fmt_v fxq false q =
  match parse_check fo re fmt_v q with
  | PCOk s c true =>
      match init_check fo re fmt_v fxq c with
      | Ok _ => PAOk s c true
      | Err e => PAInitErr e
      | Panic => PAPanic
      | OutOfModel => PAOutOfModel
      end
  | PCOk s c false => PAOk s c false
  | PCErr k z => PAErr k z
  | PCOutOfModel => PAOutOfModel
  | PCPanic => PAPanic
  | PCFuel => PAFuel
  | PCOther => PAOther
  end.
Proof.
  unfold parse_check_agg, parse_check. cbv zeta. destruct (pc_oom fo q (lex q)); [reflexivity|].
  destruct (parse_real fo (lex q)) as [s|z| |]; try reflexivity.
  unfold check_parsed_agg, check_parsed, plan_stage_agg, plan_stage, stmt_calls.
  destruct (to_check s) as [c|]; [|reflexivity].
  assert (Hc : cstmt_ok (fun _ => True) c) by (unfold cstmt_ok; apply Forall_forall; auto).
  pose proof (check_stmt_ok fo (fun _ => True) c Hc) as H1.
  destruct (Checker.check_stmt fo true c) as [c2|[p|p|]| |]; cbn [okr] in H1; try reflexivity.
  (* the pinned call validation returns no ExecuteError *)
  pose proof (check_stmt_calls_ok (fun _ => True) c2 H1) as H2.
  destruct (Checker.check_stmt_calls c2) as [u|[p|p|]| |]; cbn [okr] in H2; try reflexivity; try contradiction.
  destruct (plan_oom fo re fmt_v c2); [reflexivity|].
  destruct (plan_check fo re fmt_v s c2); reflexivity.
Qed.

(* the repaired call validation rejects more, never less: what it accepts the pinned one accepts *)
Lemma check_calls_fx_implies : forall e, check_calls_fx e = Ok tt -> Checker.check_calls true e = Ok tt.
Proof.
  induction e using CheckerProofs.expr_induction; intros E; try exact E.
  - cbn [check_calls_fx] in E. cbn [Checker.check_calls].
    destruct (check_calls_fx e1) as [[]| | |]; cbn [Value.bind] in E; try discriminate.
    rewrite (IHe1 eq_refl). cbn [Value.bind]. exact (IHe2 E).
  - cbn [check_calls_fx] in E. destruct e; try discriminate.
    rewrite CheckerProofs.check_calls_call_eq.
    destruct (call_name (EName pos s)) as [nm|]; [|discriminate].
    destruct (func_info nm) as [[[nargs varargs] t]|] eqn:Ef.
    + exact E.
    + destruct (aggr_info nm) as [[nargs varargs]|] eqn:Ei.
      * assert (Hr : exists t, aggr_rtype nm = Some t).
        { destruct (aggr_rtype nm) eqn:Er; [eexists; reflexivity|].
          unfold aggr_rtype, aggr_info in *.
          repeat match type of Er with
                 | context [String.eqb nm ?s] => destruct (String.eqb nm s)
                 end; cbn [orb] in *; discriminate. }
        destruct Hr as (t & Hr). rewrite Hr.
        destruct (arity_bad nargs varargs (length args)); cbn [Value.bind] in E; [discriminate|].
        cbn [Value.bind]. exact E.
      * discriminate.
Qed.

End Relation.

(* ================================================================ D. aggregate argument counts *)

Fixpoint has_bad_list (l : list expr) : bool :=
  match l with
  | [] => false
  | a :: l' => has_bad_aggr_arity a || has_bad_list l'
  end.

Lemma has_bad_call_eq p n args :
  has_bad_aggr_arity (ECall p n args) = wrong_aggr_arity p n args || has_bad_list args.
Proof. reflexivity. Qed.

Lemma has_bad_elist_eq p items : has_bad_aggr_arity (EList p items) = has_bad_list items.
Proof. reflexivity. Qed.

Lemma calls_list_no_bad (l : list expr) :
  Forall (fun a => Checker.check_calls false a = Ok tt -> has_bad_aggr_arity a = false) l ->
  CheckerProofs.calls_list l = Ok tt -> has_bad_list l = false.
Proof.
  intros H. induction H as [|a l Ha Hl IH]; cbn [CheckerProofs.calls_list has_bad_list]; [reflexivity|].
  destruct (Checker.check_calls false a) as [[]| | |]; cbn [Value.bind]; try discriminate.
  intros E. rewrite (Ha eq_refl), (IH E). reflexivity.
Qed.

(* where no aggregate call is allowed there is no aggregate call at all *)
Lemma check_calls_false_no_bad : forall e,
  Checker.check_calls false e = Ok tt -> has_bad_aggr_arity e = false.
Proof.
  induction e using CheckerProofs.expr_induction; intros E; try reflexivity.
  - cbn [Checker.check_calls] in E. cbn [has_bad_aggr_arity].
    destruct (Checker.check_calls false e1) as [[]| | |]; cbn [Value.bind] in E; try discriminate.
    rewrite (IHe1 eq_refl), (IHe2 E). reflexivity.
  - cbn [Checker.check_calls] in E. cbn [has_bad_aggr_arity]. exact (IHe E).
  - destruct e; try discriminate. rewrite CheckerProofs.check_calls_call_eq in E.
    rewrite has_bad_call_eq. unfold wrong_aggr_arity.
    destruct (call_name (EName pos s)) as [nm|]; [|discriminate].
    destruct (func_info nm) as [[[nargs varargs] t]|].
    + cbn [orb]. apply calls_list_no_bad; [assumption|]. cbv zeta in E.
      match type of E with context [if ?b then _ else _] => destruct b end; cbn [Value.bind] in E; [discriminate|exact E].
    + destruct (aggr_rtype nm); cbn [Value.bind] in E; discriminate.
  - rewrite CheckerProofs.check_calls_elist_eq in E. rewrite has_bad_elist_eq.
    apply calls_list_no_bad; assumption.
  - cbn [Checker.check_calls] in E. cbn [has_bad_aggr_arity]. exact (IHe1 E).
Qed.

Lemma calls_list_false_no_bad (l : list expr) : calls_list_false l = Ok tt -> has_bad_list l = false.
Proof.
  intros E. apply calls_list_no_bad; [|exact E].
  apply Forall_forall. intros a _. apply check_calls_false_no_bad.
Qed.

(* the repaired validation of a select field *)
Lemma check_calls_fx_no_bad : forall e, check_calls_fx e = Ok tt -> has_bad_aggr_arity e = false.
Proof.
  induction e using CheckerProofs.expr_induction; intros E;
    try (apply check_calls_false_no_bad; exact E).
  - cbn [check_calls_fx] in E. cbn [has_bad_aggr_arity].
    destruct (check_calls_fx e1) as [[]| | |]; cbn [Value.bind] in E; try discriminate.
    rewrite (IHe1 eq_refl), (IHe2 E). reflexivity.
  - cbn [check_calls_fx] in E. destruct e; try discriminate.
    rewrite has_bad_call_eq. unfold wrong_aggr_arity.
    destruct (call_name (EName pos s)) as [nm|]; [|discriminate].
    destruct (func_info nm) as [[[nargs varargs] t]|].
    + cbn [orb]. apply calls_list_false_no_bad.
      destruct (arity_bad nargs varargs (length args)); cbn [Value.bind] in E; [discriminate|exact E].
    + destruct (aggr_info nm) as [[nargs varargs]|]; cbn [Value.bind] in E; [|discriminate].
      destruct (arity_bad nargs varargs (length args)); cbn [Value.bind] in E; [discriminate|].
      cbn [orb]. apply calls_list_false_no_bad. exact E.
Qed.

Lemma calls_fields_fx_no_bad fields :
  calls_fields_fx fields = Ok tt -> Forall (fun nf => has_bad_aggr_arity (snd nf) = false) fields.
Proof.
  induction fields as [|[n f] l IH]; cbn [calls_fields_fx]; intros E; constructor.
  - cbn [snd]. destruct (check_calls_fx f) as [[]| | |] eqn:Ef; cbn [Value.bind] in E; try discriminate.
    apply check_calls_fx_no_bad. exact Ef.
  - apply IH. destruct (check_calls_fx f) as [[]| | |]; cbn [Value.bind] in E; try discriminate. exact E.
Qed.

Lemma calls_pairs_no_bad l :
  Checker.calls_pairs l = Ok tt ->
  Forall (fun e => has_bad_aggr_arity e = false) (flat_map (fun kv : expr * expr => [fst kv; snd kv]) l).
Proof.
  induction l as [|[k v] l IH]; cbn [Checker.calls_pairs flat_map fst snd app]; intros E; [constructor|].
  destruct (Checker.check_calls false k) as [[]| | |] eqn:Ek; cbn [Value.bind] in E; try discriminate.
  destruct (Checker.check_calls false v) as [[]| | |] eqn:Ev; cbn [Value.bind] in E; try discriminate.
  constructor; [apply check_calls_false_no_bad; exact Ek|].
  constructor; [apply check_calls_false_no_bad; exact Ev|]. exact (IH E).
Qed.

Lemma calls_keys_no_bad l :
  Checker.calls_keys l = Ok tt -> Forall (fun e => has_bad_aggr_arity e = false) l.
Proof.
  induction l as [|k l IH]; cbn [Checker.calls_keys]; intros E; [constructor|].
  destruct (Checker.check_calls false k) as [[]| | |] eqn:Ek; cbn [Value.bind] in E; try discriminate.
  constructor; [apply check_calls_false_no_bad; exact Ek|exact (IH E)].
Qed.

(* what the repaired call validation lets through holds no aggregate call with a wrong number of
   arguments, in any tree of the statement, at any depth *)
Theorem check_stmt_calls_fx_no_bad (c : Checker.stmt) :
  check_stmt_calls_fx c = Ok tt -> Forall (fun e => has_bad_aggr_arity e = false) (cstmt_exprs c).
Proof.
  destruct c as [fields w order|pairs|keys|w]; cbn [check_stmt_calls_fx Checker.check_stmt_calls cstmt_exprs]; intros E.
  - destruct (Checker.check_calls false w) as [[]| | |] eqn:Ew; cbn [Value.bind] in E; try discriminate.
    apply Forall_app. split.
    + apply Forall_map. exact (calls_fields_fx_no_bad fields E).
    + constructor; [apply check_calls_false_no_bad; exact Ew|constructor].
  - apply calls_pairs_no_bad. exact E.
  - apply calls_keys_no_bad. exact E.
  - constructor; [apply check_calls_false_no_bad; exact E|constructor].
Qed.

Section Arity.
Variable fo : fops.
Variable re : bytes -> bytes -> res bool.
Variable fmt_v : F fo -> string.
Variable fxq : bool.

Lemma check_parsed_agg_no_bad s s' c a :
  check_parsed_agg fo re fmt_v fxq true s = PAOk s' c a ->
  Forall (fun e => has_bad_aggr_arity e = false) (cstmt_exprs c).
Proof.
  unfold check_parsed_agg, plan_stage_agg, stmt_calls.
  destruct (to_check s) as [c0|]; [|discriminate].
  destruct (Checker.check_stmt fo true c0) as [c2|[p|p|]| |]; try discriminate.
  destruct (check_stmt_calls_fx c2) as [[]|[p|p|]| |] eqn:Ec; try discriminate.
  pose proof (check_stmt_calls_fx_no_bad c2 Ec) as Hb.
  destruct (plan_oom fo re fmt_v c2); [discriminate|].
  destruct (plan_check fo re fmt_v s c2); try discriminate.
  - intros E; inversion E; subst. exact Hb.
  - destruct (init_check fo re fmt_v fxq c2) as [?|?| |]; try discriminate.
    intros E; inversion E; subst. exact Hb.
Qed.

(* C14: for EVERY query text: when the (repaired) front end + Init chain accepts it, no tree of the
   checked statement -- select fields, WHERE, PUT pairs, REMOVE keys -- holds a call of an
   aggregate function with a wrong number of arguments, at any depth.  Equivalently: such a call
   makes BuildPlan's twin reject the text, before the first storage call. *)
Theorem agg_arity_rejected_thm (q : string) s c a :
  parse_check_agg fo re fmt_v fxq true q = PAOk s c a ->
  Forall (fun e => has_bad_aggr_arity e = false) (cstmt_exprs c).
Proof.
  unfold parse_check_agg. cbv zeta. destruct (pc_oom fo q (lex q)); [discriminate|].
  destruct (parse_real fo (lex q)) as [s0|z| |]; try discriminate.
  apply check_parsed_agg_no_bad.
Qed.

End Arity.
