(* Proofs/AggregateLazyProofs.v -- the evaluation discipline of the AggregatePlan
   (Model/AggregateLazy.v):
     1. the loops of prepare / prepareBatch over the scan: a completed batch drain implies the
        row drain with pointwise related observations (the stateful form of
        Proofs/ScanProjProofs.v scan_proj_batch_row);
     2. completing the rows lazily under a pushed-down LIMIT: row mode completes exactly the
        first Start + Limit groups; a completed batch drain implies the row drain with the same
        rows; where every group can be completed both equal Model/Aggregate.v's eager runs;
     3. against the specification (Spec/Group.v, Spec/GroupLazy.v). *)
From Coq Require Import List String ZArith Bool Arith Lia.
Import ListNotations.
From KV Require Import Base.Bytes Model.Value Model.ScanProj Model.LimitLazy Model.AggregateLazy
                       Spec.Group Spec.GroupLazy
                       Proofs.ScanProjProofs Proofs.LimitLazyProofs.
From KV Require Model.Limit Model.Aggregate Proofs.LimitProofs Proofs.AggregateProofs.
Local Open Scope nat_scope.
Local Open Scope list_scope.

(* ================================================================ 1. the loops over the scan *)
Section SDrain.
Variable P R T : Type.
Variable frow : P -> res bool.
Variable fbatch : list P -> res (list bool).
Variable orow : T -> P -> res (R * T).
Variable obatch : T -> list P -> res (list R * T).
Variable req : R -> R -> Prop.      (* row-mode observation, batch-mode observation *)

Hypothesis Hf : forall c bs, fbatch c = Ok bs -> Forall2 (fun kv b => frow kv = Ok b) c bs.
(* what prepareBatch evaluates on a chunk is what prepare evaluates on its pairs one after the
   other, from the same keys seen to the same keys seen *)
Hypothesis Hp : forall t c rs t', obatch t c = Ok (rs, t') ->
  exists rs', smap_res orow t c = Ok (rs', t') /\ Forall2 req rs' rs.

(* row mode as one recursion over the pairs *)
Fixpoint srow_list (t : T) (l : list P) : res (list R) :=
  match l with
  | [] => Ok []
  | kv :: l' =>
      do ok <- frow kv;
      if ok then (do ot <- orow t kv; do out <- srow_list (snd ot) l'; Ok (fst ot :: out))
      else srow_list t l'
  end.

Lemma sdrain_row_fuel_spec : forall rest f t,
  List.length rest <= f -> sdrain_row_fuel frow orow (Datatypes.S f) t rest = srow_list t (somes rest).
Proof.
  induction rest as [|[kv|] rest IH]; intros f t Hl.
  - reflexivity.
  - cbn [List.length] in Hl. cbn [somes srow_list sdrain_row_fuel scan_next].
    destruct (frow kv) as [ok| | |] eqn:Ek; cbn [bind]; try reflexivity.
    destruct ok.
    + cbn [bind]. destruct (orow t kv) as [[o t1]| | |]; cbn [bind fst snd]; try reflexivity.
      destruct f as [|f']; [lia|]. rewrite IH by lia. reflexivity.
    + specialize (IH f t ltac:(lia)). cbn [sdrain_row_fuel] in IH. exact IH.
  - cbn [List.length] in Hl. cbn [somes].
    specialize (IH f t ltac:(lia)). cbn [sdrain_row_fuel] in *. cbn [scan_next]. exact IH.
Qed.

Lemma sdrain_row_spec t rest : sdrain_row frow orow t rest = srow_list t (somes rest).
Proof. unfold sdrain_row. apply sdrain_row_fuel_spec. lia. Qed.

Lemma srow_list_app : forall a b sel rows t t',
  filter_list P frow a = Ok sel -> smap_res orow t sel = Ok (rows, t') ->
  srow_list t (a ++ b) = (do out <- srow_list t' b; Ok (rows ++ out)).
Proof.
  induction a as [|kv a IH]; intros b sel rows t t' Hs Hr; cbn [app filter_list srow_list] in *.
  - inversion Hs; subst sel. cbn in Hr. inversion Hr; subst rows t'. cbn [app].
    destruct (srow_list t b); reflexivity.
  - apply bind_ok' in Hs. destruct Hs as (ok & Ek & Hs).
    apply bind_ok' in Hs. destruct Hs as (out & Eo & Hs). inversion Hs; subst sel.
    rewrite Ek. cbn [bind]. destruct ok.
    + cbn [smap_res] in Hr. apply bind_ok' in Hr. destruct Hr as ([o t1] & Eo1 & Hr).
      apply bind_ok' in Hr. destruct Hr as ([rows' t2] & Erows & Hr). cbn [fst snd] in *.
      inversion Hr; subst rows t'.
      rewrite Eo1. cbn [bind fst snd]. rewrite (IH b out rows' t1 t2 Eo Erows).
      destruct (srow_list t2 b); reflexivity.
    + apply (IH b out rows t t' Eo Hr).
Qed.

Lemma sdrain_batch_fuel_ok : forall fuel B t rest outs,
  1 <= B -> sdrain_batch_fuel fbatch obatch fuel B t rest = Ok outs ->
  exists rows', srow_list t (somes rest) = Ok rows' /\ Forall2 req rows' (List.concat outs).
Proof.
  induction fuel as [|f IH]; intros B t rest outs HB H; [discriminate|].
  cbn [sdrain_batch_fuel] in H.
  apply bind_ok' in H. destruct H as ((kvs & rest2) & Esb & H).
  destruct (scan_batch_ok P frow fbatch Hf _ _ _ _ HB Esb) as (consumed & E1 & E2 & E3).
  destruct kvs as [|kv kvs].
  - inversion H; subst outs.
    rewrite (E3 eq_refl), app_nil_r in E1. subst consumed.
    exists []. split; [|constructor].
    rewrite <- (app_nil_r rest), somes_app.
    etransitivity; [exact (srow_list_app _ (somes []) [] [] t t E2 eq_refl)|]. reflexivity.
  - apply bind_ok' in H. destruct H as ([rs t1] & Eob & H). cbn [fst snd] in H.
    apply bind_ok' in H. destruct H as (outs' & Eouts & H). inversion H; subst outs.
    destruct (Hp _ _ _ _ Eob) as (rs' & Em & Fr).
    destruct (IH _ _ _ _ HB Eouts) as (rows2 & Er2 & F2).
    exists (rs' ++ rows2). split.
    + rewrite E1, somes_app. rewrite (srow_list_app _ _ _ _ _ _ E2 Em), Er2. reflexivity.
    + cbn [List.concat]. apply Forall2_app; assumption.
Qed.

(* prepareBatch's loop completed => prepare's loop completes, with related observations *)
Theorem sdrain_batch_row B t rest outs :
  1 <= B -> sdrain_batch fbatch obatch B t rest = Ok outs ->
  exists rows', sdrain_row frow orow t rest = Ok rows' /\ Forall2 req rows' (List.concat outs).
Proof.
  intros HB H. rewrite sdrain_row_spec. eapply sdrain_batch_fuel_ok; eauto.
Qed.

End SDrain.

(* ================================================================ 2. completing the rows *)

Lemma seq_opt_app {X} (a b : list (option X)) :
  seq_opt (a ++ b) = match seq_opt a, seq_opt b with
                     | Some x, Some y => Some (x ++ y)
                     | _, _ => None
                     end.
Proof.
  induction a as [|[x|] a IH]; cbn [app seq_opt].
  - destruct (seq_opt b); reflexivity.
  - rewrite IH. destruct (seq_opt a), (seq_opt b); reflexivity.
  - reflexivity.
Qed.

Lemma seq_opt_length {X} : forall (l : list (option X)) r, seq_opt l = Some r -> List.length r = List.length l.
Proof.
  induction l as [|[x|] l IH]; intros r H; cbn [seq_opt] in H; try discriminate.
  - inversion H. reflexivity.
  - destruct (seq_opt l) as [r'|]; [|discriminate]. inversion H; subst. cbn. f_equal. now apply IH.
Qed.

Lemma seq_opt_firstn {X} : forall (l : list (option X)) r m,
  seq_opt l = Some r -> seq_opt (firstn m l) = Some (firstn m r).
Proof.
  induction l as [|[x|] l IH]; intros r m H; cbn [seq_opt] in H; try discriminate.
  - inversion H. now rewrite !firstn_nil.
  - destruct (seq_opt l) as [r'|] eqn:E; [|discriminate]. inversion H; subst.
    destruct m; cbn [firstn seq_opt]; [reflexivity|]. now rewrite (IH r' m eq_refl).
Qed.

Lemma skipn_add {X} : forall b k (l : list X), skipn k (skipn b l) = skipn (b + k) l.
Proof.
  induction b as [|b IH]; intros k l; [reflexivity|].
  destruct l as [|x l]; cbn [skipn Nat.add]; [now rewrite skipn_nil | apply IH].
Qed.

Lemma list_eq_dec_nil {X} (l : list X) : {l = []} + {l <> []}.
Proof. destruct l; [now left | right; discriminate]. Qed.

Section FinishProofs.
Variable F : Type.
Variable fadd fsub fmul fdiv : F -> F -> F.
Variable fltb : F -> F -> bool.
Variable fis0 : F -> bool.
Variable of_Z : Z -> F.
Variable to_Z : F -> Z.
Variable fmt_f : F -> bytes.
Variable bits_f : F -> bytes.
Variable json_f : F -> option bytes.
Variable parse_f : bytes -> option F.
Variable json_s : bytes -> bytes.

Local Notation gvalue := (Group.value F).
Local Notation pobs := (Group.pobs F).
Local Notation plan := (Group.plan F).
Local Notation aggr_rows := (Aggregate.aggr_rows F).
Local Notation m_finish_row := (Aggregate.finish_row fadd fsub fmul fdiv fis0 of_Z json_f json_s).
Local Notation m_finish_all := (Aggregate.finish_all fadd fsub fmul fdiv fis0 of_Z json_f json_s).
Local Notation m_prepare := (Aggregate.prepare fadd fltb of_Z to_Z fmt_f bits_f parse_f true true).
Local Notation m_prepare_batch := (Aggregate.prepareBatch fadd fltb of_Z to_Z fmt_f bits_f parse_f true true).
Local Notation m_run_row := (Aggregate.run_row fadd fsub fmul fdiv fltb fis0 of_Z to_Z fmt_f bits_f json_f parse_f json_s true true).
Local Notation m_run_batch := (Aggregate.run_batch fadd fsub fmul fdiv fltb fis0 of_Z to_Z fmt_f bits_f json_f parse_f json_s true true).
Local Notation m_anext := (anext fadd fsub fmul fdiv fis0 of_Z json_f json_s).
Local Notation m_abatch := (abatch fadd fsub fmul fdiv fis0 of_Z json_f json_s).
Local Notation m_adrain_row := (adrain_row fadd fsub fmul fdiv fis0 of_Z json_f json_s).
Local Notation m_adrain_batch := (adrain_batch fadd fsub fmul fdiv fis0 of_Z json_f json_s).
Local Notation m_lrun_row := (lrun_row fadd fsub fmul fdiv fltb fis0 of_Z to_Z fmt_f bits_f json_f parse_f json_s).
Local Notation m_lrun_batch := (lrun_batch fadd fsub fmul fdiv fltb fis0 of_Z to_Z fmt_f bits_f json_f parse_f json_s).

(* completing a run of group rows: all of them, or an execution error *)
Definition fin (rows : aggr_rows) : option (list (list gvalue)) :=
  seq_opt (map (fun kr => m_finish_row (snd kr)) rows).

Lemma fin_all rows : fin rows = m_finish_all rows.
Proof. reflexivity. Qed.

Lemma fin_cons kr rows :
  fin (kr :: rows) = match m_finish_row (snd kr) with
                     | Some r => match fin rows with Some rs => Some (r :: rs) | None => None end
                     | None => None
                     end.
Proof. reflexivity. Qed.

Lemma fin_firstn rows r m : fin rows = Some r -> fin (firstn m rows) = Some (firstn m r).
Proof. unfold fin. intros H. rewrite <- firstn_map. now apply seq_opt_firstn. Qed.

Lemma fin_length rows r : fin rows = Some r -> List.length r = List.length rows.
Proof. unfold fin. intros H. apply seq_opt_length in H. now rewrite map_length in H. Qed.

Lemma fin_app a b :
  fin (a ++ b) = match fin a, fin b with Some x, Some y => Some (x ++ y) | _, _ => None end.
Proof. unfold fin. rewrite map_app. apply seq_opt_app. Qed.

(* ---------------------------------------------------------------- row mode *)

(* the skip loop of Next over next(): completes the first n groups (or all, if fewer) *)
Lemma lskip_anext : forall n rows,
  lskip m_anext n rows =
  match fin (firstn n rows) with
  | Some _ => Ok (Nat.min n (List.length rows), Nat.ltb (List.length rows) n, skipn n rows)
  | None => Err EOther
  end.
Proof.
  induction n as [|n IH]; intros rows.
  - cbn. reflexivity.
  - destruct rows as [|kr rows].
    + cbn. reflexivity.
    + cbn [lskip anext firstn skipn List.length]. rewrite fin_cons.
      destruct (m_finish_row (snd kr)) as [r|]; cbn [exec_res bind]; [|reflexivity].
      rewrite IH. destruct (fin (firstn n rows)); cbn [bind]; [|reflexivity].
      cbn [Nat.min]. reflexivity.
Qed.

(* once the skipping is done: at most count - cur further groups are completed *)
Lemma ldrain_anext_taking : forall fuel start count cur sk rows,
  start <= sk -> count - cur < fuel ->
  ldrain_row_fuel m_anext fuel start count (Limit.LState sk cur) rows =
  exec_res (fin (firstn (count - cur) rows)).
Proof.
  induction fuel as [|f IH]; intros start count cur sk rows Hsk Hf; [lia|].
  cbn [ldrain_row_fuel]. unfold lnext. cbn [Limit.skips Limit.current].
  replace (start - sk) with 0 by lia. cbn [lskip bind].
  destruct (Nat.leb_spec count cur) as [Hc|Hc].
  - replace (count - cur) with 0 by lia. reflexivity.
  - destruct rows as [|kr rows].
    + cbn [anext bind]. rewrite firstn_nil. reflexivity.
    + replace (count - cur) with (Datatypes.S (count - Datatypes.S cur)) by lia.
      cbn [anext firstn]. rewrite fin_cons.
      destruct (m_finish_row (snd kr)) as [r|]; cbn [exec_res bind]; [|reflexivity].
      cbn [Limit.skips]. rewrite (IH start count (Datatypes.S cur) (sk + 0) rows ltac:(lia) ltac:(lia)).
      destruct (fin (firstn (count - Datatypes.S cur) rows)); reflexivity.
Qed.

(* Next until nil over the prepared rows: exactly the first Start + Limit groups are completed *)
Theorem ldrain_anext start count rows :
  ldrain_row m_anext start count rows =
  match fin (firstn (start + count) rows) with
  | Some l => Ok (skipn start l)
  | None => Err EOther
  end.
Proof.
  unfold ldrain_row. cbn [ldrain_row_fuel]. unfold lnext, Limit.linit.
  cbn [Limit.skips Limit.current]. rewrite Nat.sub_0_r, lskip_anext.
  assert (E : firstn (start + count) rows = firstn start rows ++ firstn count (skipn start rows)).
  { rewrite <- (firstn_skipn start (firstn (start + count) rows)) at 1.
    rewrite firstn_firstn, Nat.min_l by lia. now rewrite firstn_skipn_swap. }
  rewrite E, fin_app. clear E.
  destruct (fin (firstn start rows)) as [l1|] eqn:E1; cbn [bind]; [|reflexivity].
  pose proof (fin_length _ _ E1) as L1. rewrite firstn_length in L1.
  destruct (Nat.ltb_spec (List.length rows) start) as [Hlt|Hge].
  - (* the rows ran out while skipping *)
    rewrite (skipn_all2 rows) by lia. rewrite firstn_nil. cbn [fin map seq_opt].
    rewrite skipn_app, (skipn_all2 l1) by lia.
    rewrite skipn_nil. reflexivity.
  - destruct (Nat.leb_spec count 0) as [Hc|Hc].
    + replace count with 0 by lia. rewrite firstn_O. cbn [fin map seq_opt].
      rewrite app_nil_r, (skipn_all2 l1) by lia. reflexivity.
    + destruct (skipn start rows) as [|kr rows2] eqn:Es.
      * cbn [anext bind]. rewrite firstn_nil. cbn [fin map seq_opt].
        rewrite app_nil_r, (skipn_all2 l1) by lia. reflexivity.
      * destruct count as [|c]; [lia|]. cbn [anext firstn]. rewrite fin_cons.
        destruct (m_finish_row (snd kr)) as [r|]; cbn [exec_res bind]; [|reflexivity].
        cbn [Limit.skips].
        rewrite (ldrain_anext_taking (Datatypes.S c) start (Datatypes.S c) 1 (0 + Nat.min start (List.length rows)) rows2)
          by lia.
        replace (Datatypes.S c - 1) with c by lia.
        destruct (fin (firstn c rows2)) as [l2|]; cbn [exec_res bind]; [|reflexivity].
        rewrite skipn_app, (skipn_all2 l1) by lia.
        replace (start - List.length l1) with 0 by lia. reflexivity.
Qed.

(* ---------------------------------------------------------------- batch mode *)
Lemma abatch_exhausted B : forall s s1, 1 <= B -> m_abatch B s = Ok ([], s1) -> m_abatch B s1 = Ok ([], s1).
Proof.
  intros s s1 HB H. destruct s as [|kr s].
  - inversion H. reflexivity.
  - unfold abatch in H.
    destruct (seq_opt (map (fun kr0 => m_finish_row (snd kr0)) (firstn B (kr :: s)))) as [rs|] eqn:E;
      cbn [exec_res bind] in H; [|discriminate].
    inversion H; subst rs. apply seq_opt_length in E. rewrite map_length in E.
    destruct B; [lia|]. cbn in E. discriminate.
Qed.

(* what Batch pulled from batch(): a completed prefix of the group rows *)
Lemma pulled_abatch B rows pb e s' : 1 <= B ->
  pulled _ _ (m_abatch B) rows pb e s' ->
  exists k, fin (firstn k rows) = Some (List.concat pb) /\ s' = skipn k rows /\
            (e = true -> s' = []).
Proof.
  intros HB H. induction H as [s | s b s1 pb e s2 Eb Hb Hp IH | s s1 Eb].
  - exists 0. split; [reflexivity|]. split; [reflexivity | discriminate].
  - destruct IH as (k & Ek & Es & He).
    destruct s as [|kr s]; [inversion Eb; subst; congruence|].
    unfold abatch in Eb.
    fold (fin (firstn B (kr :: s))) in Eb.
    destruct (fin (firstn B (kr :: s))) as [rs|] eqn:E; cbn [exec_res bind] in Eb; [|discriminate].
    inversion Eb; subst rs s1.
    exists (B + k). split; [|split; [|exact He]].
    + rewrite <- (firstn_skipn B (firstn (B + k) (kr :: s))).
      rewrite fin_app, firstn_firstn, Nat.min_l by lia. rewrite E.
      rewrite firstn_skipn_swap, Ek. reflexivity.
    + rewrite Es. apply skipn_add.
  - destruct s as [|kr s].
    + inversion Eb; subst. exists 0. split; [reflexivity|]. split; [reflexivity | reflexivity].
    + exfalso. unfold abatch in Eb.
      destruct (seq_opt (map (fun kr0 => m_finish_row (snd kr0)) (firstn B (kr :: s)))) as [rs|] eqn:E;
        cbn [exec_res bind] in Eb; [|discriminate].
      inversion Eb; subst rs. apply seq_opt_length in E. rewrite map_length in E.
      destruct B; [lia|]. cbn in E. discriminate.
Qed.

Lemma firstn_prefix {X} (l : list X) m k : m <= k \/ List.length l <= k -> firstn m (firstn k l) = firstn m l.
Proof.
  intros [H|H].
  - rewrite firstn_firstn. now rewrite Nat.min_l.
  - now rewrite (firstn_all2 l) by lia.
Qed.

(* Batch until the empty batch completed => Next until nil completes, with the same rows *)
Theorem adrain_batch_row (p : plan) B rows out :
  1 <= B -> m_adrain_batch p B rows = Ok out -> m_adrain_row p rows = Ok out.
Proof.
  intros HB H. unfold adrain_batch, adrain_row in *.
  destruct (pl_limit p) as [count|]; [|exact H].
  apply bind_ok' in H. destruct H as (outs & Ed & H). inversion H; subst out. clear H.
  set (start := pl_start p) in *.
  assert (Hx : list gvalue) by exact [].
  assert (Hmain : exists pb e s', pulled _ _ (m_abatch B) rows pb e s' /\
            List.concat outs = firstn count (skipn start (List.concat pb)) /\
            (e = true \/ start + count <= List.length (List.concat pb))).
  { destruct count as [|count].
    - destruct (drain_stop_zero _ _ (m_abatch B) Hx _ _ _ _ _ Ed) as (-> & pb & e & s' & Hpl & Hd).
      exists pb, e, s'. repeat split; auto. rewrite Nat.add_0_r. exact Hd.
    - eapply (drain_stop_pos _ _ (m_abatch B) (fun s s1 => abatch_exhausted B s s1 HB) Hx); [|exact Ed]. lia. }
  destruct Hmain as (pb & e & s' & Hpl & Ec & Hd).
  destruct (pulled_abatch B rows pb e s' HB Hpl) as (k & Ek & Es & He).
  rewrite ldrain_anext.
  assert (Hpre : firstn (start + count) (firstn k rows) = firstn (start + count) rows).
  { apply firstn_prefix. destruct Hd as [->|Hd].
    - right. specialize (He eq_refl). rewrite He in Es.
      symmetry in Es. apply (f_equal (@List.length _)) in Es. rewrite skipn_length in Es. cbn in Es. lia.
    - left. pose proof (fin_length _ _ Ek) as L. rewrite firstn_length in L. lia. }
  rewrite <- Hpre, (fin_firstn _ _ (start + count) Ek).
  rewrite firstn_skipn_swap, Ec. reflexivity.
Qed.

(* the AggregatePlan drained by Batch completed => drained by Next it completes with the same rows *)
Theorem lrun_batch_row (p : plan) B chunks rows :
  1 <= B -> m_lrun_batch p B chunks = Ok rows -> m_lrun_row p (List.concat chunks) = Ok rows.
Proof.
  intros HB H. unfold lrun_batch, lrun_row in *.
  rewrite AggregateProofs.prepare_batch_row in H. now apply adrain_batch_row with (B := B).
Qed.

(* ---------------------------------------------------------------- against the eager runs *)

(* where every group can be completed, the lazy drains return what Model/Aggregate.v returns *)
Theorem adrain_row_eager (p : plan) rows all :
  m_finish_all rows = Some all ->
  m_adrain_row p rows =
  Ok (match pl_limit p with Some n => firstn n (skipn (pl_start p) all) | None => all end).
Proof.
  intros H. unfold adrain_row. destruct (pl_limit p) as [n|]; [|now rewrite H].
  rewrite ldrain_anext, (fin_firstn _ _ _ H). now rewrite firstn_skipn_swap.
Qed.

(* ---------------------------------------------------------------- batch mode never gets stuck *)
(* where every group row can be completed, batch() never fails, the loops of Batch end within
   their fuel, and the drain ends: the lazy batch drain returns rows *)
Definition good (s : aggr_rows) : Prop := exists r, fin s = Some r.

Lemma good_skipn B s : good s -> good (skipn B s).
Proof.
  intros (r & H). rewrite <- (firstn_skipn B s), fin_app in H.
  destruct (fin (firstn B s)); [|discriminate]. destruct (fin (skipn B s)) as [y|] eqn:E2; [|discriminate].
  exists y. exact E2.
Qed.

Lemma abatch_good B kr s : 1 <= B -> good (kr :: s) ->
  exists b, m_abatch B (kr :: s) = Ok (b, skipn B (kr :: s)) /\ b <> [] /\
            List.length (skipn B (kr :: s)) < List.length (kr :: s).
Proof.
  intros HB (r & H). unfold abatch. fold (fin (firstn B (kr :: s))).
  rewrite (fin_firstn _ _ B H). cbn [exec_res bind]. eexists. split; [reflexivity|]. split.
  - pose proof (fin_length _ _ H) as L. destruct B; [lia|]. destruct r; [discriminate L | discriminate].
  - rewrite skipn_length. cbn [List.length]. lia.
Qed.

Section Total.
Variable B : nat.
Hypothesis HB : 1 <= B.

Lemma lskip_total : forall fuel start sk s, good s -> start - sk < fuel ->
  exists r sk' s', lskip_batch (m_abatch B) fuel start sk s = Ok (r, sk', s') /\ good s' /\
    List.length s' <= List.length s /\
    (forall rows, r = Some rows -> rows <> [] -> List.length s' < List.length s).
Proof.
  induction fuel as [|f IH]; intros start sk s Hg Hf; [lia|].
  cbn [lskip_batch]. destruct (Nat.ltb_spec sk start) as [Hlt|Hge].
  - destruct s as [|kr s].
    + cbn [abatch bind List.length Nat.eqb]. exists None, sk, []. repeat split; auto. discriminate.
    + destruct (abatch_good B kr s HB Hg) as (b & Eb & Hb & Hl). rewrite Eb. cbn [bind].
      destruct (List.length b =? 0) eqn:E0.
      { apply Nat.eqb_eq in E0. destruct b; [congruence | discriminate]. }
      assert (Hn : 1 <= List.length b) by (destruct b; [congruence | cbn; lia]).
      destruct (Nat.leb_spec (List.length b) (start - sk)) as [Hle|Hgt].
      * destruct (IH start (sk + List.length b) (skipn B (kr :: s)) (good_skipn B _ Hg) ltac:(lia))
          as (r & sk' & s' & E & Hg' & Hl' & Hr).
        exists r, sk', s'. split; [exact E|]. split; [exact Hg'|]. split; [lia|].
        intros rows H1 H2. specialize (Hr rows H1 H2). lia.
      * exists (Some (skipn (start - sk) b)), (sk + (start - sk)), (skipn B (kr :: s)).
        split; [reflexivity|]. split; [apply good_skipn; exact Hg|]. split; [lia|]. intros; lia.
  - exists (Some []), sk, s. split; [reflexivity|]. split; [exact Hg|]. split; [lia|].
    intros rows H1 H2. inversion H1; subst. congruence.
Qed.

Lemma lfill_total : forall fuel count cur ret cnt s, good s -> cur < count -> B - cnt < fuel ->
  exists ret' cur' s', lfill (m_abatch B) fuel B count cur ret cnt s = Ok (ret', cur', s') /\ good s' /\
    List.length s' <= List.length s /\ (ret' <> ret -> List.length s' < List.length s).
Proof.
  induction fuel as [|f IH]; intros count cur ret cnt s Hg Hc Hf; [lia|].
  cbn [lfill]. destruct s as [|kr s].
  - cbn [abatch bind List.length Nat.eqb]. exists ret, cur, []. repeat split; auto. congruence.
  - destruct (abatch_good B kr s HB Hg) as (b & Eb & Hb & Hl). rewrite Eb. cbn [bind].
    destruct (List.length b =? 0) eqn:E0.
    { apply Nat.eqb_eq in E0. destruct b; [congruence | discriminate]. }
    assert (Hn : 1 <= List.length b) by (destruct b; [congruence | cbn; lia]).
    rewrite (LimitProofs.take_fill_spec b ret cnt Hc).
    destruct (Nat.leb_spec count (cur + List.length b)) as [Hfin|Hnf].
    + eexists _, _, _. split; [reflexivity|]. split; [apply good_skipn; exact Hg|]. split; lia.
    + destruct (Nat.leb_spec B (cnt + Nat.min (count - cur) (List.length b))) as [Hfull|Hmore].
      * eexists _, _, _. split; [reflexivity|]. split; [apply good_skipn; exact Hg|]. split; lia.
      * destruct (IH count (cur + Nat.min (count - cur) (List.length b))
                    (ret ++ firstn (count - cur) b) (cnt + Nat.min (count - cur) (List.length b))
                    (skipn B (kr :: s)) (good_skipn B _ Hg) ltac:(lia) ltac:(lia))
          as (ret' & cur' & s' & E & Hg' & Hl' & _).
        exists ret', cur', s'. split; [exact E|]. split; [exact Hg'|]. split; lia.
Qed.

Lemma lbatch_total start count st s : good s ->
  exists out st' s', lbatch (m_abatch B) B start count st s = Ok (out, st', s') /\ good s' /\
    List.length s' <= List.length s /\ (out <> [] -> List.length s' < List.length s).
Proof.
  intros Hg. unfold lbatch.
  destruct (lskip_total (Datatypes.S (start - Limit.skips st)) start (Limit.skips st) s Hg ltac:(lia))
    as (r & sk & s1 & E & Hg1 & Hl1 & Hr1).
  rewrite E. cbn [bind]. destruct r as [rows|].
  - rewrite LimitProofs.take_left_spec. cbn [app].
    destruct (Nat.leb_spec count (Limit.current st + Nat.min (count - Limit.current st) (List.length rows))) as [Hc|Hc].
    + eexists _, _, _. split; [reflexivity|]. split; [exact Hg1|]. split; [exact Hl1|].
      intros Ho. apply (Hr1 rows eq_refl). intros ->. rewrite firstn_nil in Ho. congruence.
    + destruct (lfill_total (Datatypes.S B) count
                  (Limit.current st + Nat.min (count - Limit.current st) (List.length rows))
                  (firstn (count - Limit.current st) rows)
                  (0 + Nat.min (count - Limit.current st) (List.length rows)) s1 Hg1 ltac:(lia) ltac:(lia))
        as (ret' & cur' & s2 & E2 & Hg2 & Hl2 & Hr2).
      rewrite E2. cbn [bind]. eexists _, _, _. split; [reflexivity|]. split; [exact Hg2|]. split; [lia|].
      intros Ho. destruct (list_eq_dec_nil ret') as [->|Hne]; [congruence|].
      destruct rows as [|x rows].
      * rewrite firstn_nil in Hr2. specialize (Hr2 Hne). lia.
      * specialize (Hr1 (x :: rows) eq_refl ltac:(discriminate)). lia.
  - eexists _, _, _. split; [reflexivity|]. split; [exact Hg1|]. split; [exact Hl1|]. congruence.
Qed.

Lemma ldrain_total start count : forall fuel st s, good s -> List.length s < fuel ->
  exists outs, ldrain_batch_fuel (m_abatch B) fuel B start count st s = Ok outs.
Proof.
  induction fuel as [|f IH]; intros st s Hg Hf; [lia|].
  cbn [ldrain_batch_fuel].
  destruct (lbatch_total start count st s Hg) as (out & st' & s' & E & Hg' & Hl & Ho).
  rewrite E. cbn [bind]. destruct out as [|r out]; [eauto|].
  destruct (IH st' s' Hg' ltac:(specialize (Ho ltac:(discriminate)); lia)) as (outs & Eo).
  rewrite Eo. cbn [bind]. eauto.
Qed.

End Total.

Theorem lrun_row_refines (p : plan) pairs rows :
  m_run_row p pairs = Some rows -> m_lrun_row p pairs = Ok rows.
Proof.
  unfold Aggregate.run_row, lrun_row. intros H.
  destruct (m_finish_all (m_prepare p pairs)) as [all|] eqn:E; [|discriminate].
  rewrite (adrain_row_eager p _ all E).
  destruct (pl_limit p) as [n|]; [|now inversion H].
  rewrite LimitProofs.drain_row_slice in H. now inversion H.
Qed.

(* ================================================================ 3. against the specification *)
Local Notation render_eqb := (AggregateProofs.render_eqb fmt_f bits_f).
Local Notation s_row := (spec_row fadd fsub fmul fdiv fltb fis0 of_Z to_Z fmt_f json_f parse_f Aggregate.parse_int json_s).
Local Notation s_result := (spec_result fadd fsub fmul fdiv fltb fis0 of_Z to_Z fmt_f json_f parse_f Aggregate.parse_int json_s).
Local Notation s_result_lazy := (spec_result_lazy fadd fsub fmul fdiv fltb fis0 of_Z to_Z fmt_f json_f parse_f Aggregate.parse_int json_s).

(* row by row: completing the i-th prepared row is the specified row of the i-th group *)
Lemma finish_rows_spec (p : plan) pairs :
  map (fun kr => m_finish_row (snd kr)) (m_prepare p pairs) = map (s_row p) (spec_groups render_eqb p pairs).
Proof.
  replace (map (fun kr => m_finish_row (snd kr)) (m_prepare p pairs))
    with (map (fun o => match o with Some r => m_finish_row r | None => None end)
              (map (fun kr => Some (snd kr)) (m_prepare p pairs)))
    by (rewrite map_map; reflexivity).
  rewrite AggregateProofs.prepare_groups, map_map. apply map_ext_in. intros g Hg.
  unfold spec_groups in Hg.
  rewrite <- (@AggregateProofs.groups_equiv _ _ _ String.eqb (Aggregate.getAggrKey fmt_f bits_f true p)
                (tuple_eqb render_eqb) (spec_tuple p) pairs) in Hg
    by (intros; apply AggregateProofs.keys_eq).
  apply (@AggregateProofs.groups_nonempty _ _ String.eqb (Aggregate.getAggrKey fmt_f bits_f true p) String.eqb_eq) in Hg.
  destruct g as [|m rest]; [congruence|].
  cbn [AggregateProofs.grp_state]. apply AggregateProofs.group_row_spec.
Qed.

(* row-at-a-time: exactly the lazy reference result -- the slice of the specified rows, failing
   iff one of the first Start + Limit groups (all groups without a LIMIT) is undefined *)
Theorem lrun_row_spec (p : plan) pairs :
  m_lrun_row p pairs = exec_res (s_result_lazy render_eqb p pairs).
Proof.
  unfold lrun_row, adrain_row, spec_result_lazy.
  destruct (pl_limit p) as [n|].
  - rewrite ldrain_anext. unfold fin. rewrite <- firstn_map, finish_rows_spec, firstn_map.
    destruct (seq_opt _); reflexivity.
  - now rewrite AggregateProofs.finish_all_spec.
Qed.

(* batch mode, every B >= 1, every chunking: a completed drain returns the lazy reference result *)
Theorem lrun_batch_spec (p : plan) B chunks rows :
  1 <= B -> m_lrun_batch p B chunks = Ok rows ->
  s_result_lazy render_eqb p (List.concat chunks) = Some rows.
Proof.
  intros HB H. apply (lrun_batch_row p B chunks rows HB) in H. rewrite lrun_row_spec in H.
  destruct (s_result_lazy render_eqb p (List.concat chunks)); cbn in H; inversion H; reflexivity.
Qed.

(* ... and in batch mode, for every B >= 1 and every chunking *)
Theorem adrain_batch_eager (p : plan) B rows all : 1 <= B ->
  m_finish_all rows = Some all ->
  m_adrain_batch p B rows =
  Ok (match pl_limit p with Some n => firstn n (skipn (pl_start p) all) | None => all end).
Proof.
  intros HB H. rewrite <- (adrain_row_eager p rows all H).
  destruct (pl_limit p) as [n|] eqn:El; [|unfold adrain_batch, adrain_row; now rewrite El].
  destruct (ldrain_total B HB (pl_start p) n (Datatypes.S (Datatypes.S (List.length rows))) Limit.linit rows
              (ex_intro _ all H) ltac:(lia)) as (outs & Eo).
  assert (Hb : m_adrain_batch p B rows = Ok (List.concat outs)).
  { unfold adrain_batch. rewrite El, Eo. reflexivity. }
  rewrite Hb. symmetry. now apply (adrain_batch_row p B rows _ HB).
Qed.

Theorem lrun_batch_refines (p : plan) B chunks rows : 1 <= B ->
  m_run_batch p B chunks = Some rows -> m_lrun_batch p B chunks = Ok rows.
Proof.
  intros HB H. rewrite (@AggregateProofs.run_batch_row_agree F fadd fsub fmul fdiv fltb fis0 of_Z to_Z fmt_f bits_f
                          json_f parse_f json_s p B chunks HB) in H.
  unfold lrun_batch. rewrite AggregateProofs.prepare_batch_row.
  unfold Aggregate.run_row in H.
  destruct (m_finish_all (m_prepare p (List.concat chunks))) as [all|] eqn:E; [|discriminate].
  rewrite (adrain_batch_eager p B _ all HB E).
  destruct (pl_limit p) as [n|]; [|now inversion H].
  rewrite LimitProofs.drain_row_slice in H. now inversion H.
Qed.

End FinishProofs.

(* wherever Spec/Group.v defines a result, the lazy reference defines the same one *)
Theorem spec_result_lazy_refines :
  forall (F : Type) (fadd fsub fmul fdiv : F -> F -> F) (fltb : F -> F -> bool) (fis0 : F -> bool)
         (of_Z : Z -> F) (to_Z : F -> Z) (fmt_f : F -> bytes) (json_f : F -> option bytes)
         (parse_f : bytes -> option F) (parse_i : bytes -> option Z) (json_s : bytes -> bytes)
         (veqb : Group.value F -> Group.value F -> bool) (p : Group.plan F) pairs rows,
  spec_result fadd fsub fmul fdiv fltb fis0 of_Z to_Z fmt_f json_f parse_f parse_i json_s veqb p pairs = Some rows ->
  spec_result_lazy fadd fsub fmul fdiv fltb fis0 of_Z to_Z fmt_f json_f parse_f parse_i json_s veqb p pairs = Some rows.
Proof.
  intros until rows. unfold spec_result, spec_result_lazy, spec_rows.
  destruct (seq_opt (map _ (spec_groups veqb p pairs))) as [all|] eqn:E; [|discriminate].
  destruct (pl_limit p) as [n|]; [|exact (fun H => H)].
  intros H. inversion H; subst rows.
  rewrite <- firstn_map, (seq_opt_firstn _ _ (pl_start p + n) E). now rewrite firstn_skipn_swap.
Qed.

(* ================================================================ 4. what is not evaluated is not looked at *)
(* [blank] removes from a FULL observation of a pair (every expression evaluated) exactly what
   the Go code does not evaluate on that pair, given the keys seen so far: the non-aggregate
   fields on a later pair of a group, the arguments no non-count call reads, the GROUP BY values
   of a statement without GROUP BY.  Model/Aggregate.v builds the same rows from the blanked
   observations as from the full ones. *)
Section Blank.
Variable F : Type.
Variable fadd : F -> F -> F.
Variable fltb : F -> F -> bool.
Variable of_Z : Z -> F.
Variable to_Z : F -> Z.
Variable fmt_f : F -> bytes.
Variable bits_f : F -> bytes.
Variable parse_f : bytes -> option F.

Local Notation gvalue := (Group.value F).
Local Notation pobs := (Group.pobs F).
Local Notation plan := (Group.plan F).
Local Notation aggr_rows := (Aggregate.aggr_rows F).
Local Notation col := (Aggregate.col F).
Local Notation m_key := (Aggregate.getAggrKey fmt_f bits_f true).
Local Notation m_create := (Aggregate.createAggrRow of_Z fmt_f).
Local Notation m_update := (Aggregate.update fadd fltb of_Z to_Z fmt_f parse_f true).
Local Notation m_update_calls := (Aggregate.update_calls fadd fltb of_Z to_Z fmt_f parse_f true).
Local Notation m_update_row := (Aggregate.updateRowAggrFunc fadd fltb of_Z to_Z fmt_f parse_f true).
Local Notation m_step := (Aggregate.aggr_step fadd fltb of_Z to_Z fmt_f parse_f true).
Local Notation m_prepare := (Aggregate.prepare fadd fltb of_Z to_Z fmt_f bits_f parse_f true true).
Local Notation m_lkey := (lkey fmt_f bits_f).

Fixpoint mask_from (need : nat -> bool) (i : nat) (a : list gvalue) : list gvalue :=
  match a with
  | [] => []
  | v :: a' => (if need i then v else VNil) :: mask_from need (Datatypes.S i) a'
  end.

Definition blank (p : plan) (t : seen) (o : pobs) : pobs * seen :=
  let g := if pl_all p then [] else p_g o in
  let key := m_lkey p g in
  if seen_mem key t then (PObs g [] (mask_from (arg_needed p) 0 (p_a o)), t)
  else (PObs g (p_k o) (mask_from (arg_needed p) 0 (p_a o)), t ++ [key]).

Fixpoint blank_all (p : plan) (t : seen) (l : list pobs) : list pobs :=
  match l with
  | [] => []
  | o :: l' => fst (blank p t o) :: blank_all p (snd (blank p t o)) l'
  end.

Lemma nth_mask need : forall a i j, need (i + j) = true ->
  nth j (mask_from need i a) VNil = nth j a (@VNil F).
Proof.
  induction a as [|v a IH]; intros i j H; cbn [mask_from]; [reflexivity|].
  destruct j as [|j]; cbn [nth].
  - rewrite Nat.add_0_r in H. now rewrite H.
  - apply IH. now rewrite Nat.add_succ_comm.
Qed.

Lemma lkey_key (p : plan) (o : pobs) : m_lkey p (if pl_all p then [] else p_g o) = m_key p o.
Proof. unfold lkey, Aggregate.getAggrKey. cbn [p_g]. destruct (pl_all p); reflexivity. Qed.

(* the accumulator of a count call is a counter: its update ignores the value *)
Definition kind_ok (c : call) (st : Aggregate.astate F) : Prop :=
  c_fun c = ACount -> exists n, st = Aggregate.SCount F n.
Definition col_ok (p : plan) (c : col) : Prop :=
  match c with
  | Aggregate.CKey _ => True
  | Aggregate.CAgg _ calls sts => incl calls (plan_calls p) /\ Forall2 kind_ok calls sts
  end.
Definition rows_ok (p : plan) (rows : aggr_rows) : Prop := Forall (fun kr => Forall (col_ok p) (snd kr)) rows.

Lemma update_kind c st v : kind_ok c st -> kind_ok c (m_update st v).
Proof.
  unfold kind_ok. intros H Hc. destruct (H Hc) as (n & ->). cbn [Aggregate.update]. eauto.
Qed.

Lemma update_calls_kind : forall calls sts o, Forall2 kind_ok calls sts ->
  Forall2 kind_ok calls (m_update_calls calls sts o).
Proof.
  induction 1 as [|c st calls sts Hk _ IH]; cbn [Aggregate.update_calls]; constructor; auto.
  now apply update_kind.
Qed.

Lemma arg_needed_in (p : plan) c : In c (plan_calls p) -> c_fun c <> ACount -> arg_needed p (c_arg c) = true.
Proof.
  intros Hin Hc. unfold arg_needed. apply existsb_exists. exists c. split; [exact Hin|].
  rewrite Nat.eqb_refl, andb_true_r. unfold call_evaluates. destruct (c_fun c); congruence.
Qed.

Lemma update_calls_blank (p : plan) : forall calls sts (o' o : pobs),
  incl calls (plan_calls p) -> Forall2 kind_ok calls sts ->
  p_a o' = mask_from (arg_needed p) 0 (p_a o) ->
  m_update_calls calls sts o' = m_update_calls calls sts o.
Proof.
  intros calls sts o' o Hin Hk Ha. revert Hin.
  induction Hk as [|c st calls sts Hc _ IH]; intros Hin; cbn [Aggregate.update_calls]; [reflexivity|].
  rewrite IH by (intros x Hx; apply Hin; now right). f_equal.
  destruct (c_fun c) eqn:Ef;
    try (rewrite Ha, nth_mask; [reflexivity|];
         apply arg_needed_in; [apply Hin; now left | rewrite Ef; discriminate]).
  destruct (Hc Ef) as (n & ->). reflexivity.
Qed.

Lemma update_row_blank (p : plan) (row : list col) (o' o : pobs) :
  Forall (col_ok p) row -> p_a o' = mask_from (arg_needed p) 0 (p_a o) ->
  m_update_row row o' = m_update_row row o.
Proof.
  intros Hr Ha. unfold Aggregate.updateRowAggrFunc. apply map_ext_in. intros c Hc.
  rewrite Forall_forall in Hr. specialize (Hr c Hc). destruct c as [v|e calls sts]; [reflexivity|].
  destruct Hr as (Hin & Hk). now rewrite (update_calls_blank p calls sts o' o Hin Hk Ha).
Qed.

Lemma update_row_ok (p : plan) (row : list col) (o : pobs) :
  Forall (col_ok p) row -> Forall (col_ok p) (m_update_row row o).
Proof.
  intros Hr. unfold Aggregate.updateRowAggrFunc. apply Forall_map.
  eapply Forall_impl; [|exact Hr]. intros [v|e calls sts]; cbn [col_ok]; [auto|].
  intros (Hin & Hk). split; [exact Hin | now apply update_calls_kind].
Qed.

Lemma create_ok (p : plan) (o : pobs) : Forall (col_ok p) (m_create p o).
Proof.
  unfold Aggregate.createAggrRow. apply Forall_map. apply Forall_forall. intros f Hf.
  destruct f as [k|e calls]; cbn [col_ok]; [exact I|]. split.
  - intros c Hc. unfold plan_calls. apply in_flat_map. exists (FAgg e calls). split; [exact Hf | exact Hc].
  - clear Hf. induction calls as [|c calls IH]; cbn [map]; constructor; [|exact IH].
    intros Hc. rewrite Hc. cbn [Aggregate.new_state]. eauto.
Qed.

Lemma lookup_ok (p : plan) : forall rows k row, rows_ok p rows -> Aggregate.lookup k rows = Some row -> Forall (col_ok p) row.
Proof.
  induction rows as [|[k' r] rows IH]; intros k row Hr H; cbn [Aggregate.lookup] in H; [discriminate|].
  inversion Hr; subst. destruct (String.eqb k' k); [inversion H; subst; assumption | eauto].
Qed.

Lemma replace_ok (p : plan) : forall rows k row, rows_ok p rows -> Forall (col_ok p) row ->
  rows_ok p (Aggregate.replace k row rows).
Proof.
  induction rows as [|[k' r] rows IH]; intros k row Hr Hrow; cbn [Aggregate.replace]; [constructor|].
  inversion Hr; subst. destruct (String.eqb k' k); constructor; auto. apply IH; auto.
Qed.

Lemma step_ok (p : plan) rows k (o : pobs) : rows_ok p rows -> rows_ok p (m_step p rows k o).
Proof.
  intros Hr. unfold Aggregate.aggr_step. destruct (Aggregate.lookup k rows) as [row|] eqn:El.
  - apply replace_ok; [exact Hr|]. apply update_row_ok. eapply lookup_ok; eauto.
  - apply Forall_app. split; [exact Hr|]. constructor; [|constructor]. cbn [snd].
    apply update_row_ok, create_ok.
Qed.

(* the keys seen are the keys of the rows *)
Lemma seen_lookup : forall (rows : aggr_rows) k,
  seen_mem k (map fst rows) = match Aggregate.lookup k rows with Some _ => true | None => false end.
Proof.
  unfold seen_mem. induction rows as [|[k' r] rows IH]; intros k; cbn [map existsb Aggregate.lookup fst]; [reflexivity|].
  rewrite (String.eqb_sym k k'). destruct (String.eqb k' k); [reflexivity | apply IH].
Qed.

Lemma replace_keys : forall (rows : aggr_rows) k row, map fst (Aggregate.replace k row rows) = map fst rows.
Proof.
  induction rows as [|[k' r] rows IH]; intros k row; cbn [Aggregate.replace map fst]; [reflexivity|].
  destruct (String.eqb k' k) eqn:E; cbn [map fst]; [|now rewrite IH].
  reflexivity.
Qed.

Lemma step_blank (p : plan) rows (o : pobs) : rows_ok p rows ->
  m_step p rows (m_key p (fst (blank p (map fst rows) o))) (fst (blank p (map fst rows) o)) =
    m_step p rows (m_key p o) o /\
  snd (blank p (map fst rows) o) = map fst (m_step p rows (m_key p o) o).
Proof.
  intros Hr. unfold blank. rewrite lkey_key, seen_lookup.
  assert (Hk : forall k a, m_key p (PObs (if pl_all p then [] else p_g o) k a) = m_key p o).
  { intros k a. unfold Aggregate.getAggrKey. cbn [p_g]. destruct (pl_all p); reflexivity. }
  unfold Aggregate.aggr_step.
  destruct (Aggregate.lookup (m_key p o) rows) as [row|] eqn:El; cbn [fst snd]; rewrite Hk, El.
  - split; [|now rewrite replace_keys]. f_equal.
    apply (update_row_blank p); [eapply lookup_ok; eauto | reflexivity].
  - split; [|now rewrite map_app]. f_equal. f_equal. f_equal.
    assert (Hc : m_create p (PObs (if pl_all p then [] else p_g o) (p_k o) (mask_from (arg_needed p) 0 (p_a o))) = m_create p o)
      by reflexivity.
    rewrite Hc. apply (update_row_blank p); [apply create_ok | reflexivity].
Qed.

Lemma prepare_blank_gen (p : plan) : forall l rows, rows_ok p rows ->
  fold_left (fun rows o => m_step p rows (m_key p o) o) (blank_all p (map fst rows) l) rows =
  fold_left (fun rows o => m_step p rows (m_key p o) o) l rows.
Proof.
  induction l as [|o l IH]; intros rows Hr; cbn [blank_all fold_left]; [reflexivity|].
  destruct (step_blank p rows o Hr) as (E1 & E2). rewrite E1, E2.
  apply IH. now apply step_ok.
Qed.

(* prepare_lazy_eq *)
Theorem prepare_blank (p : plan) (pairs : list pobs) :
  m_prepare p (blank_all p [] pairs) = m_prepare p pairs.
Proof. unfold Aggregate.prepare. apply (prepare_blank_gen p pairs []). constructor. Qed.

End Blank.

(* ================================================================ 5. an eager observation, made lazy *)
(* If what row mode evaluates lazily on a pair ([orow], from the keys seen [t]) is a function [f t]
   of what an eager observation [prow] returns whenever that one succeeds, then the lazy loop of
   prepare succeeds wherever the eager drain does, with the observations threaded through [f]. *)
Section Refine.
Variable P R R' T : Type.
Variable frow : P -> res bool.
Variable prow : P -> res R.
Variable orow : T -> P -> res (R' * T).
Variable f : T -> R -> R' * T.
Hypothesis Hrow : forall t kv o, prow kv = Ok o -> orow t kv = Ok (f t o).

Fixpoint thread (t : T) (l : list R) : list R' :=
  match l with
  | [] => []
  | o :: l' => fst (f t o) :: thread (snd (f t o)) l'
  end.

Lemma srow_list_of_row_list : forall l t rows,
  row_list P R frow prow l = Ok rows -> srow_list P R' T frow orow t l = Ok (thread t rows).
Proof.
  induction l as [|kv l IH]; intros t rows H; cbn [row_list srow_list] in *.
  - inversion H. reflexivity.
  - apply bind_ok' in H. destruct H as (ok & Ek & H). rewrite Ek. cbn [bind]. destruct ok.
    + apply bind_ok' in H. destruct H as (o & Eo & H).
      apply bind_ok' in H. destruct H as (out & Eout & H). inversion H; subst rows.
      rewrite (Hrow t kv o Eo). cbn [bind]. rewrite (IH _ _ Eout). reflexivity.
    + apply IH. exact H.
Qed.

Theorem sdrain_row_of_drain t sl rows :
  drain_row frow prow sl = Ok rows -> sdrain_row frow orow t sl = Ok (thread t rows).
Proof.
  rewrite drain_row_spec, sdrain_row_spec. apply srow_list_of_row_list.
Qed.

End Refine.

(* ================================================================ witnesses *)
(* the lazy twin on the [unit] instance of the float type (no float occurs) *)
Definition lrun_row_unit :=
  @lrun_row unit AggregateProofs.u2 AggregateProofs.u2 AggregateProofs.u2 AggregateProofs.u2
            (fun _ _ => false) (fun _ => false) (fun _ => tt) (fun _ => 0%Z)
            (fun _ => "f"%string) (fun _ => "b"%string) (fun _ => None) (fun _ => None) (fun s => s).
Definition lrun_batch_unit :=
  @lrun_batch unit AggregateProofs.u2 AggregateProofs.u2 AggregateProofs.u2 AggregateProofs.u2
              (fun _ _ => false) (fun _ => false) (fun _ => tt) (fun _ => 0%Z)
              (fun _ => "f"%string) (fun _ => "b"%string) (fun _ => None) (fun _ => None) (fun s => s).

(* select g, 10 / (count(x) - 2) group by g limit 0, 1 over the groups a (1 pair), b (2 pairs:
   10 / 0), c (1 pair); observations as the lazy discipline leaves them: the field of b's second
   pair was not evaluated, the argument of count never *)
Definition lz_plan : plan unit :=
  Plan false [FKey 0; FAgg (AEBin Divide (AEInt 10) (AEBin Minus (AECall 0) (AEInt 2))) [Call ACount 0]] 0 (Some 1).
Definition lz_pairs : list (pobs unit) :=
  [PObs [VBytes "a"] [VBytes "a"] [VNil]; PObs [VBytes "b"] [VBytes "b"] [VNil];
   PObs [VBytes "b"] [] [VNil]; PObs [VBytes "c"] [VBytes "c"] [VNil]]%string.

Lemma lazy_completion_witness :
  (* row mode never completes group b ... *)
  lrun_row_unit lz_plan lz_pairs = Ok [[VBytes "a"; VInt (-10)]]%string /\
  (* ... batch mode with PlanBatchSize 1 neither, with PlanBatchSize 2 it does and fails ... *)
  lrun_batch_unit lz_plan 1 [firstn 2 lz_pairs; skipn 2 lz_pairs] = Ok [[VBytes "a"; VInt (-10)]]%string /\
  lrun_batch_unit lz_plan 2 [firstn 2 lz_pairs; skipn 2 lz_pairs] = Err EOther /\
  (* ... the eager twin and Spec/Group.v's spec_result fail, whatever the LIMIT *)
  AggregateProofs.run_row_unit true true lz_plan lz_pairs = None /\
  AggregateProofs.spec_unit lz_plan lz_pairs = None.
Proof. repeat split; vm_compute; reflexivity. Qed.

(* the same for the loop of prepareBatch *)
Section RefineB.
Variable P R R' T : Type.
Variable fbatch : list P -> res (list bool).
Variable pbatch : list P -> res (list R).
Variable obatch : T -> list P -> res (list R' * T).
Variable f : T -> R -> R' * T.

Fixpoint tstate (t : T) (l : list R) : T :=
  match l with
  | [] => t
  | o :: l' => tstate (snd (f t o)) l'
  end.
Fixpoint threadc (t : T) (outs : list (list R)) : list (list R') :=
  match outs with
  | [] => []
  | c :: outs' => thread _ _ _ f t c :: threadc (tstate t c) outs'
  end.

Hypothesis Hb : forall t c rs, pbatch c = Ok rs -> obatch t c = Ok (thread _ _ _ f t rs, tstate t rs).
Hypothesis Hne : forall c, pbatch c = Ok [] -> c = [].

Lemma thread_app : forall a b t, thread _ _ _ f t (a ++ b) = thread _ _ _ f t a ++ thread _ _ _ f (tstate t a) b.
Proof. induction a as [|o a IH]; intros b t; cbn [app thread tstate]; [reflexivity | now rewrite IH]. Qed.

Lemma threadc_concat : forall outs t, List.concat (threadc t outs) = thread _ _ _ f t (List.concat outs).
Proof.
  induction outs as [|c outs IH]; intros t; cbn [threadc List.concat thread]; [reflexivity|].
  now rewrite thread_app, IH.
Qed.

Lemma sdrain_batch_fuel_of_drain : forall fuel B t rest outs,
  drain_batch_fuel fbatch pbatch fuel B rest = Ok outs ->
  sdrain_batch_fuel fbatch obatch fuel B t rest = Ok (threadc t outs).
Proof.
  induction fuel as [|fu IH]; intros B t rest outs H; [discriminate|].
  cbn [drain_batch_fuel sdrain_batch_fuel] in *. unfold proj_batch in H.
  apply bind_ok' in H. destruct H as ((rows & rest1) & Epb & H).
  apply bind_ok' in Epb. destruct Epb as ((kvs & rest2) & Esb & Epb). rewrite Esb. cbn [bind].
  destruct kvs as [|kv kvs].
  - inversion Epb; subst rows rest1. inversion H; subst outs. reflexivity.
  - apply bind_ok' in Epb. destruct Epb as (rows' & Erows & Epb). inversion Epb; subst rows' rest1.
    destruct rows as [|r rows]; [apply Hne in Erows; discriminate|].
    apply bind_ok' in H. destruct H as (outs' & Eouts & H). inversion H; subst outs.
    rewrite (Hb t _ _ Erows). cbn [bind fst snd]. rewrite (IH _ _ _ _ Eouts). reflexivity.
Qed.

Theorem sdrain_batch_of_drain B t sl outs :
  drain_batch fbatch pbatch B sl = Ok outs -> sdrain_batch fbatch obatch B t sl = Ok (threadc t outs).
Proof. apply sdrain_batch_fuel_of_drain. Qed.

End RefineB.
